(* C05 / C02 driver for the shift-pass linear programme (coq/ShiftLp.v).
   "SL nrows (minX maxX ncells (id x w)*)*  npos pos*  nnets (npins (cell off)*)*  k cell*k
       nnodes (kind id supply potential)*  narcs (src tgt cost flow)*  k newx*k"
   = one call of DetailedPlacer::runShiftsOnCells as harness/dopt.cpp records it through the hook
   coloquinte_verif_shift_hook: state before the call, the network the C++ built, lemon's potentials and flows,
   the positions written.  Prints
     "net=b sup=b cert=b dual=b flow=b cons=b range=b pos=b shiftok=b vb=N va=N narcs=N moved=b hyp=b | detail"
     net     the multiset of labelled arcs (src, tgt, cost) of the C++ equals that of ShiftLp.shift_net on the same state
     sup     same for the non-zero supplies
     cert    the extracted, proved ShiftLp.shift_cert_ok accepts lemon's potentials and flows on the MODEL's network
             (flows carried over arc by arc through the labels); dual / flow / cons / range are its four conjuncts
     pos     the positions written equal ShiftLp.positions_of (potential(cell) - potential(fixed))
     shiftok Moves.shift_ok of the positions written; vb / va = x wirelength (ShiftLp.xvalue) before / after
     hyp     the hypotheses of c05_certified_shift_never_worsens that concern the recorded state hold: every cell of the
             rows has its x at its index of the x model (consistent) and every selected cell is a cell of the x model *)
open Model_shift
let rec pos_of_int n = if n = 1 then XH else if n land 1 = 0 then XO (pos_of_int (n lsr 1)) else XI (pos_of_int (n lsr 1))
let z_of_int n = if n = 0 then Z0 else if n > 0 then Zpos (pos_of_int n) else Zneg (pos_of_int (-n))
let rec int_of_pos = function XH -> 1 | XO p -> 2 * int_of_pos p | XI p -> 2 * int_of_pos p + 1
let int_of_z = function Z0 -> 0 | Zpos p -> int_of_pos p | Zneg p -> - (int_of_pos p)
let rec nat_of_int n = if n <= 0 then O else S (nat_of_int (n-1))
let rec int_of_nat = function O -> 0 | S n -> 1 + int_of_nat n
let b2i b = if b then 1 else 0

exception Short
let toks = ref []
let next () = match !toks with x :: r -> toks := r; x | [] -> raise Short
let nexti () = int_of_string (next ())
let z () = z_of_int (nexti ())
let rec rep n f = if n <= 0 then [] else let x = f () in x :: rep (n-1) f

let node_code = function NCell c -> (0, int_of_nat c) | NL k -> (1, int_of_nat k) | NU k -> (2, int_of_nat k) | NFixed -> (3, 0)
let node_of_code (k, i) = match k with 0 -> NCell (nat_of_int i) | 1 -> NL (nat_of_int i) | 2 -> NU (nat_of_int i) | _ -> NFixed
let arc_key ((s, t), c) = (node_code s, node_code t, int_of_z c)
let show_key ((a, b), (c, d), e) = Printf.sprintf "(%d:%d->%d:%d cost %d)" a b c d e

(* multiset difference of two sorted lists *)
let rec diff a b = match a, b with
  | [], _ -> []
  | l, [] -> l
  | x :: a', y :: b' -> if x = y then diff a' b' else if x < y then x :: diff a' b else diff a b'

let do_sl () =
  let nr = nexti () in
  let rows = rep nr (fun () -> let a = z () in let b = z () in let nc = nexti () in
    let cs = rep nc (fun () -> let i = nexti () in let x = z () in let w = z () in {p_id=nat_of_int i; p_x=x; p_w=w; p_pol=PANY; p_o=ON}) in
    {dr_min=a; dr_max=b; dr_y=Z0; dr_o=ON; dr_cells=cs}) in
  let d = {d_rows=rows; d_loose=[]} in
  let np = nexti () in let pos = rep np z in
  let nn = nexti () in
  let nets = rep nn (fun () -> let k = nexti () in rep k (fun () -> let c = nexti () in let o = z () in (nat_of_int c, o))) in
  let xm = incr_build pos nets in
  let k = nexti () in let sel_i = rep k nexti in let sel = List.map nat_of_int sel_i in
  let nnodes = nexti () in
  let nodes = Array.of_list (rep nnodes (fun () -> let kd = nexti () in let id = nexti () in let s = nexti () in let p = nexti () in ((kd, (if kd = 3 then 0 else id)), s, p))) in
  let narcs = nexti () in
  let carcs = rep narcs (fun () -> let s = nexti () in let t = nexti () in let c = nexti () in let f = nexti () in (s, t, c, f)) in
  let k2 = nexti () in let newx = rep k2 z in
  (* the model's network *)
  let net = shift_net d xm sel in
  let marcs = List.map arc_key net.n_arcs in
  let msup = List.sort compare (List.map (fun (n, b) -> (node_code n, int_of_z b)) net.n_sup) in
  (* the implementation's network, labelled *)
  let lab i = if i >= 0 && i < Array.length nodes then (let (c, _, _) = nodes.(i) in c) else (9, i) in
  let ckeys = List.map (fun (s, t, c, _) -> (lab s, lab t, c)) carcs in
  let csup = List.sort compare (List.concat (List.map (fun (c, s, _) -> if s <> 0 then [(c, s)] else []) (Array.to_list nodes))) in
  let sm = List.sort compare marcs and sc = List.sort compare ckeys in
  let only_m = diff sm sc and only_c = diff sc sm in
  let net_ok = only_m = [] && only_c = [] in
  let sup_ok = msup = csup in
  (* potentials by label, flows carried over to the model's arcs *)
  let pot = Hashtbl.create 64 in
  Array.iter (fun (c, _, p) -> Hashtbl.replace pot c (z_of_int p)) nodes;
  let pi n = match Hashtbl.find_opt pot (node_code n) with Some v -> v | None -> Z0 in
  let fl = Hashtbl.create 64 in
  List.iter2 (fun key (_, _, _, f) -> Hashtbl.add fl key f) ckeys carcs;
  let flows = List.map (fun key -> match Hashtbl.find_opt fl key with Some f -> Hashtbl.remove fl key; z_of_int f | None -> Z0) marcs in
  let cert = shift_cert_ok net pi flows in
  let c1 = dual_feasible net.n_arcs pi and c2 = flow_ok net.n_arcs pi flows
  and c3 = conserve net.n_arcs net.n_sup flows and c4 = range_ok net.n_sup pi in
  let want = positions_of sel pi in
  let written = List.combine sel newx in
  let pos_ok = List.map (fun (c, x) -> (int_of_nat c, int_of_z x)) want = List.map (fun (c, x) -> (int_of_nat c, int_of_z x)) written in
  let sok = shift_ok d written in
  let vb = int_of_z (xvalue xm []) and va = int_of_z (xvalue xm written) in
  let moved = List.exists2 (fun c x -> match List.nth_opt pos c with Some p -> int_of_z p <> int_of_z x | None -> false) sel_i newx in
  let hyp = List.for_all (fun c -> c >= 0 && c < np) sel_i &&
            List.for_all (fun r -> List.for_all (fun c -> match List.nth_opt pos (int_of_nat c.p_id) with Some p -> int_of_z p = int_of_z c.p_x | None -> false) r.dr_cells) rows in
  let detail =
    (if net_ok then "" else Printf.sprintf " model-only-arcs %s impl-only-arcs %s"
        (String.concat "" (List.map show_key (List.filteri (fun i _ -> i < 4) only_m)))
        (String.concat "" (List.map show_key (List.filteri (fun i _ -> i < 4) only_c)))) ^
    (if pos_ok then "" else " potential-positions " ^ String.concat "," (List.map (fun (c, x) -> Printf.sprintf "%d:%d" (int_of_nat c) (int_of_z x)) want)) in
  Printf.printf "net=%d sup=%d cert=%d dual=%d flow=%d cons=%d range=%d pos=%d shiftok=%d vb=%d va=%d narcs=%d moved=%d hyp=%d |%s\n"
    (b2i net_ok) (b2i sup_ok) (b2i cert) (b2i c1) (b2i c2) (b2i c3) (b2i c4) (b2i pos_ok) (b2i sok) vb va narcs (b2i moved) (b2i hyp) detail

let () =
  try while true do
    let line = input_line stdin in
    toks := List.filter (fun s -> s <> "") (String.split_on_char ' ' line);
    (match !toks with
     | [] -> print_endline ""
     | tag :: r ->
       toks := r;
       (try
         (match tag with
          | "SL" -> do_sl ()
          | _ -> print_endline "?TAG")
        with Short -> print_endline "?SHORT" | Invalid_argument m -> print_endline ("?BAD " ^ m)))
  done with End_of_file -> ()
