(* family `api` (C10, C03): reads one case per line, prints one result line per case
   BZ <trace>                      -> the model's prediction of the harness's observation string (see harness/api.cpp)
   EX kind <state dump> m entries  -> "<state dump after the export> threw"
   FK <dump a> <dump b>            -> "frame_okb orient_keptb"                                               *)
open Model_api
let rec pos_of_int n = if n = 1 then XH else if n land 1 = 0 then XO (pos_of_int (n lsr 1)) else XI (pos_of_int (n lsr 1))
let z_of_int n = if n = 0 then Z0 else if n > 0 then Zpos (pos_of_int n) else Zneg (pos_of_int (-n))
let rec int_of_pos = function XH -> 1 | XO p -> 2 * int_of_pos p | XI p -> 2 * int_of_pos p + 1
let int_of_z = function Z0 -> 0 | Zpos p -> int_of_pos p | Zneg p -> - (int_of_pos p)
let rec nat_of_int n = if n <= 0 then O else S (nat_of_int (n-1))
let rec int_of_nat = function O -> 0 | S n -> 1 + int_of_nat n

exception Short
let toks = ref []
let next () = match !toks with x :: r -> toks := r; x | [] -> raise Short
let nexti () = int_of_string (next ())
let z () = z_of_int (nexti ())
let b () = nexti () <> 0
let rec rep n f = if n <= 0 then [] else let x = f () in x :: rep (n-1) f
let vec f = let n = nexti () in rep n f

let orient_of_int = function 0->ON|1->OS|2->OW|3->OE|4->OFN|5->OFS|6->OFW|7->OFE|8->OINVALID|_->OUNKNOWN
let int_of_orient = function ON->0|OS->1|OW->2|OE->3|OFN->4|OFS->5|OFW->6|OFE->7|OINVALID->8|OUNKNOWN->9
let pol_of_int = function 0->PANY|1->PSAME|2->POPPOSITE|3->PNW|_->PSE
let int_of_pol = function PANY->0|PSAME->1|POPPOSITE->2|PNW->3|PSE->4
let orient () = orient_of_int (nexti ())
let row () = let a = z () in let b = z () in let c = z () in let d = z () in let o = orient () in
  { rr = { minX = a; maxX = b; minY = c; maxY = d }; ro = o }

(* the canonical state dump of harness/api.cpp (dumpState) *)
let read_state () =
  let nl = vec z in let nw = vec z in let pc = vec z in let px = vec z in let py = vec z in
  let cw = vec z in let ch = vec z in let fx = vec b in let ob = vec b in let pol = vec (fun () -> pol_of_int (nexti ())) in
  let cx = vec z in let cy = vec z in let co = vec orient in let rows = vec row in
  let iu = b () in let su = b () in let nu = b () in
  { netLimits = nl; netWeights = nw; pinCells = pc; pinXOffs = px; pinYOffs = py; cellW = cw; cellH = ch; cellFixed = fx;
    cellObs = ob; cellPol = pol; cellX = cx; cellY = cy; cellO = co; crows = rows; inUse = iu; sizeUpd = su; netUpd = nu }

let dump c =
  let zl l = List.length l :: List.map int_of_z l in
  let bl l = List.length l :: List.map (fun x -> if x then 1 else 0) l in
  zl c.netLimits @ zl c.netWeights @ zl c.pinCells @ zl c.pinXOffs @ zl c.pinYOffs @ zl c.cellW @ zl c.cellH
  @ bl c.cellFixed @ bl c.cellObs @ (List.length c.cellPol :: List.map int_of_pol c.cellPol)
  @ zl c.cellX @ zl c.cellY @ (List.length c.cellO :: List.map int_of_orient c.cellO)
  @ (List.length c.crows :: List.concat (List.map (fun r -> [int_of_z r.rr.minX; int_of_z r.rr.maxX; int_of_z r.rr.minY; int_of_z r.rr.maxY; int_of_orient r.ro]) c.crows))
  @ [ (if c.inUse then 1 else 0); (if c.sizeUpd then 1 else 0); (if c.netUpd then 1 else 0) ]
let show l = String.concat " " (List.map string_of_int l)
let hash c =
  let p1 = 2147483647 and p2 = 2147483629 in
  let (h1, h2) = List.fold_left (fun (h1, h2) x ->
      let a = ((x mod p1) + p1) mod p1 and b = ((x mod p2) + p2) mod p2 in
      ((h1 * 1000003 + a) mod p1, (h2 * 999983 + b) mod p2)) (7, 11) (dump c) in
  Printf.sprintf "%d %d" h1 h2
let chk c = if check_ok c then 1 else 0

let cls_of = function None -> 0 | Some EParams -> 1 | Some ELegalizer -> 2 | Some EInternal -> 3 | Some EExport -> 4
                      | Some EUpdating -> 6 | Some (ECallback k) -> 100 + int_of_nat k
let res_code = function Accepted -> 0 | RefusedInUse -> 1 | RejectedArgs -> 2 | CallDone e -> 1000 + cls_of e

type item = ISet of setter | ICall of stage * oracle * item list list * bool * int

let placement () = vec (fun () -> let x = z () in let y = z () in let o = orient () in ((x, y), o))

let read_setter kind =
  match kind with
  | 1 -> let a = vec z in let b = vec z in let c = vec z in let w = z () in SAddNet (a, b, c, w)
  | 2 -> let a = vec z in let b = vec z in let c = vec z in let d = vec z in let e = vec z in SSetNets (a, b, c, d, e)
  | 3 -> SSetRows (vec row)
  | 4 -> let a = z () in let b' = z () in let c = z () in let d = z () in let rh = z () in let alt = b () in let ini = b () in
    SSetupRows ({ minX = a; maxX = b'; minY = c; maxY = d }, rh, alt, ini)
  | 5 -> SSetCellIsFixed (vec b)
  | 6 -> SSetCellIsObstruction (vec b)
  | 7 -> SSetCellRowPolarity (vec (fun () -> pol_of_int (nexti ())))
  | 8 -> SSetCellX (vec z)
  | 9 -> SSetCellY (vec z)
  | 10 -> SSetCellOrientation (vec orient)
  | 11 -> SSetCellWidth (vec z)
  | 12 -> SSetCellHeight (vec z)
  | 13 -> SSetNetWeights (vec z)
  | 14 -> SSetSolution (placement ())
  | _ -> failwith "bad setter kind"

let stage_of_int = function 0 -> StGlobal | 1 -> StLegalize | _ -> StDetailed

(* the oracle = what the implementation's algorithms did in this very run: the placements seen on entry of each
   callback and after the call, whether parameters / legalization pass (established by the harness independently of the
   call), the class of the exception that ended it *)
let rec read_item () =
  let kind = nexti () in
  if kind <> 15 then ISet (read_setter kind)
  else begin
    let stage = nexti () in let hascb = b () in let params_ok = b () in let leg_ok = b () in let throwk = nexti () in
    let ninv = nexti () in
    let invs = rep ninv (fun () -> let step = nexti () in let p = placement () in let ops = vec read_item in ((step, p), ops)) in
    let cls = nexti () in
    let after = placement () in
    let expos = List.map (fun ((_, p), _) -> p) invs in
    let steps = List.map (fun ((s, _), _) -> s) invs in
    let p_leg = match expos with e0 :: _ when stage <> 0 -> e0 | _ -> after in
    let internal = (cls = 3) in
    let setup_fails = internal && ninv <= (if stage = 2 && hascb then 1 else 0) in
    let o = { o_params_ok = params_ok;
              o_leg = (fun c -> if leg_ok then Some (adapt_leg p_leg c) else None);
              o_setup_ok = (fun _ -> not setup_fails);
              (* PlacementStep::UpperBound = 1: the callback of runUB, which calls updateCellSizes() first *)
              o_gevents = (if stage = 0 then List.map2 (fun s p -> (fun c -> (s = 1, adapt_glob p (if s = 1 then set_sizeUpd c false else c)))) steps expos else []);
              o_gfinal = (fun c -> if internal then None else Some (adapt_glob after c));
              o_devents = (match expos with _ :: r when stage = 2 -> List.map (fun p -> adapt_det p) r | _ -> []);
              o_dfinal = (fun c -> if internal then None else Some (adapt_det after c)) } in
    ICall (stage_of_int stage, o, List.map snd invs, hascb, throwk)
  end

let cbop_of = function ISet s -> CSet s | ICall (st, o, _, _, _) -> CCall (st, o, None)

let do_bz () =
  let c0 = read_state () in
  let items = vec read_item in
  let buf = Buffer.create 4096 in
  Buffer.add_string buf ("S " ^ hash c0);
  let c = List.fold_left (fun c it ->
      match it with
      | ISet s ->
        let (r, c') = apply_setter c s in
        Buffer.add_string buf (Printf.sprintf " o %d %d %s" (res_code r) (chk c') (hash c')); c'
      | ICall (st, o, ops, hascb, throwk) ->
        let cb = if hascb then Some { cb_ops = List.map (List.map cbop_of) ops;
                                      cb_throw = (if throwk >= 0 then Some (nat_of_int throwk) else None) } else None in
        let ((c', log), e) = call1 st o cb c in
        List.iter (fun en -> Buffer.add_string buf (Printf.sprintf " o %d %d %s" (res_code en.e_res) (chk en.e_after) (hash en.e_after))) log;
        Buffer.add_string buf (Printf.sprintf " E %d %d %s" (cls_of e) (chk c') (hash c')); c') c0 items in
  Buffer.add_string buf (" F " ^ show (dump c));
  print_endline (Buffer.contents buf)

let do_ex () =
  let kind = nexti () in
  let c = read_state () in
  let m = nexti () in
  match kind with
  | 0 -> let l = rep m (fun () -> let x = z () in let y = z () in (x, y)) in
    let c' = export_glob (List.map fst l) (List.map snd l) c in
    Printf.printf "%s 0\n" (show (dump c'))
  | 1 -> let l = rep m (fun () -> let p = b () in let x = z () in let y = z () in let o = orient () in { lc_placed = p; lc_x = x; lc_y = y; lc_o = o }) in
    let (c', threw) = export_leg l c in
    Printf.printf "%s %d\n" (show (dump c')) (if threw then 1 else 0)
  | _ -> let l = rep m (fun () -> let i = z () in let x = z () in let y = z () in let o = orient () in { dc_index = i; dc_x = x; dc_y = y; dc_o = o }) in
    let c' = export_det l c in
    Printf.printf "%s 0\n" (show (dump c'))

let do_fk () =
  let a = read_state () in let b' = read_state () in
  Printf.printf "%d %d\n" (if frame_okb a b' then 1 else 0) (if orient_keptb a b' then 1 else 0)

let () =
  try
    while true do
      let line = input_line stdin in
      (try
         match List.filter (fun s -> s <> "") (String.split_on_char ' ' line) with
         | [] -> print_endline ""
         | tag :: rest ->
           toks := rest;
           (match tag with
            | "BZ" -> do_bz ()
            | "EX" -> do_ex ()
            | "FK" -> do_fk ()
            | _ -> print_endline "?")
       with Short -> print_endline "SHORT" | Failure m -> print_endline ("FAIL " ^ m) | Stack_overflow -> print_endline "STACK")
    done
  with End_of_file -> ()
