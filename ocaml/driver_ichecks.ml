(* correspondence driver of the internal check() models (coq/InternalChecks.v, InternalChecksDetailed.v)
   AB nrows (minX maxX minY maxY orient)* ncells (w h pol tx ty orient)* npert (kind i j v)*
        -> "res ; x* ; nrows (k id*)* ; res_pert*"      the state AbacusLegalizer::run ends with: check(), cellToX_, rowToCells_;
                                                         then check() on each corrupted copy (InternalChecks.ab_perturb)
   EX ncells fixed* n   -> res                           Legalizer::exportPlacement's size test (a legalizer of n cells)
   DP <cstate> nindex <incr x> <incr y>  -> res          DetailedPlacer::check on the arrays
        cstate = nrows (min max y orient)* then ten arrays "len v*": first last width pred next row x y orient pol
        incr   = "npos pos* nnets (k (cell off)*)* nmm (lo hi)* value" *)
open Model_ichecks
let rec pos_of_int n = if n = 1 then XH else if n land 1 = 0 then XO (pos_of_int (n lsr 1)) else XI (pos_of_int (n lsr 1))
let z_of_int n = if n = 0 then Z0 else if n > 0 then Zpos (pos_of_int n) else Zneg (pos_of_int (-n))
let rec int_of_pos = function XH -> 1 | XO p -> 2 * int_of_pos p | XI p -> 2 * int_of_pos p + 1
let int_of_z = function Z0 -> 0 | Zpos p -> int_of_pos p | Zneg p -> - (int_of_pos p)
let rec int_of_nat = function O -> 0 | S n -> 1 + int_of_nat n
let rec nat_of_int n = if n <= 0 then O else S (nat_of_int (n - 1))
let char_of_ascii (Ascii (b0,b1,b2,b3,b4,b5,b6,b7)) =
  let b x k = if x then 1 lsl k else 0 in Char.chr (b b0 0 + b b1 1 + b b2 2 + b b3 3 + b b4 4 + b b5 5 + b b6 6 + b b7 7)
let rec ocaml_string = function EmptyString -> "" | String (a, r) -> String.make 1 (char_of_ascii a) ^ ocaml_string r

exception Short
let toks = ref []
let next () = match !toks with x :: r -> toks := r; x | [] -> raise Short
let nexti () = int_of_string (next ())
let z () = z_of_int (nexti ())
let rec rep n f = if n <= 0 then [] else let x = f () in x :: rep (n-1) f
let orient_of_int = function 0->ON|1->OS|2->OW|3->OE|4->OFN|5->OFS|6->OFW|7->OFE|8->OINVALID|_->OUNKNOWN
let pol_of_int = function 0->PANY|1->PSAME|2->POPPOSITE|3->PNW|_->PSE
let row () = let a = z () in let b = z () in let c = z () in let d = z () in let o = orient_of_int (nexti ()) in
  {rr={minX=a;maxX=b;minY=c;maxY=d}; ro=o}
let res r = ocaml_string (res_code r)
let ints l = String.concat " " (List.map (fun v -> string_of_int (int_of_z v)) l)

let do_ab () =
  let nr = nexti () in let rows = rep nr row in
  let nc = nexti () in
  let cells = rep nc (fun () -> let w = z () in let h = z () in let p = pol_of_int (nexti ()) in let tx = z () in let ty = z () in
                                let o = orient_of_int (nexti ()) in {cw=w; ch=h; cpol=p; ctx=tx; cty=ty; cor=o}) in
  let st = ab_final rows cells in
  let np = nexti () in
  let perts = rep np (fun () -> let k = nexti () in let i = nexti () in let j = nexti () in let v = z () in (k, i, j, v)) in
  let rtc = st.ab_rtc in
  let out = [res (abacus_check st); ints st.ab_base.lg_x;
             string_of_int (List.length rtc) ^ String.concat "" (List.map (fun rc -> " " ^ string_of_int (List.length rc) ^
               String.concat "" (List.map (fun c -> " " ^ string_of_int (int_of_nat c)) rc)) rtc)]
            @ List.map (fun (k, i, j, v) -> res (abacus_check (ab_perturb st (nat_of_int k) (nat_of_int i) (nat_of_int j) v))) perts in
  print_endline (String.concat " ; " out)

let dummy_cell fixed = {c_x=Z0; c_y=Z0; c_w=Z0; c_h=Z0; c_o=ON; c_pol=PANY; c_fixed=fixed; c_obs=false}
let do_ex () =
  let nc = nexti () in let cs = rep nc (fun () -> dummy_cell (nexti () <> 0)) in let n = nexti () in
  print_endline (res (export_chk cs O (nat_of_int n)))

let arr f = let n = nexti () in rep n f
let incr () =
  let pos = arr z in
  let nets = arr (fun () -> arr (fun () -> let c = nexti () in let o = z () in (nat_of_int c, o))) in
  let mm = arr (fun () -> let a = z () in let b = z () in (a, b)) in
  let v = z () in incr_make pos nets mm v
let do_dp () =
  let rows = arr (fun () -> let a = z () in let b = z () in let y = z () in let o = orient_of_int (nexti ()) in crow_make a b y o) in
  let first = arr z in let last = arr z in let width = arr z in let pred = arr z in let nxt = arr z in let rw = arr z in
  let x = arr z in let y = arr z in let ori = arr (fun () -> orient_of_int (nexti ())) in let pol = arr (fun () -> pol_of_int (nexti ())) in
  let cs = cstate_make rows first last width pred nxt rw x y ori pol in
  let nindex = nexti () in
  let xm = incr () in let ym = incr () in
  print_endline (res (cplacer_check cs (nat_of_int nindex) xm ym))

let () =
  try while true do
    let line = input_line stdin in
    toks := List.filter (fun s -> s <> "") (String.split_on_char ' ' line);
    (match !toks with
     | [] -> print_endline ""
     | tag :: r ->
       toks := r;
       (try (match tag with "AB" -> do_ab () | "EX" -> do_ex () | "DP" -> do_dp () | _ -> print_endline "?TAG")
        with Short -> print_endline "?SHORT" | Failure _ -> print_endline "?PARSE"))
  done with End_of_file -> ()
