(* OR <rows> <cells> wn wd yn yd hn hd effort : the closed legalizer model (coq/CellOrder.v).
   prints "<n> <cell_order...> | <OK (x y o)* | NOROW | NOTALL> | legalb orient_okb"
   (the two flags: proved checkers on the model's own result, "- -" when there is none) *)
open Model_order
let rec pos_of_int n = if n = 1 then XH else if n land 1 = 0 then XO (pos_of_int (n lsr 1)) else XI (pos_of_int (n lsr 1))
let z_of_int n = if n = 0 then Z0 else if n > 0 then Zpos (pos_of_int n) else Zneg (pos_of_int (-n))
let rec int_of_pos = function XH -> 1 | XO p -> 2 * int_of_pos p | XI p -> 2 * int_of_pos p + 1
let int_of_z = function Z0 -> 0 | Zpos p -> int_of_pos p | Zneg p -> - (int_of_pos p)
let rec int_of_nat = function O -> 0 | S n -> 1 + int_of_nat n
let zi z = string_of_int (int_of_z z)
let b2i b = if b then 1 else 0

exception Short
let toks = ref []
let next () = match !toks with x :: r -> toks := r; x | [] -> raise Short
let nexti () = int_of_string (next ())
let z () = z_of_int (nexti ())
let rec rep n f = if n <= 0 then [] else let x = f () in x :: rep (n-1) f

let orient_of_int = function 0->ON|1->OS|2->OW|3->OE|4->OFN|5->OFS|6->OFW|7->OFE|8->OINVALID|_->OUNKNOWN
let int_of_orient = function ON->0|OS->1|OW->2|OE->3|OFN->4|OFS->5|OFW->6|OFE->7|OINVALID->8|OUNKNOWN->9
let pol_of_int = function 0->PANY|1->PSAME|2->POPPOSITE|3->PNW|_->PSE
let rect () = let a = z () in let b = z () in let c = z () in let d = z () in {minX=a;maxX=b;minY=c;maxY=d}
let row () = let r = rect () in let o = orient_of_int (nexti ()) in {rr=r; ro=o}
let read_pcircuit () =
  let nr = nexti () in let rows = rep nr row in
  let nc = nexti () in
  let cells = rep nc (fun () -> let x = z () in let y = z () in let w = z () in let h = z () in
     let o = orient_of_int (nexti ()) in let p = pol_of_int (nexti ()) in let fx = nexti () <> 0 in let ob = nexti () <> 0 in
     {c_x=x; c_y=y; c_w=w; c_h=h; c_o=o; c_pol=p; c_fixed=fx; c_obs=ob}) in
  {rows=rows; cells=cells}
let show_pl c = String.concat "" (List.map (fun k -> Printf.sprintf " %s %s %d" (zi k.c_x) (zi k.c_y) (int_of_orient k.c_o)) c.cells)
(* n/d with d > 0 as the Coq rational Qmake n d (not reduced: the model compares by cross-multiplication) *)
let q () = let n = nexti () in let d = nexti () in if d <= 0 then raise Short else {qnum = z_of_int n; qden = pos_of_int d}

let do_or () =
  let c = read_pcircuit () in
  let w = q () in let y = q () in let h = q () in
  let p = {op_w = w; op_y = y; op_h = h} in
  let ord = List.map int_of_nat (cell_order p c) in
  let os = String.concat "" (List.map (fun i -> " " ^ string_of_int i) ord) in
  match legalize_real p c with
  | LegOk c' -> Printf.printf "%d%s | OK%s | %d %d\n" (List.length ord) os (show_pl c') (b2i (legalb c')) (b2i (orient_okb c c'))
  | LegNoRow -> Printf.printf "%d%s | NOROW | - -\n" (List.length ord) os
  | LegNotAllPlaced -> Printf.printf "%d%s | NOTALL | - -\n" (List.length ord) os

let () =
  try while true do
    let line = input_line stdin in
    toks := List.filter (fun s -> s <> "") (String.split_on_char ' ' line);
    (match !toks with
     | [] -> print_endline ""
     | tag :: r ->
       toks := r;
       (try (match tag with "OR" -> do_or () | _ -> print_endline "?TAG") with Short -> print_endline "?SHORT"))
  done with End_of_file -> ()
