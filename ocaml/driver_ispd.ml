(* C20 driver: reads the case lines of harness/ispd.cpp, prints one result line per case
   EX id <circuit> ->
     <aux>|<nodes>|<pl>|<nets>|<scl> # <hpwl> @@ <read> @@ <wf> @@ <files of the model of the UNCHANGED tree>
   where the files are the printed text of Ispd.export_ispd "c<id>" (escaped as in the harness), <read> is
   Ispd.read_ispd of those files in the format of tools/ispd_pyread.py ("R <circuit>" | "ERR"), <wf> = Ispd.wfb *)
open Model_ispd
let rec pos_of_int n = if n = 1 then XH else if n land 1 = 0 then XO (pos_of_int (n lsr 1)) else XI (pos_of_int (n lsr 1))
let z_of_int n = if n = 0 then Z0 else if n > 0 then Zpos (pos_of_int n) else Zneg (pos_of_int (-n))
let rec int_of_pos = function XH -> 1 | XO p -> 2 * int_of_pos p | XI p -> 2 * int_of_pos p + 1
let int_of_z = function Z0 -> 0 | Zpos p -> int_of_pos p | Zneg p -> - (int_of_pos p)
let rec nat_of_int n = if n <= 0 then O else S (nat_of_int (n-1))
let rec int_of_nat = function O -> 0 | S n -> 1 + int_of_nat n

exception Short
let toks = ref []
let next () = match !toks with x :: r -> toks := r; x | [] -> raise Short
let nexti () = int_of_string (next ())
let z () = z_of_int (nexti ())
let rec rep n f = if n <= 0 then [] else let x = f () in x :: rep (n-1) f

let orient_of_int = function 0->ON|1->OS|2->OW|3->OE|4->OFN|5->OFS|6->OFW|7->OFE|8->OINVALID|_->OUNKNOWN
let int_of_orient = function ON->0|OS->1|OW->2|OE->3|OFN->4|OFS->5|OFW->6|OFE->7|OINVALID->8|OUNKNOWN->9
let pol_of_int = function 0->PANY|1->PSAME|2->POPPOSITE|3->PNW|_->PSE
let int_of_pol = function PANY->0|PSAME->1|POPPOSITE->2|PNW->3|PSE->4

(* Coq strings <-> OCaml strings *)
let char_of_ascii (Ascii (b0,b1,b2,b3,b4,b5,b6,b7)) =
  let b x k = if x then 1 lsl k else 0 in
  Char.chr (b b0 0 + b b1 1 + b b2 2 + b b3 3 + b b4 4 + b b5 5 + b b6 6 + b b7 7)
let ascii_of_char c = let n = Char.code c in let t k = (n lsr k) land 1 = 1 in Ascii (t 0, t 1, t 2, t 3, t 4, t 5, t 6, t 7)
let ocaml_of_coq s = let b = Buffer.create 256 in
  let rec go = function EmptyString -> () | String (c, r) -> Buffer.add_char b (char_of_ascii c); go r in go s; Buffer.contents b
let coq_of_ocaml (s : Stdlib.String.t) = let r = ref EmptyString in
  for i = Stdlib.String.length s - 1 downto 0 do r := String (ascii_of_char s.[i], !r) done; !r
let esc s = let b = Buffer.create 256 in
  Stdlib.String.iter (fun ch -> match ch with
    | '\n' -> Buffer.add_string b "\\n" | '\t' -> Buffer.add_string b "\\t" | '\\' -> Buffer.add_string b "\\\\"
    | '|' -> Buffer.add_string b "\\p" | '#' -> Buffer.add_string b "\\h"
    | c when Char.code c < 32 || Char.code c > 126 -> Buffer.add_string b (Printf.sprintf "\\x%02x" (Char.code c))
    | c -> Buffer.add_char b c) s; Buffer.contents b

let read_circuit () =
  let nc = nexti () in
  let cells = rep nc (fun () -> let w = z () in let h = z () in let fx = nexti () <> 0 in let ob = nexti () <> 0 in
                       let pol = pol_of_int (nexti ()) in let x = z () in let y = z () in let o = orient_of_int (nexti ()) in
                       { cw = w; ch = h; cfixed = fx; cobs = ob; cpol = pol; cx = x; cy = y; co = o }) in
  let nn = nexti () in
  let nets = rep nn (fun () -> let np = nexti () in
                      rep np (fun () -> let c = nat_of_int (nexti ()) in let x = z () in let y = z () in { pcell = c; ppx = x; ppy = y })) in
  (* Circuit::addNet ignores an empty net *)
  let nets = List.filter (fun n -> n <> []) nets in
  let nr = nexti () in
  let rows = rep nr (fun () -> let a = z () in let b = z () in let c = z () in let d = z () in let o = orient_of_int (nexti ()) in
                      { rminx = a; rmaxx = b; rminy = c; rmaxy = d; rorient = o }) in
  { cells = cells; nets = nets; rows = rows }

let zi x = string_of_int (int_of_z x)
let show_circuit c =
  let b = Buffer.create 256 in
  let add s = Buffer.add_char b ' '; Buffer.add_string b s in
  Buffer.add_string b (string_of_int (List.length c.cells));
  List.iter (fun x -> add (zi x.cw); add (zi x.ch); add (if x.cfixed then "1" else "0"); add (if x.cobs then "1" else "0");
                      add (string_of_int (int_of_pol x.cpol)); add (zi x.cx); add (zi x.cy); add (string_of_int (int_of_orient x.co))) c.cells;
  add (string_of_int (List.length c.nets));
  List.iter (fun n -> add (string_of_int (List.length n));
                      List.iter (fun p -> add (string_of_int (int_of_nat p.pcell)); add (zi p.ppx); add (zi p.ppy)) n) c.nets;
  add (string_of_int (List.length c.rows));
  List.iter (fun r -> add (zi r.rminx); add (zi r.rmaxx); add (zi r.rminy); add (zi r.rmaxy); add (string_of_int (int_of_orient r.rorient))) c.rows;
  Buffer.contents b

let show_files fs name =
  Stdlib.String.concat "|" (List.map (fun ext ->
    match fs_get fs name (coq_of_ocaml ext) with Some f -> esc (ocaml_of_coq (print_file f)) | None -> "<missing file>")
    ["aux"; "nodes"; "pl"; "nets"; "scl"])

let do_ex () =
  let id = next () in
  let c = read_circuit () in
  let name = coq_of_ocaml ("c" ^ id) in
  let fs = export_ispd_v true true name c in
  let rd = match read_ispd fs name with Some r -> "R " ^ show_circuit r | None -> "ERR" in
  Printf.printf "%s # %s @@ %s @@ %d @@ %s\n" (show_files fs name) (zi (circuit_hpwl c)) rd (if wfb c then 1 else 0)
    (show_files (export_ispd_v false false name c) name)

let do_hw () = let c = read_circuit () in print_endline (zi (circuit_hpwl c))

let () =
  try while true do
    let line = input_line stdin in
    toks := List.filter (fun s -> s <> "") (Stdlib.String.split_on_char ' ' line);
    (try match next () with
       | "EX" -> do_ex ()
       | "HW" -> do_hw ()
       | t -> print_endline ("unknown tag " ^ t)
     with Short -> print_endline "short case line" | Stack_overflow -> print_endline "stack overflow" | Failure m -> print_endline ("failure " ^ m))
  done with End_of_file -> ()
