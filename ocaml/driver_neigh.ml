(* RN k n (minX maxX minY maxY)*n : the RowNeighbourhood model (coq/RowNeigh.v, neighbourhood rows k).
   prints per row "b i ..|a i ..|l i ..|r i ..;" (the four lists of harness/rowneigh.cpp, without its verdict) *)
open Model_neigh
let rec pos_of_int n = if n = 1 then XH else if n land 1 = 0 then XO (pos_of_int (n lsr 1)) else XI (pos_of_int (n lsr 1))
let z_of_int n = if n = 0 then Z0 else if n > 0 then Zpos (pos_of_int n) else Zneg (pos_of_int (-n))
let rec int_of_nat = function O -> 0 | S n -> 1 + int_of_nat n

exception Short
let toks = ref []
let next () = match !toks with x :: r -> toks := r; x | [] -> raise Short
let nexti () = int_of_string (next ())
let z () = z_of_int (nexti ())
let rec rep n f = if n <= 0 then [] else let x = f () in x :: rep (n-1) f
let rect () = let a = z () in let b = z () in let c = z () in let d = z () in {minX=a;maxX=b;minY=c;maxY=d}

let show tag l = tag ^ String.concat "" (List.map (fun i -> " " ^ string_of_int (int_of_nat i)) l)
let do_rn () =
  let k = z () in let n = nexti () in let rows = rep n rect in
  let res = neighbourhood rows k in
  print_endline (String.concat "" (List.map (fun (((b, a), l), r) ->
    show "b" b ^ "|" ^ show "a" a ^ "|" ^ show "l" l ^ "|" ^ show "r" r ^ ";") res))

let () =
  try while true do
    let line = input_line stdin in
    toks := List.filter (fun s -> s <> "") (String.split_on_char ' ' line);
    (match !toks with
     | [] -> print_endline ""
     | tag :: r ->
       toks := r;
       (try (match tag with "RN" -> do_rn () | _ -> print_endline "?TAG") with Short -> print_endline "?SHORT"))
  done with End_of_file -> ()
