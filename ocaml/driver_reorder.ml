(* PR <rows> <cells (legalized)> <nets: nn (d (c xo yo)*d)*> nops <raw ops of the DO line> :
   the paired model of DetailedValue.v + the CLOSED reordering pass of Reorder.v driven like harness/dopt.cpp drives
   DetailedPlacer: ops 0 / 1 / 2 (bestSwap, bestInsert, bestSwapUpdate) through DetailedValue.pbest as in driver_value.ml,
   op 8 (runReorderingOnCells: the window = the distinct optimised cells the raw ints name, first occurrences, in order)
   through Reorder.run.  Prints "INIT value ;placement", then per op " / B found ; value ;placement", " / SKIP",
   " / P xvalue yvalue nleaves nregions ; value ;placement" (op 8; " / P THROW" when Reorder.run = None), and " / STOP" at
   the first op of another kind.  "ERR" when from_circuit fails. *)
open Model_reorder
let rec pos_of_int n = if n = 1 then XH else if n land 1 = 0 then XO (pos_of_int (n lsr 1)) else XI (pos_of_int (n lsr 1))
let z_of_int n = if n = 0 then Z0 else if n > 0 then Zpos (pos_of_int n) else Zneg (pos_of_int (-n))
let rec int_of_pos = function XH -> 1 | XO p -> 2 * int_of_pos p | XI p -> 2 * int_of_pos p + 1
let int_of_z = function Z0 -> 0 | Zpos p -> int_of_pos p | Zneg p -> - (int_of_pos p)
let rec nat_of_int n = if n <= 0 then O else S (nat_of_int (n-1))
let rec int_of_nat = function O -> 0 | S n -> 1 + int_of_nat n
let zi z = string_of_int (int_of_z z)

exception Short
let toks = ref []
let next () = match !toks with x :: r -> toks := r; x | [] -> raise Short
let nexti () = int_of_string (next ())
let z () = z_of_int (nexti ())
let rec rep n f = if n <= 0 then [] else let x = f () in x :: rep (n-1) f

let orient_of_int = function 0->ON|1->OS|2->OW|3->OE|4->OFN|5->OFS|6->OFW|7->OFE|8->OINVALID|_->OUNKNOWN
let int_of_orient = function ON->0|OS->1|OW->2|OE->3|OFN->4|OFS->5|OFW->6|OFE->7|OINVALID->8|OUNKNOWN->9
let pol_of_int = function 0->PANY|1->PSAME|2->POPPOSITE|3->PNW|_->PSE
let rect () = let a = z () in let b = z () in let c = z () in let d = z () in {minX=a;maxX=b;minY=c;maxY=d}
let row () = let r = rect () in let o = orient_of_int (nexti ()) in {rr=r; ro=o}
let read_pcircuit () =
  let nr = nexti () in let rows = rep nr row in
  let nc = nexti () in
  let cells = rep nc (fun () -> let x = z () in let y = z () in let w = z () in let h = z () in
     let o = orient_of_int (nexti ()) in let p = pol_of_int (nexti ()) in let fx = nexti () <> 0 in let ob = nexti () <> 0 in
     {c_x=x; c_y=y; c_w=w; c_h=h; c_o=o; c_pol=p; c_fixed=fx; c_obs=ob}) in
  {rows=rows; cells=cells}
let read_nets () =
  let nn = nexti () in
  rep nn (fun () -> let d = nexti () in rep d (fun () -> let c = nexti () in let xo = z () in let yo = z () in {pc = nat_of_int c; pxo = xo; pyo = yo}))
let show_pl c = String.concat "" (List.map (fun k -> Printf.sprintf " %s %s %d" (zi k.c_x) (zi k.c_y) (int_of_orient k.c_o)) c.cells)

let row_ids d = List.map (fun r -> List.map (fun p -> int_of_nat p.p_id) r.dr_cells) d.d_rows
let row_of d c = let rec go i = function [] -> -1 | l :: t -> if List.mem c l then i else go (i+1) t in go 0 (row_ids d)
let next_of d c = let rec f = function a :: (b :: _ as t) -> if a = c then b else f t | _ -> -1 in
  let rec go = function [] -> -1 | l :: t -> if List.mem c l then f l else go t in go (row_ids d)
let pred_of d c = let rec f prev = function a :: t -> if a = c then prev else f a t | [] -> -1 in
  let rec go = function [] -> -1 | l :: t -> if List.mem c l then f (-1) l else go t in go (row_ids d)

let do_pv () =
  let c = read_pcircuit () in
  let nets = read_nets () in
  let nops = nexti () in
  match from_circuit c with
  | DErr _ -> print_endline "ERR"
  | DOk d0 ->
    let st = ref {ps_d = d0; ps_o = init_models c nets} in
    let opt = Array.of_list (List.sort compare (List.concat (row_ids d0))) in
    let cell_of v = if Array.length opt = 0 then -1 else opt.(v mod Array.length opt) in
    let b = Buffer.create 256 in
    let show () = Printf.sprintf "%s ;%s" (zi (ovalue !st.ps_o)) (show_pl (write_back c !st.ps_d)) in
    Buffer.add_string b ("INIT " ^ show ());
    let best cands =
      let found = (match snd (pscan !st.ps_d !st.ps_o cands) with Some _ -> 1 | None -> 0) in
      st := pbest !st cands;
      Buffer.add_string b (Printf.sprintf " / B %d ; %s" found (show ())) in
    (try
      for _ = 1 to nops do
        let d = !st.ps_d in
        match nexti () with
        | 0 -> let cc = cell_of (nexti ()) in let kk = nexti () in let cands = rep kk (fun () -> cell_of (nexti ())) in
               if cc < 0 then Buffer.add_string b " / SKIP"
               else best (List.map (fun x -> MSwap (nat_of_int cc, nat_of_int x)) cands)
        | 1 -> let cc = cell_of (nexti ()) in let nr = List.length d.d_rows in let rw = (nexti ()) mod (max 1 nr) in let kk = nexti () in
               let cands = rep kk (fun () -> let v = nexti () in let x = if v < 0 then -1 else cell_of v in if x <> -1 && row_of d x <> rw then -1 else x) in
               if cc < 0 || nr = 0 then Buffer.add_string b " / SKIP"
               else best (List.map (fun x -> MInsert (nat_of_int cc, nat_of_int rw, (if x < 0 then None else Some (nat_of_int x)))) cands)
        | 2 -> let cc = cell_of (nexti ()) in let from = cell_of (nexti ()) in let nb = nexti () in
               if cc < 0 then Buffer.add_string b " / SKIP"
               else begin
                 let rec walk f x cnt = if x = -1 || cnt >= nb then [] else x :: walk f (f d x) (cnt + 1) in
                 let cands = walk next_of from 0 @ walk pred_of from 0 in
                 best (List.map (fun x -> MSwap (nat_of_int cc, nat_of_int x)) cands)
               end
        | 8 -> let kk = nexti () in
               let raw = rep kk (fun () -> cell_of (nexti ())) in
               let cells = List.rev (List.fold_left (fun acc x -> if x >= 0 && not (List.mem x acc) then x :: acc else acc) [] raw) in
               let cs = List.map nat_of_int cells in
               let nreg = (match regions_of d cs cs with Some r -> List.length r | None -> -1) in
               (match run !st cs with
                | Some (s', n) ->
                    st := s';
                    Buffer.add_string b (Printf.sprintf " / P %s %s %d %d ; %s" (zi s'.ps_o.ox.ivalue) (zi s'.ps_o.oy.ivalue) (int_of_nat n) nreg (show ()))
                | None -> Buffer.add_string b " / P THROW"; raise Exit)
        | _ -> Buffer.add_string b " / STOP"; raise Exit
      done
    with Exit -> ());
    print_endline (Buffer.contents b)

(* PS <rows> <cells (legalized)> : the row structure from_circuit builds: "n ; ids of row 0 ; ids of row 1 ; ..." (n = number of
   optimised cells; the generator of checks/c05_reorder.py picks its windows from it) *)
let do_ps () =
  let c = read_pcircuit () in
  match from_circuit c with
  | DErr _ -> print_endline "ERR"
  | DOk d0 ->
    let rows = row_ids d0 in
    print_endline (string_of_int (List.length (List.concat rows)) ^
                   String.concat "" (List.map (fun l -> " ;" ^ String.concat "" (List.map (fun x -> " " ^ string_of_int x) l)) rows))

let () =
  try while true do
    let line = input_line stdin in
    toks := List.filter (fun s -> s <> "") (String.split_on_char ' ' line);
    (match !toks with
     | [] -> print_endline ""
     | tag :: r ->
       toks := r;
       (try (match tag with "PR" -> do_pv () | "PS" -> do_ps () | _ -> print_endline "?TAG") with Short -> print_endline "?SHORT"))
  done with End_of_file -> ()
