(* RN <rows> <cells (legalized)> <nets: nn (d (c xo yo)*d)*> nops (op a b)* :
     the closed passes of DetailedRun.v driven like harness/drun.cpp drives DetailedPlacer: op 3 a b = run_swaps a b
     (runSwaps(nbRows = a, nbNeighbours = b)), op 6 a b = run_reordering a b.  Prints
     "INIT xvalue yvalue ;placement ;rows" and per op " / P xvalue yvalue ;placement ;rows" (" / ERR name" when the model returns RErr).
   RW <rows> <cells (legalized)> <nets> nbPasses lsNbNeighbours lsNbRows shiftNbRows shiftMaxNbCells reordNbRows reordMaxNbCells :
     run_passes with an empty shift oracle: "INIT ... / CB xvalue yvalue ;placement ;rows / ... / FINAL xvalue yvalue ;placement ;rows".
   placement = x y orientation of every cell of write_back; rows = "nrows (ncells id*)*" (row_ids of every row). *)
open Model_run
let rec pos_of_int n = if n = 1 then XH else if n land 1 = 0 then XO (pos_of_int (n lsr 1)) else XI (pos_of_int (n lsr 1))
let z_of_int n = if n = 0 then Z0 else if n > 0 then Zpos (pos_of_int n) else Zneg (pos_of_int (-n))
let rec int_of_pos = function XH -> 1 | XO p -> 2 * int_of_pos p | XI p -> 2 * int_of_pos p + 1
let int_of_z = function Z0 -> 0 | Zpos p -> int_of_pos p | Zneg p -> - (int_of_pos p)
let rec nat_of_int n = if n <= 0 then O else S (nat_of_int (n-1))
let rec int_of_nat = function O -> 0 | S n -> 1 + int_of_nat n
let zi z = string_of_int (int_of_z z)

exception Short
let toks = ref []
let next () = match !toks with x :: r -> toks := r; x | [] -> raise Short
let nexti () = int_of_string (next ())
let z () = z_of_int (nexti ())
let rec rep n f = if n <= 0 then [] else let x = f () in x :: rep (n-1) f

let orient_of_int = function 0->ON|1->OS|2->OW|3->OE|4->OFN|5->OFS|6->OFW|7->OFE|8->OINVALID|_->OUNKNOWN
let int_of_orient = function ON->0|OS->1|OW->2|OE->3|OFN->4|OFS->5|OFW->6|OFE->7|OINVALID->8|OUNKNOWN->9
let pol_of_int = function 0->PANY|1->PSAME|2->POPPOSITE|3->PNW|_->PSE
let rect () = let a = z () in let b = z () in let c = z () in let d = z () in {minX=a;maxX=b;minY=c;maxY=d}
let row () = let r = rect () in let o = orient_of_int (nexti ()) in {rr=r; ro=o}
let read_pcircuit () =
  let nr = nexti () in let rows = rep nr row in
  let nc = nexti () in
  let cells = rep nc (fun () -> let x = z () in let y = z () in let w = z () in let h = z () in
     let o = orient_of_int (nexti ()) in let p = pol_of_int (nexti ()) in let fx = nexti () <> 0 in let ob = nexti () <> 0 in
     {c_x=x; c_y=y; c_w=w; c_h=h; c_o=o; c_pol=p; c_fixed=fx; c_obs=ob}) in
  {rows=rows; cells=cells}
let read_nets () =
  let nn = nexti () in
  rep nn (fun () -> let d = nexti () in rep d (fun () -> let c = nexti () in let xo = z () in let yo = z () in {pc = nat_of_int c; pxo = xo; pyo = yo}))
let show_pl c = String.concat "" (List.map (fun k -> Printf.sprintf " %s %s %d" (zi k.c_x) (zi k.c_y) (int_of_orient k.c_o)) c.cells)
let show_rows d =
  let n = List.length d.d_rows in
  string_of_int n ^ String.concat "" (List.mapi (fun i _ ->
    let ids = row_ids d (nat_of_int i) in
    " " ^ string_of_int (List.length ids) ^ String.concat "" (List.map (fun x -> " " ^ string_of_int (int_of_nat x)) ids)) d.d_rows)
let show c s = Printf.sprintf "%s %s ;%s ; %s" (zi s.ps_o.ox.ivalue) (zi s.ps_o.oy.ivalue) (show_pl (write_back c s.ps_d)) (show_rows s.ps_d)
let err_name = function EWhileFuel -> "EWhileFuel" | EWalkFuel -> "EWalkFuel" | EUnplaced -> "EUnplaced" | EThrow -> "EThrow"
  | EUndefined -> "EUndefined" | EConstruct -> "EConstruct" | EOracle -> "EOracle" | ERecord -> "ERecord"

let do_rn () =
  let c = read_pcircuit () in
  let nets = read_nets () in
  let nops = nexti () in
  match from_circuit c with
  | DErr _ -> print_endline "ERR"
  | DOk d0 ->
    let st = ref {ps_d = d0; ps_o = init_models c nets} in
    let b = Buffer.create 256 in
    Buffer.add_string b ("INIT " ^ show c !st);
    (try
      for _ = 1 to nops do
        let ty = nexti () in let a1 = z () in let a2 = z () in
        let r = (match ty with 3 -> run_swaps !st a1 a2 | 6 -> run_reordering !st a1 a2 | _ -> RErr EUndefined) in
        match r with
        | ROk s' -> st := s'; Buffer.add_string b (" / P " ^ show c s')
        | RErr e -> Buffer.add_string b (" / ERR " ^ err_name e); raise Exit
      done
    with Exit -> ());
    print_endline (Buffer.contents b)

let do_rw () =
  let c = read_pcircuit () in
  let nets = read_nets () in
  let a = z () in let b_ = z () in let c_ = z () in let d_ = z () in let e_ = z () in let f_ = z () in let g_ = z () in
  let prm = {dp_nbPasses = a; dp_localSearchNbNeighbours = b_; dp_localSearchNbRows = c_; dp_shiftNbRows = d_;
             dp_shiftMaxNbCells = e_; dp_reorderingNbRows = f_; dp_reorderingMaxNbCells = g_} in
  match from_circuit c with
  | DErr _ -> print_endline "ERR"
  | DOk d0 ->
    let s0 = {ps_d = d0; ps_o = init_models c nets} in
    let b = Buffer.create 256 in
    Buffer.add_string b ("INIT " ^ show c s0);
    if not (params_ok prm) then Buffer.add_string b " / BADPARAMS"
    else (match run_passes prm [] s0 with
      | ROk (s, ex) ->
          List.iter (fun st -> Buffer.add_string b (" / CB " ^ show c st)) ex;
          Buffer.add_string b (" / FINAL " ^ show c s)
      | RErr e -> Buffer.add_string b (" / ERR " ^ err_name e));
    print_endline (Buffer.contents b)

(* RS <rows> <cells (legalized)> <nets> p1..p7 nrec (k cell*k nnodes (kind id potential)*nnodes narcs (src tgt cost flow)*narcs)*nrec :
   run_passes_c with the recorded answers of the runShiftsOnCells calls of the C++ run (harness/drun.cpp, DS cases): the model makes
   its OWN calls (rows sets, windows), checks each record against its call (cells, network) and accepts lemon's answer only through
   ShiftLp.shift_cert_ok.  "INIT ... / CB ... / FINAL ... / REST n" (n = records not consumed), or "... / ERR name". *)
let node_of kd id = match kd with 0 -> NCell (nat_of_int id) | 1 -> NL (nat_of_int id) | 2 -> NU (nat_of_int id) | _ -> NFixed
let read_answer () =
  let k = nexti () in let cells = rep k (fun () -> nat_of_int (nexti ())) in
  let nn = nexti () in
  let nodes = Array.of_list (rep nn (fun () -> let kd = nexti () in let id = nexti () in let pt = nexti () in (node_of kd id, pt))) in
  let pot = Hashtbl.create 64 in
  Array.iter (fun (n, pt) -> Hashtbl.replace pot n (z_of_int pt)) nodes;
  let pi n = match Hashtbl.find_opt pot n with Some v -> v | None -> Z0 in
  let na = nexti () in
  let flows = rep na (fun () -> let s = nexti () in let t = nexti () in let c = z () in let f = z () in
    let lab i = if i >= 0 && i < Array.length nodes then fst nodes.(i) else NFixed in (((lab s, lab t), c), f)) in
  {sa_cells = cells; sa_pi = pi; sa_flows = flows}

let do_rs () =
  let c = read_pcircuit () in
  let nets = read_nets () in
  let a = z () in let b_ = z () in let c_ = z () in let d_ = z () in let e_ = z () in let f_ = z () in let g_ = z () in
  let prm = {dp_nbPasses = a; dp_localSearchNbNeighbours = b_; dp_localSearchNbRows = c_; dp_shiftNbRows = d_;
             dp_shiftMaxNbCells = e_; dp_reorderingNbRows = f_; dp_reorderingMaxNbCells = g_} in
  let nrec = nexti () in
  let answers = rep nrec read_answer in
  match from_circuit c with
  | DErr _ -> print_endline "ERR"
  | DOk d0 ->
    let s0 = {ps_d = d0; ps_o = init_models c nets} in
    let b = Buffer.create 256 in
    Buffer.add_string b ("INIT " ^ show c s0);
    if not (params_ok prm) then Buffer.add_string b " / BADPARAMS"
    else (match run_passes_c prm answers s0 with
      | ROk ((s, ex), rest) ->
          List.iter (fun st -> Buffer.add_string b (" / CB " ^ show c st)) ex;
          Buffer.add_string b (" / FINAL " ^ show c s);
          Buffer.add_string b (Printf.sprintf " / REST %d" (List.length rest))
      | RErr e -> Buffer.add_string b (" / ERR " ^ err_name e));
    print_endline (Buffer.contents b)

let () =
  try while true do
    let line = input_line stdin in
    toks := List.filter (fun s -> s <> "") (String.split_on_char ' ' line);
    (match !toks with
     | [] -> print_endline ""
     | tag :: r ->
       toks := r;
       (try (match tag with "RN" -> do_rn () | "RW" -> do_rw () | "RS" -> do_rs () | _ -> print_endline "?TAG") with Short -> print_endline "?SHORT"))
  done with End_of_file -> ()
