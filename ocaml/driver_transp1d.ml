(* C14 driver.
   "T1 bal n m u.. v.. s.. d.."  -> "D d.. | S i j a;... | A a.. | C c"  in the format of harness/transp1d.cpp; c = 1 when the model's own
                                    plan passes the proved certificate checker (solve_checked), 0 when not, - when n*m > 600 (not evaluated)
   "T1U ..."                     -> the same with the model of the UNCHANGED convertAssignmentBack (finding F11)
   "CP n m u.. v.. s.. d.. k (i j a)*k" -> "1 cost" / "0 cost": proved checker check_plan on an externally supplied plan (the C++ plan) *)
open Model_transp1d
let rec pos_of_int n = if n = 1 then XH else if n land 1 = 0 then XO (pos_of_int (n lsr 1)) else XI (pos_of_int (n lsr 1))
let z_of_int n = if n = 0 then Z0 else if n > 0 then Zpos (pos_of_int n) else Zneg (pos_of_int (-n))
let rec int_of_pos = function XH -> 1 | XO p -> 2 * int_of_pos p | XI p -> 2 * int_of_pos p + 1
let int_of_z = function Z0 -> 0 | Zpos p -> int_of_pos p | Zneg p -> - (int_of_pos p)
let rec int_of_nat = function O -> 0 | S n -> 1 + int_of_nat n
let zs l = String.concat " " (List.map (fun z -> string_of_int (int_of_z z)) l)

exception Short
let toks = ref []
let next () = match !toks with x :: r -> toks := r; x | [] -> raise Short
let nexti () = int_of_string (next ())
let z () = z_of_int (nexti ())
let rec rep n f = if n <= 0 then [] else let x = f () in x :: rep (n-1) f

let err_msg = function
  | EInconsistentSupplies -> "THROW Inconsistant supplies"
  | EInconsistentDemands -> "THROW Inconsistant demands"
  | ENegSupply -> "THROW Supplies must be non-negative"
  | ENegDemand -> "THROW Demands must be non-negative"
  | ESupplyGtDemand -> "THROW The supply should be no larger than the demand"
  | EDivZero -> "FPE"
  | EFuel -> "MODEL-OUT-OF-FUEL"
  | EOOB -> "MODEL-OUT-OF-BOUNDS"

let do_t1 unfixed =
  let bal = nexti () in let n = nexti () in let m = nexti () in
  let u = rep n z in let v = rep m z in let s = rep n z in let d = rep m z in
  let pb = { pb_u = u; pb_v = v; pb_s = s; pb_d = d } in
  match (if bal <> 0 then balance_demand pb else Ok pb) with
  | Err e -> print_endline (err_msg e)
  | Ok pb ->
    let sd = "D" ^ (if pb.pb_d = [] then "" else " " ^ zs pb.pb_d) in
    let ss = (match solve pb with
      | Err e -> err_msg e
      | Ok sol -> "S" ^ (if sol = [] then "" else " ") ^ String.concat ";" (List.map (fun ((i, j), a) -> Printf.sprintf "%d %d %d" (int_of_nat i) (int_of_nat j) (int_of_z a)) sol)) in
    let sa = (match (if unfixed then assign_unfixed pb else assign pb) with
      | Err e -> err_msg e
      | Ok a -> "A" ^ (if a = [] then "" else " ") ^ String.concat " " (List.map (fun x -> string_of_int (int_of_nat x)) a)) in
    let sc = if n * m > 600 then "-" else (match solve pb with Err _ -> "-" | Ok _ -> (match solve_checked pb with Some _ -> "1" | None -> "0")) in
    Printf.printf "%s | %s | %s | C %s\n" sd ss sa sc

let rec nat_of_int n = if n <= 0 then O else S (nat_of_int (n-1))
let do_cp () =
  let n = nexti () in let m = nexti () in
  let u = rep n z in let v = rep m z in let s = rep n z in let d = rep m z in
  let pb = { pb_u = u; pb_v = v; pb_s = s; pb_d = d } in
  let k = nexti () in
  let sol = rep k (fun () -> let i = nat_of_int (nexti ()) in let j = nat_of_int (nexti ()) in let a = z () in ((i, j), a)) in
  Printf.printf "%d %d\n" (if check_plan pb sol then 1 else 0) (int_of_z (plan_cost pb sol))

let () =
  try while true do
    let line = input_line stdin in
    toks := List.filter (fun s -> s <> "") (String.split_on_char ' ' line);
    (match !toks with
     | [] -> print_endline ""
     | tag :: r ->
       toks := r;
       (try
         (match tag with
          | "T1" -> do_t1 false
          | "T1U" -> do_t1 true
          | "CP" -> do_cp ()
          | _ -> print_endline "?TAG")
        with Short -> print_endline "?SHORT"))
  done with End_of_file -> ()
