(* "RC b e n (k w t)*"  k = 0 push, 1 getCost, 2 clear, 3 lastAvailablePos  (w = t = 0 for k >= 2)
   -> "pl | outs"  outs: cost for push/getCost, "C" for clear, "L <v>" / "L none" for lastAvailablePos *)
open Model_gaps2
let rec pos_of_int n = if n = 1 then XH else if n land 1 = 0 then XO (pos_of_int (n lsr 1)) else XI (pos_of_int (n lsr 1))
let z_of_int n = if n = 0 then Z0 else if n > 0 then Zpos (pos_of_int n) else Zneg (pos_of_int (-n))
let rec int_of_pos = function XH -> 1 | XO p -> 2 * int_of_pos p | XI p -> 2 * int_of_pos p + 1
let int_of_z = function Z0 -> 0 | Zpos p -> int_of_pos p | Zneg p -> - (int_of_pos p)
let zs l = String.concat " " (List.map (fun z -> string_of_int (int_of_z z)) l)
exception Short
let toks = ref []
let next () = match !toks with x :: r -> toks := r; x | [] -> raise Short
let nexti () = int_of_string (next ())
let z () = z_of_int (nexti ())
let rec rep n f = if n <= 0 then [] else let x = f () in x :: rep (n-1) f

let do_rc () =
  let b = z () in let e = z () in let n = nexti () in
  let h = rep n (fun () -> let k = nexti () in let w = z () in let t = z () in
            match k with 0 -> COp (Push (w, t)) | 1 -> COp (Query (w, t)) | 2 -> CClear | _ -> CLast) in
  let s0 = rl_init b e in
  let outs = outputsc s0 h in
  let pl = placement (run_statec s0 h) in
  let show = function
    | OCost c -> string_of_int (int_of_z c) | OCleared -> "C"
    | OLast (Some v) -> "L " ^ string_of_int (int_of_z v) | OLast None -> "L none" in
  Printf.printf "%s | %s\n" (zs pl) (String.concat " ; " (List.map show outs))

let () =
  try while true do
    let line = input_line stdin in
    toks := List.filter (fun s -> s <> "") (String.split_on_char ' ' line);
    (match !toks with
     | [] -> print_endline ""
     | tag :: r -> toks := r;
       (try (match tag with "RC" -> do_rc () | _ -> print_endline "?TAG") with Short -> print_endline "?SHORT"))
  done with End_of_file -> ()
