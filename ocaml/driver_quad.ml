(* C17 driver: reads one case per line "ASM ints...", prints one result line per case.
   Case format (all integers; a rational is "num e" = num / 2^e, e >= 0: every float is such a number):
     ASM mode nbCells epsN epsE nNets { nPins wN wE {cell offN offE}*nPins fx [mnN mnE mxN mxE] }*nNets
         npl {plN plE}*npl pen [cutN cutE {tgN tgE stN stE}*nbCells]
   mode: 0 createStar(topo)  1 B2B  2 Star  3 Clique  4 LightStar  5 addBipoint(net) on every net  6 addClique(net) on every net
   Result: "<system of the repaired model> ## <system of the truncating model (std::vector<int> netWeight_)>"
   system = "n | r c num/den;... | num/den;... (rhs) | num/den;... (initial) | num/den;... (stored net weights) | (normalised triplets) | (normalised rhs)"
   numbers are printed in binary ("-b101/b10") because they do not fit native ints. *)
open Model_quad
let rec pos_of_int n = if n = 1 then XH else if n land 1 = 0 then XO (pos_of_int (n lsr 1)) else XI (pos_of_int (n lsr 1))
let z_of_int n = if n = 0 then Z0 else if n > 0 then Zpos (pos_of_int n) else Zneg (pos_of_int (-n))
let rec int_of_pos = function XH -> 1 | XO p -> 2 * int_of_pos p | XI p -> 2 * int_of_pos p + 1
let int_of_z = function Z0 -> 0 | Zpos p -> int_of_pos p | Zneg p -> - (int_of_pos p)
let rec nat_of_int n = if n <= 0 then O else S (nat_of_int (n-1))
let rec int_of_nat = function O -> 0 | S n -> 1 + int_of_nat n

exception Short
let toks = ref []
let next () = match !toks with x :: r -> toks := r; x | [] -> raise Short
let nexti () = int_of_string (next ())
let z () = z_of_int (nexti ())
let rec rep n f = if n <= 0 then [] else let x = f () in x :: rep (n-1) f

let rec pow2 e = if e <= 0 then XH else XO (pow2 (e - 1))
let q () = let n = z () in let e = nexti () in { qnum = n; qden = pow2 e }

let bits_of_pos p =
  let b = Buffer.create 64 in
  let rec go p acc = match p with XH -> '1' :: acc | XO r -> go r ('0' :: acc) | XI r -> go r ('1' :: acc) in
  List.iter (Buffer.add_char b) (go p []); Buffer.contents b
let show_z = function Z0 -> "b0" | Zpos p -> "b" ^ bits_of_pos p | Zneg p -> "-b" ^ bits_of_pos p
let show_q x = let r = qred x in show_z r.qnum ^ "/b" ^ bits_of_pos r.qden
let show_qs l = String.concat ";" (List.map show_q l)

let show_sys (nm : netmodel) (s : sys) =
  let f = finalize s in
  let g = solver_input s in   (* what MatrixCreator::solve hands to Eigen: finalize (normalize s) *)
  let trips m = String.concat ";" (List.map (fun t -> Printf.sprintf "%d %d %s" (int_of_z t.t_row) (int_of_z t.t_col) (show_q t.t_val)) m) in
  Printf.sprintf "%d | %s | %s | %s | %s | %s | %s" (List.length f.s_rhs) (trips f.s_mat)
    (show_qs f.s_rhs) (show_qs f.s_init) (show_qs (List.map (fun n -> n.n_weight) nm.nm_nets)) (trips g.s_mat) (show_qs g.s_rhs)

let do_asm () =
  let mode = nexti () in let nc = nexti () in let eps = q () in let nn = nexti () in
  let nets = rep nn (fun () ->
    let np = nexti () in let w = q () in
    let pins = rep np (fun () -> let c = z () in let o = q () in (c, o)) in
    let fx = nexti () in
    let fixed = if fx = 1 then (let mn = q () in let mx = q () in Some (mn, mx)) else None in
    (((List.map fst pins, List.map snd pins), fixed), w)) in
  let npl = nexti () in let pl = rep npl q in
  let pen = nexti () in
  let penalty = if pen = 1 then (let cut = q () in let ts = rep nc (fun () -> let t = q () in let s = q () in (t, s)) in Some (cut, ts)) else None in
  let run nm =
    let s = match mode with
      | 0 -> create_star0 nm
      | 1 -> create B2B nm pl eps
      | 2 -> create Star nm pl eps
      | 3 -> create Clique nm pl eps
      | 4 -> create LightStar nm pl eps
      | 5 -> create_bipoint0 nm
      | _ -> create_clique0 nm in
    let s = match penalty with
      | Some (cut, ts) -> add_penalty pl (List.map fst ts) (List.map snd ts) cut s
      | None -> s in
    show_sys nm s in
  let n = nat_of_int nc in
  Printf.printf "%s ## %s\n" (run (build_nm n nets)) (run (build_nm_int n nets))

let () =
  try
    while true do
      let line = input_line stdin in
      toks := List.filter (fun s -> s <> "") (String.split_on_char ' ' line);
      (try
        match next () with
        | "ASM" -> do_asm ()
        | t -> Printf.printf "ERR unknown tag %s\n" t
      with Short -> print_endline "ERR short line"
         | Failure m -> Printf.printf "ERR %s\n" m)
    done
  with End_of_file -> ()
