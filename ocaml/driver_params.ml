(* C19 driver: reads the case lines of harness/params.cpp (same format, see its header), runs the
   extracted model of coq/Params.v, prints one result line per case in the harness's format *)
open Model_params
let rec pos_of_int n = if n = 1 then XH else if n land 1 = 0 then XO (pos_of_int (n lsr 1)) else XI (pos_of_int (n lsr 1))
let z_of_int n = if n = 0 then Z0 else if n > 0 then Zpos (pos_of_int n) else Zneg (pos_of_int (-n))
let rec int_of_pos = function XH -> 1 | XO p -> 2 * int_of_pos p | XI p -> 2 * int_of_pos p + 1
let int_of_z = function Z0 -> 0 | Zpos p -> int_of_pos p | Zneg p -> - (int_of_pos p)
let rec nat_of_int n = if n <= 0 then O else S (nat_of_int (n-1))

exception Short
let toks = ref []
let next () = match !toks with x :: r -> toks := r; x | [] -> raise Short
let nexti () = int_of_string (next ())
let z () = z_of_int (nexti ())
let rec rep n f = if n <= 0 then [] else let x = f () in x :: rep (n-1) f
let b () = nexti () <> 0

(* a double "m e" = m * 2^e as an exact rational *)
let rec shl p k = if k <= 0 then p else shl (XO p) (k - 1)
let q_of m e =
  if m = 0 then { qnum = Z0; qden = XH }
  else if e >= 0 then
    { qnum = (if m > 0 then Zpos (shl (pos_of_int m) e) else Zneg (shl (pos_of_int (-m)) e)); qden = XH }
  else { qnum = z_of_int m; qden = shl XH (-e) }
let q () = let m = nexti () in let e = nexti () in q_of m e

(* a dyadic rational back to the normalised "m e" (m odd, or 0 0) *)
let show_q x =
  let rec log2 = function XH -> 0 | XO p -> 1 + log2 p | XI _ -> failwith "denominator is not a power of two" in
  let m = ref (int_of_z x.qnum) and e = ref (- (log2 x.qden)) in
  if !m = 0 then " 0 0" else begin
    while !m land 1 = 0 do m := !m / 2; incr e done;
    Printf.sprintf " %d %d" !m !e end
let show_z x = " " ^ string_of_int (int_of_z x)
let show_b x = if x then " 1" else " 0"

let string_of_coq s =
  let bit b k = if b then 1 lsl k else 0 in
  let buf = Buffer.create 64 in
  let rec go = function
    | EmptyString -> ()
    | String (Ascii (b0,b1,b2,b3,b4,b5,b6,b7), r) ->
      Buffer.add_char buf (Char.chr (bit b0 0 + bit b1 1 + bit b2 2 + bit b3 3 + bit b4 4 + bit b5 5 + bit b6 6 + bit b7 7)); go r in
  go s; Buffer.contents buf
let msg m = string_of_coq (msg_text m)

(* ---------------------------------------------------------------- parameter structs *)
let read_rough () =
  let a = z () in let b1 = z () in let c = q () in let d = z () in let e = z () in let f = z () in let g = z () in
  let h = z () in let i = z () in let j = b () in let k = q () in let l = q () in let m = q () in let n = q () in
  { rl_costModel = a; rl_nbSteps = b1; rl_binSize = c; rl_lineReoptSize = d; rl_lineReoptOverlap = e;
    rl_diagReoptSize = f; rl_diagReoptOverlap = g; rl_squareReoptSize = h; rl_squareReoptOverlap = i;
    rl_unidimensionalTransport = j; rl_quadraticPenalty = k; rl_sideMargin = l; rl_coarseningLimit = m;
    rl_targetBlending = n }
let show_rough p =
  show_z p.rl_costModel ^ show_z p.rl_nbSteps ^ show_q p.rl_binSize ^ show_z p.rl_lineReoptSize ^
  show_z p.rl_lineReoptOverlap ^ show_z p.rl_diagReoptSize ^ show_z p.rl_diagReoptOverlap ^
  show_z p.rl_squareReoptSize ^ show_z p.rl_squareReoptOverlap ^ show_b p.rl_unidimensionalTransport ^
  show_q p.rl_quadraticPenalty ^ show_q p.rl_sideMargin ^ show_q p.rl_coarseningLimit ^ show_q p.rl_targetBlending
let read_penalty () =
  let a = q () in let b1 = q () in let c = q () in let d = q () in let e = q () in let f = q () in
  { pe_cutoffDistance = a; pe_cutoffDistanceUpdateFactor = b1; pe_areaExponent = c; pe_initialValue = d;
    pe_updateFactor = e; pe_targetBlending = f }
let show_penalty p =
  show_q p.pe_cutoffDistance ^ show_q p.pe_cutoffDistanceUpdateFactor ^ show_q p.pe_areaExponent ^
  show_q p.pe_initialValue ^ show_q p.pe_updateFactor ^ show_q p.pe_targetBlending
let read_cont () =
  let a = z () in let b1 = q () in let c = q () in let d = z () in let e = q () in
  { cm_netModel = a; cm_approximationDistance = b1; cm_approximationDistanceUpdateFactor = c;
    cm_maxNbConjugateGradientSteps = d; cm_conjugateGradientErrorTolerance = e }
let show_cont p =
  show_z p.cm_netModel ^ show_q p.cm_approximationDistance ^ show_q p.cm_approximationDistanceUpdateFactor ^
  show_z p.cm_maxNbConjugateGradientSteps ^ show_q p.cm_conjugateGradientErrorTolerance
let read_gown () =
  let a = z () in let b1 = z () in let c = z () in let d = q () in let e = q () in let f = q () in let g = q () in
  let h = q () in let i = q () in
  { gp_maxNbSteps = a; gp_nbInitialSteps = b1; gp_nbStepsBeforeRoughLegalization = c; gp_gapTolerance = d;
    gp_distanceTolerance = e; gp_penaltyUpdateDistance = f; gp_penaltyUpdateBackoff = g; gp_exportBlending = h;
    gp_noise = i }
let show_gown p =
  show_z p.gp_maxNbSteps ^ show_z p.gp_nbInitialSteps ^ show_z p.gp_nbStepsBeforeRoughLegalization ^
  show_q p.gp_gapTolerance ^ show_q p.gp_distanceTolerance ^ show_q p.gp_penaltyUpdateDistance ^
  show_q p.gp_penaltyUpdateBackoff ^ show_q p.gp_exportBlending ^ show_q p.gp_noise
let read_global () =
  let o = read_gown () in let c = read_cont () in let r = read_rough () in let p = read_penalty () in
  { gp_own = o; gp_continuousModel = c; gp_roughLegalization = r; gp_penalty = p }
let show_global p = show_gown p.gp_own ^ show_cont p.gp_continuousModel ^ show_rough p.gp_roughLegalization ^ show_penalty p.gp_penalty
let read_legal () =
  let a = z () in let b1 = q () in let c = q () in let d = q () in
  { lg_costModel = a; lg_orderingWidth = b1; lg_orderingHeight = c; lg_orderingY = d }
let show_legal p = show_z p.lg_costModel ^ show_q p.lg_orderingWidth ^ show_q p.lg_orderingHeight ^ show_q p.lg_orderingY
let read_det () =
  let a = z () in let b1 = z () in let c = z () in let d = z () in let e = z () in let f = z () in let g = z () in
  { dp_nbPasses = a; dp_localSearchNbNeighbours = b1; dp_localSearchNbRows = c; dp_shiftNbRows = d;
    dp_shiftMaxNbCells = e; dp_reorderingNbRows = f; dp_reorderingMaxNbCells = g }
let show_det p =
  show_z p.dp_nbPasses ^ show_z p.dp_localSearchNbNeighbours ^ show_z p.dp_localSearchNbRows ^ show_z p.dp_shiftNbRows ^
  show_z p.dp_shiftMaxNbCells ^ show_z p.dp_reorderingNbRows ^ show_z p.dp_reorderingMaxNbCells
let read_all () =
  let g = read_global () in let l = read_legal () in let d = read_det () in let s = z () in
  { cp_global = g; cp_legalization = l; cp_detailed = d; cp_seed = s }
let show_all p = show_global p.cp_global ^ show_legal p.cp_legalization ^ show_det p.cp_detailed ^ show_z p.cp_seed

let show_outcome show = function
  | Ok a -> "OK" ^ show a
  | Throw m -> "THROW " ^ msg m
  | UBIndex -> "UB"
  | AbortAssert -> "ABORT"
let show_check = function None -> "OK" | Some m -> "THROW " ^ msg m

let do_ctor () =
  let k = nexti () in let e = z () in
  let t = default_tables in
  print_endline (match k with
    | 0 -> show_outcome show_all (coloquinte_ctor t e (z_of_int 7))
    | 1 -> show_outcome show_global (global_ctor t e)
    | 2 -> show_outcome show_rough (rough_ctor t e)
    | 3 -> show_outcome show_cont (continuous_ctor t e)
    | 4 -> show_outcome show_penalty (penalty_ctor t e)
    | 5 -> show_outcome show_legal (legalization_ctor t e)
    | 6 -> show_outcome show_det (detailed_ctor t e)
    | _ -> "BADCASE")

let do_pchk () =
  let k = nexti () in
  print_endline (match k with
    | 0 -> show_check (check_coloquinte (read_all ()))
    | 1 -> show_check (check_global (read_global ()))
    | 2 -> show_check (check_rough (read_rough ()))
    | 3 -> show_check (check_continuous (read_cont ()))
    | 4 -> show_check (check_penalty (read_penalty ()))
    | 5 -> show_check (check_legalization (read_legal ()))
    | 6 -> show_check (check_detailed (read_det ()))
    | _ -> "BADCASE")

(* ---------------------------------------------------------------- circuit *)
let zvec () = let n = nexti () in rep n z
let bvec () = let n = nexti () in rep n b
let rowvec () = let n = nexti () in rep n (fun () -> let a = z () in let b1 = z () in let c = z () in let d = z () in let o = z () in
                                             { r_minX = a; r_maxX = b1; r_minY = c; r_maxY = d; r_orient = o })
let read_state () =
  let w = zvec () in let h = zvec () in let f = bvec () in let o = bvec () in let pol = zvec () in
  let x = zvec () in let y = zvec () in let ori = zvec () in let lim = zvec () in let wt = zvec () in
  let pc = zvec () in let px = zvec () in let py = zvec () in let rows = rowvec () in
  let u = b () in let su = b () in let nu = b () in
  { netLimits = lim; netWeights = wt; pinCells = pc; pinXOffsets = px; pinYOffsets = py; cellWidth = w; cellHeight = h;
    cellIsFixed = f; cellIsObstruction = o; cellRowPolarity = pol; cellX = x; cellY = y; cellOrientation = ori;
    rows = rows; isInUse = u; hasCellSizeUpdate = su; hasNetUpdate = nu }
let show_state c =
  let iv l = Printf.sprintf " %d" (List.length l) ^ String.concat "" (List.map show_z l) in
  let bv l = Printf.sprintf " %d" (List.length l) ^ String.concat "" (List.map show_b l) in
  iv c.cellWidth ^ iv c.cellHeight ^ bv c.cellIsFixed ^ bv c.cellIsObstruction ^ iv c.cellRowPolarity ^ iv c.cellX ^
  iv c.cellY ^ iv c.cellOrientation ^ iv c.netLimits ^ iv c.netWeights ^ iv c.pinCells ^ iv c.pinXOffsets ^
  iv c.pinYOffsets ^ Printf.sprintf " %d" (List.length c.rows) ^
  String.concat "" (List.map (fun r -> show_z r.r_minX ^ show_z r.r_maxX ^ show_z r.r_minY ^ show_z r.r_maxY ^ show_z r.r_orient) c.rows) ^
  show_b c.isInUse ^ show_b c.hasCellSizeUpdate ^ show_b c.hasNetUpdate
let show_cres = function
  | COk c -> "OK |" ^ show_state c
  | CThrow (m, c) -> "THROW " ^ msg m ^ " |" ^ show_state c
  | CAbort -> "ABORT"
  | CWork c -> "WORK |" ^ show_state c

let do_set () =
  let sid = nexti () in let c = read_state () in
  let a = match sid with
    | 0 -> ACellX (zvec ()) | 1 -> ACellY (zvec ()) | 2 -> ACellIsFixed (bvec ()) | 3 -> ACellIsObstruction (bvec ())
    | 4 -> ACellOrientation (zvec ()) | 5 -> ACellRowPolarity (zvec ()) | 6 -> ACellWidth (zvec ()) | 7 -> ACellHeight (zvec ())
    | 8 -> let n = nexti () in ASolution (rep n (fun () -> let x = z () in let y = z () in let o = z () in ((x, y), o)))
    | 9 -> ANetWeights (zvec ())
    | _ -> ARows (rowvec ()) in
  print_endline (show_cres (run_setter a c))

let do_addnet () =
  let c = read_state () in let cells = zvec () in let xs = zvec () in let ys = zvec () in let w = z () in
  print_endline (show_cres (add_net cells xs ys w c))
let do_setnets () =
  let c = read_state () in let lim = zvec () in let cells = zvec () in let xs = zvec () in let ys = zvec () in let ws = zvec () in
  print_endline (show_cres (set_nets lim cells xs ys ws c))
let do_cchk () =
  let c = read_state () in
  print_endline ((match circuit_check c with None -> "OK" | Some m -> "THROW " ^ msg m) ^ " |" ^ show_state c)
let stage_of = function 0 -> SGlobal | 1 -> SLegalize | _ -> SDetailed
let do_enter () =
  let s = nexti () in let c = read_state () in let p = read_all () in
  print_endline (show_cres (enter (stage_of s) p c))
(* place(effort) = placeGlobal(effort); placeDetailed(effort): with a refused effort the first call throws *)
let do_entere () =
  let s = nexti () in let c = read_state () in let e = z () in
  print_endline (show_cres (enter_effort default_tables (stage_of (if s = 3 then 0 else s)) e c))

let () =
  try
    while true do
      let line = input_line stdin in
      (try
        toks := List.filter (fun s -> s <> "") (String.split_on_char ' ' line);
        (match !toks with
         | [] -> print_endline ""
         | tag :: r ->
           toks := r;
           (match tag with
            | "CTOR" -> do_ctor () | "PCHK" -> do_pchk () | "SET" -> do_set () | "ADDNET" -> do_addnet ()
            | "SETNETS" -> do_setnets () | "CCHK" -> do_cchk () | "ENTER" -> do_enter () | "ENTERE" -> do_entere ()
            | _ -> print_endline "BADCASE"))
      with Short -> print_endline "BADCASE short" | Failure m -> print_endline ("BADCASE " ^ m))
    done
  with End_of_file -> ()
