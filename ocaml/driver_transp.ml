(* C13 driver: reads one case per line, prints one result line per case.
   TP incr nsnk nsrc caps.. dems.. costs(row-major [snk][src])..
        -> "OK cost | caps | alloc | assignment | chk"   (chk = proved checker on the model's own plan)
           "THROW" (check() refuses) / "UNBALANCED" (demand > capacity: outside C13) / "FAIL <kind> <line>"
   CK nsnk nsrc caps.. dems.. costs.. alloc(row-major).. assignment..
        -> "feasible certified argmax cost | model's toAssignment of that plan"
      (feasibleb, check_plan, argmaxb: the boolean checkers proved sound in SspProofs.v) *)
open Model_transp
let rec pos_of_int n = if n = 1 then XH else if n land 1 = 0 then XO (pos_of_int (n lsr 1)) else XI (pos_of_int (n lsr 1))
let z_of_int n = if n = 0 then Z0 else if n > 0 then Zpos (pos_of_int n) else Zneg (pos_of_int (-n))
let rec int_of_pos = function XH -> 1 | XO p -> 2 * int_of_pos p | XI p -> 2 * int_of_pos p + 1
let int_of_z = function Z0 -> 0 | Zpos p -> int_of_pos p | Zneg p -> - (int_of_pos p)
let rec nat_of_int n = if n <= 0 then O else S (nat_of_int (n-1))
let rec int_of_nat = function O -> 0 | S n -> 1 + int_of_nat n
let zs l = String.concat " " (List.map (fun z -> string_of_int (int_of_z z)) l)
let ns l = String.concat " " (List.map (fun n -> string_of_int (int_of_nat n)) l)

exception Short
let toks = ref []
let next () = match !toks with x :: r -> toks := r; x | [] -> raise Short
let nexti () = int_of_string (next ())
let z () = z_of_int (nexti ())
let rec rep n f = if n <= 0 then [] else let x = f () in x :: rep (n-1) f
let b2i b = if b then 1 else 0

let read_pb () =
  let nsnk = nexti () in let nsrc = nexti () in
  let caps = rep nsnk z in let dems = rep nsrc z in
  let costs = rep nsnk (fun () -> rep nsrc z) in
  (nsnk, nsrc, { caps = caps; dems = dems; costs = costs })

let err_s = function
  | EFuel n -> Printf.sprintf "FAIL FUEL %d" (int_of_nat n)
  | EAssert n -> Printf.sprintf "FAIL ASSERT %d" (int_of_nat n)
  | EEmptyTop n -> Printf.sprintf "FAIL EMPTYTOP %d" (int_of_nat n)

let do_tp () =
  let incr = nexti () in
  let (_, _, pb0) = read_pb () in
  if not (check_pb pb0) then print_endline "THROW" else
  let pb = if incr <> 0 then increase_capacity pb0 else pb0 in
  if int_of_z (total_demand pb) > int_of_z (total_capacity pb) then print_endline "UNBALANCED" else
  match ssp pb with
  | Fail e -> print_endline (err_s e)
  | Ok x ->
    Printf.printf "OK %d | %s | %s | %s | %d\n" (int_of_z (plan_cost pb x)) (zs pb.caps)
      (zs (List.concat x)) (ns (to_assignment pb x)) (b2i (check_plan pb x))

let do_ck () =
  let (nsnk, nsrc, pb) = read_pb () in
  let x = rep nsnk (fun () -> rep nsrc z) in
  let a = rep nsrc (fun () -> nat_of_int (nexti ())) in
  Printf.printf "%d %d %d %d | %s\n" (b2i (feasibleb pb x)) (b2i (check_plan pb x)) (b2i (argmaxb pb x a))
    (int_of_z (plan_cost pb x)) (ns (to_assignment pb x))

let () =
  try
    while true do
      let line = input_line stdin in
      (match String.split_on_char ' ' (String.trim line) |> List.filter (fun s -> s <> "") with
       | [] -> print_endline ""
       | tag :: rest ->
         toks := rest;
         (try
            (match tag with
             | "TP" -> do_tp ()
             | "CK" -> do_ck ()
             | _ -> print_endline "BADTAG")
          with Short -> print_endline "SHORT" | Failure m -> print_endline ("BADCASE " ^ m)))
    done
  with End_of_file -> ()
