(* C06 family `global`: reads one case per line "<TAG> ints...", prints one result line per case
     SC alo ahi n nbins (lo hi k cells..)*nbins demand*n (m e)*n        spreadCoordX/Y; targets are floats m*2^e
        -> "<repaired coords> | <unrepaired coords>", every coordinate as an exact reduced fraction [-]num/den in BINARY
     GL margin maxSize nrows (minX maxX minY maxY orient)* ncells (x y w h orient fixed obstruction)*
        -> "nlx lx.. nly ly.. | <number of clipped rows>"
     EX wm we n (fixed x y pw ph)*n lbx(m e)*n ubx(m e)*n lby(m e)*n uby(m e)*n
        -> "x y x y ..." the returned placement *)
open Model_global
let rec pos_of_int n = if n = 1 then XH else if n land 1 = 0 then XO (pos_of_int (n lsr 1)) else XI (pos_of_int (n lsr 1))
let z_of_int n = if n = 0 then Z0 else if n > 0 then Zpos (pos_of_int n) else Zneg (pos_of_int (-n))
let rec int_of_pos = function XH -> 1 | XO p -> 2 * int_of_pos p | XI p -> 2 * int_of_pos p + 1
let int_of_z = function Z0 -> 0 | Zpos p -> int_of_pos p | Zneg p -> - (int_of_pos p)
let rec nat_of_int n = if n <= 0 then O else S (nat_of_int (n-1))
let zs l = String.concat " " (List.map (fun z -> string_of_int (int_of_z z)) l)

exception Short
let toks = ref []
let next () = match !toks with x :: r -> toks := r; x | [] -> raise Short
let nexti () = int_of_string (next ())
let z () = z_of_int (nexti ())
let rep n f = let rec go n acc = if n <= 0 then List.rev acc else let x = f () in go (n-1) (x :: acc) in go n []

(* exact value m * 2^e of a binary32 number *)
let rec shift_pos p e = if e <= 0 then p else shift_pos (XO p) (e - 1)
let q_of_me m e =
  if e >= 0 then { qnum = (match z_of_int m with Z0 -> Z0 | Zpos p -> Zpos (shift_pos p e) | Zneg p -> Zneg (shift_pos p e)); qden = XH }
  else { qnum = z_of_int m; qden = shift_pos XH (-e) }
let qme () = let m = nexti () in let e = nexti () in q_of_me m e
let q_of_int n = { qnum = z_of_int n; qden = XH }

(* arbitrary-size output: binary digits *)
let pos_bits p =
  let b = Buffer.create 64 in
  let rec go p acc = match p with XH -> '1' :: acc | XO p -> go p ('0' :: acc) | XI p -> go p ('1' :: acc) in
  List.iter (Buffer.add_char b) (go p []); Buffer.contents b
let z_bits = function Z0 -> "0" | Zpos p -> pos_bits p | Zneg p -> "-" ^ pos_bits p
let q_show q = let r = qred q in z_bits r.qnum ^ "/" ^ pos_bits r.qden
let qs_show l = String.concat " " (List.map q_show l)

let orient_of_int = function 0->ON|1->OS|2->OW|3->OE|4->OFN|5->OFS|6->OFW|7->OFE|8->OINVALID|_->OUNKNOWN
let rect () = let a = z () in let b = z () in let c = z () in let d = z () in {minX=a;maxX=b;minY=c;maxY=d}
let row () = let r = rect () in let o = orient_of_int (nexti ()) in {rr=r; ro=o}

let do_sc () =
  let alo = z () in let ahi = z () in let n = nexti () in let nb = nexti () in
  let bins = rep nb (fun () -> let lo = z () in let hi = z () in let k = nexti () in
                      let cells = rep k (fun () -> nat_of_int (nexti ())) in { b_lo = lo; b_hi = hi; b_cells = cells }) in
  let demand = rep n (fun () -> q_of_int (nexti ())) in
  let target = rep n qme in
  Printf.printf "%s | %s\n" (qs_show (spread_coord alo ahi bins target demand)) (qs_show (spread_coord_orig (nat_of_int n) bins target demand))

let do_gl () =
  let margin = z () in let maxSize = z () in
  let nr = nexti () in let rows = rep nr row in
  let nc = nexti () in
  let cells = rep nc (fun () -> let x = z () in let y = z () in let w = z () in let h = z () in
                       let o = orient_of_int (nexti ()) in let fx = nexti () <> 0 in let ob = nexti () <> 0 in
                       ((((((x, y), w), h), o), fx), ob)) in
  let (lx, ly) = grid_of_circuit margin maxSize rows cells in
  let ncl = List.length (clip_rows margin (List.map (fun r -> r.rr) (compute_rows_circuit rows [] cells))) in
  Printf.printf "%d %s %d %s | %d\n" (List.length lx) (zs lx) (List.length ly) (zs ly) ncl

let do_ex () =
  let w = qme () in let n = nexti () in
  let cells = rep n (fun () -> let fx = nexti () <> 0 in let x = z () in let y = z () in let pw = z () in let ph = z () in
                       { g_fixed = fx; g_x = x; g_y = y; g_pw = pw; g_ph = ph; g_orient = Z0 }) in
  let lbx = rep n qme in let ubx = rep n qme in let lby = rep n qme in let uby = rep n qme in
  let res = export_global w cells lbx ubx lby uby in
  print_endline (String.concat " " (List.map (fun c -> Printf.sprintf "%d %d" (int_of_z c.g_x) (int_of_z c.g_y)) res))

let () =
  try
    while true do
      let line = input_line stdin in
      let ts = List.filter (fun s -> s <> "") (String.split_on_char ' ' line) in
      (match ts with
       | [] -> print_endline ""
       | tag :: rest ->
           toks := rest;
           (try
              (match tag with
               | "SC" -> do_sc ()
               | "GL" -> do_gl ()
               | "EX" -> do_ex ()
               | _ -> print_endline "BADTAG")
            with Short -> print_endline "SHORT" | Failure m -> print_endline ("FAIL " ^ m)))
    done
  with End_of_file -> ()
