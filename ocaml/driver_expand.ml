(* C18 (family expand): reads one case per line "<TAG> ints...", prints one result line per case.
   Formats: see harness/expand.cpp.  Rationals are "num den" pairs (den > 0). *)
open Model_expand
let rec pos_of_int n = if n = 1 then XH else if n land 1 = 0 then XO (pos_of_int (n lsr 1)) else XI (pos_of_int (n lsr 1))
let z_of_int n = if n = 0 then Z0 else if n > 0 then Zpos (pos_of_int n) else Zneg (pos_of_int (-n))
exception Big
let rec int_of_pos = function
  | XH -> 1
  | XO p -> let r = int_of_pos p in if r > max_int / 2 then raise Big else 2 * r
  | XI p -> let r = int_of_pos p in if r > (max_int - 1) / 2 then raise Big else 2 * r + 1
let int_of_z = function Z0 -> 0 | Zpos p -> int_of_pos p | Zneg p -> - (int_of_pos p)
(* decimal printing of any Z: chunks of 9 digits through the extracted Z.div_eucl *)
let rec string_of_big z =
  let chunk = z_of_int 1000000000 in
  match z with
  | Zneg p -> "-" ^ string_of_big (Zpos p)
  | _ -> (try string_of_int (int_of_z z) with Big ->
            let (qq, r) = Z.div_eucl z chunk in
            string_of_big qq ^ Printf.sprintf "%09d" (int_of_z r))
let zi z = string_of_big z
let zs l = String.concat " " (List.map zi l)

exception Short
let toks = ref []
let next () = match !toks with x :: r -> toks := r; x | [] -> raise Short
let nexti () = int_of_string (next ())
(* decimal -> Z without going through OCaml's 63-bit int (denominators of doubles reach 2^62 and more) *)
let z_of_string s =
  let neg = String.length s > 0 && s.[0] = '-' in
  let ten = z_of_int 10 in
  let acc = ref Z0 in
  String.iteri (fun i c ->
    if i = 0 && (c = '-' || c = '+') then ()
    else if c >= '0' && c <= '9' then acc := Z.add (Z.mul !acc ten) (z_of_int (Char.code c - 48))
    else failwith "digit") s;
  if neg then Z.opp !acc else !acc
let z () = z_of_string (next ())
let q () = let n = z () in let d = z () in
  match d with Zpos p -> { qnum = n; qden = p } | _ -> failwith "denominator" 
let rec rep n f = if n <= 0 then [] else let x = f () in x :: rep (n-1) f
let qs x = let r = qred x in zi r.qnum ^ "/" ^ zi (Zpos r.qden)

let orient_of_int = function 0->ON|1->OS|2->OW|3->OE|4->OFN|5->OFS|6->OFW|7->OFE|8->OINVALID|_->OUNKNOWN
let rect () = let a = z () in let b = z () in let c = z () in let d = z () in {minX=a;maxX=b;minY=c;maxY=d}
let row () = let r = rect () in let o = orient_of_int (nexti ()) in {rr=r; ro=o}

let circuit () =
  let nr = nexti () in let rows = rep nr row in
  let nc = nexti () in
  let cells = rep nc (fun () -> let x = z () in let y = z () in let w = z () in let h = z () in
                       let o = orient_of_int (nexti ()) in let fx = nexti () <> 0 in let ob = nexti () <> 0 in
                       {e_x=x; e_y=y; e_w=w; e_h=h; e_o=o; e_fixed=fx; e_obs=ob}) in
  {e_rows=rows; e_cells=cells}

let br = function BrNoArea -> "noarea" | BrDense -> "dense" | BrExpand -> "expand"
let widths c = zs (List.map (fun k -> k.e_w) c.e_cells)

let do_ed () =
  let t = q () in let m = q () in let mew = q () in let c = circuit () in
  let ra = row_placement_area m c in let ca = movable_area c.e_cells in
  match expand_to_density_br t m mew c with
  | None -> print_endline "NOFUEL"
  | Some (c', b) -> Printf.printf "%s %s %s | %s\n" (zi ra) (zi ca) (br b) (widths c')

let do_ef () =
  let maxd = q () in let m = q () in let c = circuit () in
  let ne = nexti () in let es = rep ne q in
  let ra = row_placement_area m c in let ca = movable_area c.e_cells in
  let ea = expanded_area c.e_cells es Z0 in
  match expand_by_factor_br es maxd m c with
  | None -> print_endline "THROW"
  | Some ((c', r), b) -> Printf.printf "%s %s %s %s | %s | %s\n" (zi ra) (zi ca) (zi ea) (br b) (widths c') (qs r)

let do_ce () =
  let fp = q () in let pf = q () in let c = circuit () in
  let nr = nexti () in let cmap = rep nr (fun () -> let r = rect () in let cg = q () in (r, cg)) in
  match compute_expansion cmap fp pf c with
  | None -> print_endline "THROW"
  | Some l -> print_endline (String.concat " " (List.map qs l))

let () =
  try while true do
    let line = input_line stdin in
    toks := List.filter (fun s -> s <> "") (String.split_on_char ' ' line);
    (match !toks with
     | [] -> print_endline ""
     | tag :: r ->
       toks := r;
       (try
         (match tag with
          | "ED" -> do_ed ()
          | "EF" -> do_ef ()
          | "CE" -> do_ce ()
          | _ -> print_endline "?TAG")
        with Short -> print_endline "?SHORT" | Failure _ -> print_endline "?PARSE"))
  done with End_of_file -> ()
