(* reads one case per line "<TAG> ints...", prints one result line per case *)
open Model
let rec pos_of_int n = if n = 1 then XH else if n land 1 = 0 then XO (pos_of_int (n lsr 1)) else XI (pos_of_int (n lsr 1))
let z_of_int n = if n = 0 then Z0 else if n > 0 then Zpos (pos_of_int n) else Zneg (pos_of_int (-n))
let rec int_of_pos = function XH -> 1 | XO p -> 2 * int_of_pos p | XI p -> 2 * int_of_pos p + 1
let int_of_z = function Z0 -> 0 | Zpos p -> int_of_pos p | Zneg p -> - (int_of_pos p)
let rec nat_of_int n = if n <= 0 then O else S (nat_of_int (n-1))
let rec int_of_nat = function O -> 0 | S n -> 1 + int_of_nat n
let zs l = String.concat " " (List.map (fun z -> string_of_int (int_of_z z)) l)

exception Short
let toks = ref []
let next () = match !toks with x :: r -> toks := r; x | [] -> raise Short
let nexti () = int_of_string (next ())
let z () = z_of_int (nexti ())
let rec rep n f = if n <= 0 then [] else let x = f () in x :: rep (n-1) f

let do_rl () =
  let b = z () in let e = z () in let n = nexti () in
  let ops = rep n (fun () -> let k = nexti () in let w = z () in let t = z () in if k = 0 then Push (w, t) else Query (w, t)) in
  let (pl, costs) = run b e ops in
  let chk = match checked_run b e ops with Some _ -> 1 | None -> 0 in
  Printf.printf "%s | %s | %d\n" (zs pl) (zs costs) chk

(* proved certificate checker on externally supplied positions *)
let do_rlc () =
  let b = z () in let e = z () in let n = nexti () in
  let cs = rep n (fun () -> let w = z () in let t = z () in let x = z () in { cw = w; ct = t; cx = x }) in
  Printf.printf "%d\n" (if cert_ok b e cs then 1 else 0)

let orient_of_int = function 0->ON|1->OS|2->OW|3->OE|4->OFN|5->OFS|6->OFW|7->OFE|8->OINVALID|_->OUNKNOWN
let int_of_orient = function ON->0|OS->1|OW->2|OE->3|OFN->4|OFS->5|OFW->6|OFE->7|OINVALID->8|OUNKNOWN->9
let rect () = let a = z () in let b = z () in let c = z () in let d = z () in {minX=a;maxX=b;minY=c;maxY=d}
let row () = let r = rect () in let o = orient_of_int (nexti ()) in {rr=r; ro=o}
let show_rows l = String.concat ";" (List.map (fun r -> Printf.sprintf "%d %d %d %d %d" (int_of_z r.rr.minX) (int_of_z r.rr.maxX) (int_of_z r.rr.minY) (int_of_z r.rr.maxY) (int_of_orient r.ro)) l)

let do_fs () =
  let r = row () in let n = nexti () in let obs = rep n rect in
  print_endline (show_rows (freespace_rows r obs))

let do_cr () =
  let nr = nexti () in let rows = rep nr row in
  let ne = nexti () in let extra = rep ne rect in
  let nc = nexti () in
  let cells = rep nc (fun () -> let x = z () in let y = z () in let w = z () in let h = z () in
                       let o = orient_of_int (nexti ()) in let fx = nexti () <> 0 in let ob = nexti () <> 0 in
                       ((((((x, y), w), h), o), fx), ob)) in
  print_endline (show_rows (compute_rows_circuit rows extra cells))

let zi z = string_of_int (int_of_z z)
let do_po () =
  let o = orient_of_int (nexti ()) in let w = z () in let h = z () in let px = z () in let py = z () in
  let t = match def_transform o (((w, h), px), py) with
    | Some (((pw, ph), x), y) -> Printf.sprintf "%s %s %s %s" (zi pw) (zi ph) (zi x) (zi y) | None -> "none" in
  Printf.printf "%s %s %s %s | %s\n" (zi (pin_x_offset o w h px py)) (zi (pin_y_offset o w h px py))
    (zi (placed_width o w h)) (zi (placed_height o w h)) t

let read_circuit () =
  let nc = nexti () in
  let cells = rep nc (fun () -> let x = z () in let y = z () in let w = z () in let h = z () in let o = orient_of_int (nexti ()) in
                       {hx=x; hy=y; hw=w; hh=h; ho=o}) in
  let nn = nexti () in
  let nets = rep nn (fun () -> let np = nexti () in rep np (fun () -> let c = nat_of_int (nexti ()) in let xo = z () in let yo = z () in {pc=c; pxo=xo; pyo=yo})) in
  (cells, nets)

let do_hp () = let (cells, nets) = read_circuit () in print_endline (zi (hpwl cells nets))

let do_in () =
  let dirx = nexti () = 0 in
  let (cells, nets) = read_circuit () in
  let ns = nexti () in let subset = rep ns (fun () -> nat_of_int (nexti ())) in
  let nu = nexti () in let ups = rep nu (fun () -> let c = nat_of_int (nexti ()) in let p = z () in (c, p)) in
  let s = circuit_topology dirx cells nets subset in
  let tr = incr_trace s ups in
  let netsS = String.concat ";" (List.map (fun net -> String.concat "," (List.map (fun (c, o) -> Printf.sprintf "%d:%s" (int_of_nat c) (zi o)) net)) s.inets) in
  let ncl = List.length s.ipos in
  let csr = String.concat ";" (List.init ncl (fun c -> String.concat "," (List.map (fun n -> string_of_int (int_of_nat n)) (cell_net_ids s.inets (nat_of_int c))))) in
  Printf.printf "%s | %s | %s\n" (zs tr) netsS csr

let pol_of_int = function 0->PANY|1->PSAME|2->POPPOSITE|3->PNW|_->PSE
let read_pcircuit () =
  let nr = nexti () in let rows = rep nr row in
  let nc = nexti () in
  let cells = rep nc (fun () -> let x = z () in let y = z () in let w = z () in let h = z () in
     let o = orient_of_int (nexti ()) in let p = pol_of_int (nexti ()) in let fx = nexti () <> 0 in let ob = nexti () <> 0 in
     {c_x=x; c_y=y; c_w=w; c_h=h; c_o=o; c_pol=p; c_fixed=fx; c_obs=ob}) in
  {rows=rows; cells=cells}
let show_pl c = String.concat "" (List.map (fun k -> Printf.sprintf " %s %s %d" (zi k.c_x) (zi k.c_y) (int_of_orient k.c_o)) c.cells)
let b2i b = if b then 1 else 0

(* LG circuit norder order.. : model of DetailedPlacer::legalize *)
let do_lg () =
  let c = read_pcircuit () in
  let no = nexti () in let order = rep no (fun () -> nat_of_int (nexti ())) in
  let triv = trivially_feasible c in
  (match legalize_circuit c order with
   | LegOk c' -> Printf.printf "OK%s | %d %d %d\n" (show_pl c') (b2i (legalb c')) (b2i (orient_okb c c')) (b2i triv)
   | LegNoRow -> Printf.printf "NOROW | - - %d\n" (b2i triv)
   | LegNotAllPlaced -> Printf.printf "NOTALL | - - %d\n" (b2i triv))

(* LC circuit (x y o per cell) : proved checkers on an externally supplied result *)
let do_lc () =
  let c = read_pcircuit () in
  let cells' = List.map (fun k -> let x = z () in let y = z () in let o = orient_of_int (nexti ()) in {k with c_x=x; c_y=y; c_o=o}) c.cells in
  let c' = {rows=c.rows; cells=cells'} in
  Printf.printf "%d %d %d\n" (b2i (legalb c')) (b2i (orient_okb c c')) (b2i (trivially_feasible c))

let do_ot () =
  let p = pol_of_int (nexti ()) in let o = orient_of_int (nexti ()) in
  let pr = match prescribed p o with None -> "forbidden" | Some None -> "keep" | Some (Some x) -> string_of_int (int_of_orient x) in
  Printf.printf "%d %d %d | %s\n" (int_of_orient (cell_orientation_in_row p o)) (int_of_orient (opposite_row_orientation o)) (b2i (is_turn o)) pr

let show_dstate s =
  let rowS r = String.concat "," (List.map (fun c -> Printf.sprintf "%d:%s:%d" (int_of_nat c.p_id) (zi c.p_x) (int_of_orient c.p_o)) r.dr_cells) in
  let loose = List.sort compare (List.map (fun c -> int_of_nat c.p_id) s.d_loose) in
  String.concat ";" (List.map rowS s.d_rows) ^ "|" ^ String.concat "" (List.map (fun i -> string_of_int i ^ " ") loose)

let do_dm () =
  let nr = nexti () in
  let rows = rep nr (fun () -> let a = z () in let b = z () in let y = z () in let o = orient_of_int (nexti ()) in (a, b, y, o)) in
  let nc = nexti () in
  let cells = List.mapi (fun i (w, x, r, p, o) -> (i, w, x, r, p, o))
      (rep nc (fun () -> let w = z () in let x = z () in let r = nexti () in let p = pol_of_int (nexti ()) in let o = orient_of_int (nexti ()) in (w, x, r, p, o))) in
  let mkrow ri (a, b, y, o) =
    let cs = List.filter (fun (_, _, _, r, _, _) -> r = ri) cells in
    let cs = List.stable_sort (fun (_, _, x1, _, _, _) (_, _, x2, _, _, _) -> compare (int_of_z x1) (int_of_z x2)) cs in
    {dr_min=a; dr_max=b; dr_y=y; dr_o=o; dr_cells=List.map (fun (i, w, x, _, p, o) -> {p_id=nat_of_int i; p_x=x; p_w=w; p_pol=p; p_o=o}) cs} in
  let s = ref {d_rows=List.mapi mkrow rows; d_loose=[]} in
  let nops = nexti () in
  let out = Buffer.create 256 in
  Buffer.add_string out ("INIT " ^ show_dstate !s);
  let pred_of_int p = if p < 0 then None else Some (nat_of_int p) in
  for _ = 1 to nops do
    let t = nexti () in
    let op = (match t with
      | 0 -> let a = nexti () in let b = nexti () in MSwap (nat_of_int a, nat_of_int b)
      | 1 -> let a = nexti () in let r = nexti () in let p = nexti () in MInsert (nat_of_int a, nat_of_int r, pred_of_int p)
      | 2 -> let a = nexti () in MUnplace (nat_of_int a)
      | _ -> let a = nexti () in let r = nexti () in let p = nexti () in let x = z () in MPlace (nat_of_int a, nat_of_int r, pred_of_int p, x)) in
    (match apply_mop !s op with
     | Some s' -> s := s'; Buffer.add_string out (" / OK " ^ show_dstate !s)
     | None -> Buffer.add_string out (" / NO " ^ show_dstate !s))
  done;
  print_endline (Buffer.contents out)

(* DC: same payload as DM, replayed on the CONCRETE model (MovesConcrete.v): after every operation the
   abstraction of the arrays (abs) and the arrays themselves
   (rowFirstCell_/rowLastCell_/cellPred_/cellNext_/cellRow_/cellX_/cellY_/cellOrientation_) *)
let show_cstate cs =
  let st = match cstate_abs cs with Some s -> show_dstate s | None -> "ABS-NONE" in
  let il l = String.concat "," (List.map zi l) in
  (match cstate_arrays cs with
   | [f; l; p; n; r; x; y] ->
     Printf.sprintf "%s # first=%s last=%s pred=%s next=%s row=%s x=%s y=%s orient=%s" st (il f) (il l) (il p) (il n) (il r) (il x) (il y)
       (String.concat "," (List.map (fun o -> string_of_int (int_of_orient o)) (cstate_orients cs)))
   | _ -> "?ARRAYS")

let do_dc () =
  let nr = nexti () in
  let rows = Array.of_list (rep nr (fun () -> let a = z () in let b = z () in let y = z () in let o = orient_of_int (nexti ()) in (a, b, y, o))) in
  let nc = nexti () in
  let cells = Array.of_list (rep nc (fun () -> let w = z () in let x = z () in let r = nexti () in let p = pol_of_int (nexti ()) in let o = orient_of_int (nexti ()) in (w, x, r, p, o))) in
  let pred = Array.make nc (-1) and next = Array.make nc (-1) and rowa = Array.make nc (-1) in
  let first = Array.make nr (-1) and last = Array.make nr (-1) in
  for ri = 0 to nr - 1 do
    let cs = List.filter (fun i -> let (_, _, r, _, _) = cells.(i) in r = ri) (List.init nc (fun i -> i)) in
    let cs = List.stable_sort (fun i j -> let (_, x1, _, _, _) = cells.(i) in let (_, x2, _, _, _) = cells.(j) in compare (int_of_z x1) (int_of_z x2)) cs in
    List.iter (fun c -> rowa.(c) <- ri) cs;
    let rec link = function a :: (b :: _ as t) -> next.(a) <- b; pred.(b) <- a; link t | _ -> () in
    link cs;
    (match cs with [] -> () | c :: _ -> first.(ri) <- c; last.(ri) <- List.nth cs (List.length cs - 1))
  done;
  let zl a = List.map z_of_int (Array.to_list a) in
  let cl f = List.map f (Array.to_list cells) in
  let cs = ref (cstate_make (List.map (fun (a, b, y, o) -> crow_make a b y o) (Array.to_list rows))
                  (zl first) (zl last) (cl (fun (w, _, _, _, _) -> w)) (zl pred) (zl next) (zl rowa)
                  (cl (fun (_, x, _, _, _) -> x)) (cl (fun (_, _, r, _, _) -> let (_, _, y, _) = rows.(r) in y))
                  (cl (fun (_, _, _, _, o) -> o)) (cl (fun (_, _, _, p, _) -> p))) in
  let nops = nexti () in
  let out = Buffer.create 256 in
  Buffer.add_string out ("INIT " ^ show_cstate !cs);
  let pred_of_int p = if p < 0 then None else Some (nat_of_int p) in
  for _ = 1 to nops do
    let t = nexti () in
    let op = (match t with
      | 0 -> let a = nexti () in let b = nexti () in MSwap (nat_of_int a, nat_of_int b)
      | 1 -> let a = nexti () in let r = nexti () in let p = nexti () in MInsert (nat_of_int a, nat_of_int r, pred_of_int p)
      | 2 -> let a = nexti () in MUnplace (nat_of_int a)
      | _ -> let a = nexti () in let r = nexti () in let p = nexti () in let x = z () in MPlace (nat_of_int a, nat_of_int r, pred_of_int p, x)) in
    (match (if cop_pre !cs op then apply_cop !cs op else None) with
     | Some cs' -> cs := cs'; Buffer.add_string out (" / OK " ^ show_cstate !cs)
     | None -> Buffer.add_string out (" / NO " ^ show_cstate !cs))
  done;
  print_endline (Buffer.contents out)

(* OP circuit nsteps [ncand [0 | 1 nm [c x y]...]...]... : model of bestSwap/bestInsert/bestSwapUpdate *)
let do_op () =
  let (cells, nets) = read_circuit () in
  let n = List.length cells in
  let all = List.init n nat_of_int in
  let s = { ox = circuit_topology true cells nets all; oy = circuit_topology false cells nets all } in
  let nsteps = nexti () in
  let steps = rep nsteps (fun () ->
    let ncand = nexti () in
    OBest (rep ncand (fun () ->
      if nexti () = 0 then None else
      let nm = nexti () in Some (rep nm (fun () -> let c = nat_of_int (nexti ()) in let x = z () in let y = z () in (c, (x, y))))))) in
  let tr = otrace s steps in
  print_endline (zi (ovalue s) ^ " |" ^ String.concat "" (List.map (fun (v, b) -> Printf.sprintf " %s %d" (zi v) (b2i b)) tr))

(* SH nrows [minX maxX ncells [id x w]...]... k [cell newx]... : the constraints of runShiftsOnCells on the new positions *)
let do_sh () =
  let nr = nexti () in
  let rows = rep nr (fun () -> let a = z () in let b = z () in let nc = nexti () in
    let cs = rep nc (fun () -> let i = nexti () in let x = z () in let w = z () in {p_id=nat_of_int i; p_x=x; p_w=w; p_pol=PANY; p_o=ON}) in
    {dr_min=a; dr_max=b; dr_y=Z0; dr_o=ON; dr_cells=cs}) in
  let s = {d_rows=rows; d_loose=[]} in
  let k = nexti () in
  let xs = rep k (fun () -> let c = nat_of_int (nexti ()) in let x = z () in (c, x)) in
  let s' = apply_shift s xs in
  let cells = List.concat (List.map (fun r -> List.map (fun c -> (int_of_nat c.p_id, int_of_z c.p_x)) r.dr_cells) s'.d_rows) in
  let cells = List.sort compare cells in
  Printf.printf "%d |%s\n" (b2i (shift_ok s xs)) (String.concat "" (List.map (fun (i, x) -> Printf.sprintf " %d:%d" i x) cells))

(* FC circuit : model of DetailedPlacement::fromIspdCircuit (DetailedInit.v): the row structure or the exception *)
let int_of_pol = function PANY->0|PSAME->1|POPPOSITE->2|PNW->3|PSE->4
let do_fc () =
  let c = read_pcircuit () in
  match from_circuit c with
  | DOk s ->
    let cellS k = Printf.sprintf "%d:%s:%s:%d:%d" (int_of_nat k.p_id) (zi k.p_x) (zi k.p_w) (int_of_pol k.p_pol) (int_of_orient k.p_o) in
    let rowS r = Printf.sprintf "%s %s %s %d:%s" (zi r.dr_min) (zi r.dr_max) (zi r.dr_y) (int_of_orient r.dr_o)
        (String.concat "," (List.map cellS r.dr_cells)) in
    print_endline ("OK " ^ String.concat ";" (List.map rowS s.d_rows))
  | DErr e ->
    print_endline ("ERR " ^ (match e with
      | ENoRows -> "NoRows" | ERowHeights -> "RowHeights" | ENoRowFound _ -> "NoRowFound" | EWrongY _ -> "WrongY"
      | ERowStartsAfter _ -> "RowStartsAfter" | ERowEndsBefore _ -> "RowEndsBefore" | EOverlap -> "Overlap"
      | ECheckGeometry -> "CheckGeometry" | ECheckOrientation -> "CheckOrientation"))

let () =
  try while true do
    let line = input_line stdin in
    toks := List.filter (fun s -> s <> "") (String.split_on_char ' ' line);
    (match !toks with
     | [] -> print_endline ""
     | tag :: r ->
       toks := r;
       (try
         (match tag with
          | "OP" -> do_op ()
          | "SH" -> do_sh ()
          | "RL" -> do_rl ()
          | "RLC" -> do_rlc ()
          | "DM" -> do_dm ()
          | "DC" -> do_dc ()
          | "FC" -> do_fc ()
          | "OT" -> do_ot ()
          | "LG" -> do_lg ()
          | "LC" -> do_lc ()
          | "PO" -> do_po ()
          | "HP" -> do_hp ()
          | "IN" -> do_in ()
          | "FS" -> do_fs ()
          | "CR" -> do_cr ()
          | _ -> print_endline "?TAG")
        with Short -> print_endline "?SHORT"))
  done with End_of_file -> ()
