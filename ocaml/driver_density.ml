(* C16 driver: one input line = "<case line> @ <trace printed by harness/density.cpp>" ('|' tokens are
   ignored).  It follows the C++ trace: for every op it takes the C++ pre-state, applies the extracted
   model (exact ops) or checks the C++ post-state against the model's relation (refine / Redistribute
   ops), and prints a trace in the harness's format (the model's values; for relational ops the C++
   post-state is echoed when it satisfies the relation, "RELFAIL <why>" otherwise), then " # " and one
   verdict per state (the proved checker partition_okb on the C++ state), then " ## " and the exact
   rational spread coordinates.  "SP ..." lines: findConstrainedSplitPos only. *)
open Model_density
let rec pos_of_int n = if n = 1 then XH else if n land 1 = 0 then XO (pos_of_int (n lsr 1)) else XI (pos_of_int (n lsr 1))
let z_of_int n = if n = 0 then Z0 else if n > 0 then Zpos (pos_of_int n) else Zneg (pos_of_int (-n))
let rec int_of_pos = function XH -> 1 | XO p -> 2 * int_of_pos p | XI p -> 2 * int_of_pos p + 1
let int_of_z = function Z0 -> 0 | Zpos p -> int_of_pos p | Zneg p -> - (int_of_pos p)
let rec nat_of_int n = if n <= 0 then O else S (nat_of_int (n-1))
let rec int_of_nat = function O -> 0 | S n -> 1 + int_of_nat n

exception Short
exception Bad of string
let toks = ref []
let rec next () = match !toks with "|" :: r -> toks := r; next () | x :: r -> toks := r; x | [] -> raise Short
let peek () = match !toks with "|" :: r -> toks := r; (match r with x :: _ -> x | [] -> "") | x :: _ -> x | [] -> ""
let nexti () = let t = next () in try int_of_string t with _ -> raise (Bad ("int expected, got " ^ t))
let expect k = let t = next () in if t <> k then raise (Bad ("expected " ^ k ^ " got " ^ t))
let z () = z_of_int (nexti ())
let rec rep n f = if n <= 0 then [] else let x = f () in x :: rep (n-1) f

let orient_of_int = function 0->ON|1->OS|2->OW|3->OE|4->OFN|5->OFS|6->OFW|7->OFE|8->OINVALID|_->OUNKNOWN
let rect () = let a = z () in let b = z () in let c = z () in let d = z () in {minX=a;maxX=b;minY=c;maxY=d}

let buf = Buffer.create 4096
let verd = Buffer.create 256
let qbuf = Buffer.create 256
let pi n = Buffer.add_string buf (string_of_int n); Buffer.add_char buf ' '
let pz v = pi (int_of_z v)
let pk s = Buffer.add_string buf s; Buffer.add_char buf ' '

(* a state as plain ints: level, bins (x-major) and the two maps *)
type st = { lx : int; ly : int; bins : int list list list; bx : int list; by : int list }
let to_model (s : st) : hstate =
  { lvx = nat_of_int s.lx; lvy = nat_of_int s.ly;
    bcells = List.map (List.map (List.map nat_of_int)) s.bins;
    cbx = List.map z_of_int s.bx; cby = List.map z_of_int s.by }
let of_model (m : hstate) : st =
  { lx = int_of_nat m.lvx; ly = int_of_nat m.lvy;
    bins = List.map (List.map (fun l -> List.sort compare (List.map int_of_nat l))) m.bcells;
    bx = List.map int_of_z m.cbx; by = List.map int_of_z m.cby }
let canon (s : st) = { s with bins = List.map (List.map (List.sort compare)) s.bins }

let get = function Some x -> x | None -> raise (Bad "MODELERR: the model returned None (index/fuel)")

(* geometry of the view (lx, ly), printed as the harness's dumpState does *)
let print_geometry h lx ly probes =
  let g = h.hgrid in
  let lxs = get (level_limits g.limX h.xlim (nat_of_int lx)) in
  let lys = get (level_limits g.limY h.ylim (nat_of_int ly)) in
  let px = get (nth_error h.xpar (nat_of_int lx)) in
  let py = get (nth_error h.ypar (nat_of_int ly)) in
  let caps = get (level_cap h (nat_of_int lx) (nat_of_int ly)) in
  pk "S"; pi lx; pi ly; pi (List.length lxs - 1); pi (List.length lys - 1); pk "|";
  List.iter pz lxs; pk "|"; List.iter pz lys; pk "|";
  List.iter (fun p -> pi (int_of_nat p)) px; pk "|"; List.iter (fun p -> pi (int_of_nat p)) py; pk "|";
  List.iter (List.iter pz) caps; pk "|";
  (lxs, lys)

let print_cells (s : st) =
  List.iter (List.iter (fun l -> pi (List.length l); List.iter pi l)) s.bins; pk "|";
  List.iter pi s.bx; pk "|"; List.iter pi s.by; pk "|"

let print_probes lxs lys probes =
  List.iter (fun c -> pi (int_of_nat (get (find_bin lxs (z_of_int c))))) probes; pk "|";
  List.iter (fun c -> pi (int_of_nat (get (find_bin lys (z_of_int c))))) probes

let print_state h (s : st) probes =
  let (lxs, lys) = print_geometry h s.lx s.ly probes in
  print_cells s; print_probes lxs lys probes

(* parse one "S ..." dump of the C++ trace *)
let parse_state n nprobe : st =
  expect "S";
  let lx = nexti () in let ly = nexti () in let nbx = nexti () in let nby = nexti () in
  let _ = rep (nbx + 1) nexti in let _ = rep (nby + 1) nexti in let _ = rep nbx nexti in let _ = rep nby nexti in
  let _ = rep (nbx * nby) nexti in
  let bins = rep nbx (fun () -> rep nby (fun () -> let k = nexti () in rep k nexti)) in
  let bx = rep n nexti in let by = rep n nexti in
  let _ = rep nprobe nexti in let _ = rep nprobe nexti in
  { lx; ly; bins; bx; by }

let skip_grid () =
  expect "G";
  let nbx = nexti () in let _ = rep (nbx + 1) nexti in
  let nby = nexti () in let _ = rep (nby + 1) nexti in
  let _ = rep (nbx * nby) nexti in let _ = rep 5 nexti in
  expect "L";
  let nl = nexti () in
  for _ = 1 to nl do let k = nexti () in ignore (rep k nexti); ignore (rep (k - 1) nexti) done;
  let nl = nexti () in
  for _ = 1 to nl do let k = nexti () in ignore (rep k nexti); ignore (rep (k - 1) nexti) done

let print_grid (h : hier) =
  let g = h.hgrid in
  let first l = match l with x :: _ -> x | [] -> Z0 in
  let rec last l = match l with [x] -> x | _ :: r -> last r | [] -> Z0 in
  pk "G"; pi (List.length g.limX - 1); List.iter pz g.limX;
  pk "|"; pi (List.length g.limY - 1); List.iter pz g.limY;
  pk "|"; List.iter (List.iter pz) g.gcap;
  pk "|"; pz (total_capacity g); pz (first g.limX); pz (last g.limX); pz (first g.limY); pz (last g.limY);
  pk "| L"; pi (List.length h.xlim);
  List.iter2 (fun l p -> pi (List.length l); List.iter (fun v -> pi (int_of_nat v)) l; List.iter (fun v -> pi (int_of_nat v)) p) h.xlim h.xpar;
  pk "|"; pi (List.length h.ylim);
  List.iter2 (fun l p -> pi (List.length l); List.iter (fun v -> pi (int_of_nat v)) l; List.iter (fun v -> pi (int_of_nat v)) p) h.ylim h.ypar;
  pk "|"

let same (a : st) (b : st) = canon a = canon b
let nbins_x h (s : st) = int_of_nat (get (nbx h (to_model s)))
let nbins_y h (s : st) = int_of_nat (get (nby h (to_model s)))
let flat (s : st) = List.concat (List.concat s.bins)
let permb a b = perm_b (List.map nat_of_int a) (List.map nat_of_int b)
let md a m = ((a mod m) + m) mod m

let show_q (q : q) = let q = qred q in Printf.sprintf "%d %d" (int_of_z q.qnum) (int_of_pos q.qden)

let do_case circuit =
  let (g, d, sizes0) =
    if not circuit then begin
      let bs = z () in let nreg = nexti () in let regs = rep nreg rect in
      let n = nexti () in let d = rep n z in
      (* the harness's shadow circuit for size updates: movable cells of width = demand, height 1 *)
      (make_grid bs regs, d, List.map (fun v -> ((false, v), z_of_int 1)) d)
    end else begin
      let bs = z () in let margin = z () in let nr = nexti () in
      let rows = rep nr (fun () -> let r = rect () in let o = orient_of_int (nexti ()) in { rr = r; ro = o }) in
      let n = nexti () in
      let cells = rep n (fun () -> let x = nexti () in let y = nexti () in let w = nexti () in let hh = nexti () in
                           let o = orient_of_int (nexti ()) in let fx = nexti () <> 0 in let ob = nexti () <> 0 in
                           (x, y, w, hh, o, fx, ob)) in
      let mc = List.map (fun (x, y, w, hh, o, fx, ob) -> ((((((z_of_int x, z_of_int y), z_of_int w), z_of_int hh), o), fx), ob)) cells in
      (* demand pushed by HierarchicalDensityPlacement::fromIspdCircuit: fixed ? 0 : area *)
      let d = List.map (fun (_, _, w, hh, _, fx, _) -> z_of_int (if fx then 0 else w * hh)) cells in
      (grid_of_circuit bs margin rows mc, d, List.map (fun (_, _, w, hh, _, fx, _) -> ((fx, z_of_int w), z_of_int hh)) cells)
    end in
  let sizes = ref sizes0 in
  let n = List.length d in
  let d = ref d in
  let targets = rep n (fun () -> let a = nexti () in let b = nexti () in (a, b)) in
  let _params = rep 11 nexti in
  let nprobe = nexti () in let probes = rep nprobe nexti in
  let nops = nexti () in
  (* ops with their arguments *)
  let ops = rep nops (fun () ->
    let code = nexti () in
    let args = match code with
      | 7 -> rep 4 nexti | 8 -> let k = nexti () in k :: rep (2 * k) nexti | 11 -> rep 5 nexti | 13 -> rep 1 nexti
      | 16 -> let k = nexti () in k :: rep (3 * k) nexti | _ -> [] in
    (code, args)) in
  expect "@";
  let h = match make_hier g with Some h -> h | None -> raise (Bad "MODELERR: setup_hierarchy out of fuel") in
  let nn = nat_of_int n in
  print_grid h; skip_grid ();
  let check_partition (s : st) =
    Buffer.add_string verd (if partition_okb h !d (to_model s) then "ok " else "BAD:partition ") in
  let s0 = of_model (init_state h !d) in
  print_state h s0 probes;
  let cur = ref (parse_state n nprobe) in
  check_partition !cur;
  let extent = match g.limX, g.limY with
    | x0 :: _, y0 :: _ ->
        let rec last l = match l with [x] -> x | _ :: r -> last r | [] -> Z0 in
        int_of_z (last g.limX) > int_of_z x0 && int_of_z (last g.limY) > int_of_z y0
    | _, _ -> false in
  let opi = ref (-1) in
  List.iter (fun (code, args) ->
    incr opi;
    pk "| O"; pi code;
    expect "O"; let c2 = nexti () in if c2 <> code then raise (Bad "trace out of step");
    let pre = !cur in let mpre = to_model pre in
    let cpp_na = (peek () = "NA") in
    if cpp_na then ignore (next ());
    (* reads T (when the op prints one), U (op 12) and the post-state of the C++ trace *)
    let read_post has_t =
      if cpp_na then None else begin
        if has_t then begin expect "T"; let k = nexti () in ignore (rep (2 * k) nexti) end;
        Some (parse_state n nprobe) end in
    (* relational op: echo the C++ post-state when every condition holds *)
    let relational (lx, ly) post conds =
      match List.filter (fun (_, ok) -> not ok) conds with
      | [] -> print_state h post probes
      | (why, _) :: _ ->
          let (lxs, lys) = print_geometry h lx ly probes in ignore lxs; ignore lys; pk ("RELFAIL:" ^ why) in
    let finish post = (match post with Some p -> cur := p; check_partition p | None -> ()) in
    let allbins (s : st) = List.concat (List.mapi (fun i col -> List.mapi (fun j _ -> (i, j)) col) s.bins) in
    let redist_ok (pre : st) (post : st) (t : (int * int) list) =
      let tm = List.map (fun (i, j) -> (nat_of_int i, nat_of_int j)) t in
      let news = List.map (fun (i, j) -> List.map nat_of_int (List.nth (List.nth post.bins i) j)) t in
      match redistribute (to_model pre) tm news with
      | Some m -> same (of_model m) post
      | None -> false in
    let rec coarsen_to (s : hstate) lx ly =   (* exact model coarsening up to the level (lx, ly) *)
      if int_of_nat s.lvx < lx then coarsen_to (get (coarsen_x h nn s)) lx ly
      else if int_of_nat s.lvy < ly then coarsen_to (get (coarsen_y h nn s)) lx ly else s in
    let print_t t = pk "T"; pi (List.length t); List.iter (fun (a, b) -> pi a; pi b) t in
    (match code with
     | 0 | 1 ->
         let post = read_post false in
         (match (if code = 0 then refine_x h nn mpre else refine_y h nn mpre) with
          | None -> pk "NA"
          | Some m ->
              let mm = of_model m in
              (match post with
               | None -> print_state h mm probes
               | Some p ->
                   let ps = get (nth_error (if code = 0 then h.xpar else h.ypar) (if code = 0 then m.lvx else m.lvy)) in
                   let rf = (if code = 0 then refined_from_x else refined_from_y) ps mpre.bcells (to_model p).bcells in
                   relational (mm.lx, mm.ly) p
                     [ ("level", p.lx = mm.lx && p.ly = mm.ly);
                       ("cell-not-in-child-of-former-bin", rf);
                       ("coarsen(post)<>pre", p.lx = mm.lx && p.ly = mm.ly && same (of_model (coarsen_to (to_model p) pre.lx pre.ly)) pre);
                       ("partition", partition_okb h !d (to_model p)) ]));
         finish post
     | 2 | 3 ->
         let post = read_post false in
         (match (if code = 2 then coarsen_x h nn mpre else coarsen_y h nn mpre) with
          | None -> pk "NA"
          | Some m -> print_state h (of_model m) probes);
         finish post
     | 14 ->
         let post = read_post false in
         let rec up s = match coarsen_x h nn s with Some s' -> up s' | None -> (match coarsen_y h nn s with Some s' -> up s' | None -> s) in
         print_state h (of_model (up mpre)) probes; finish post
     | 15 ->
         let post = read_post false in
         (match post with
          | None -> pk "NA?"
          | Some p ->
              relational (0, 0) p
                [ ("level", p.lx = 0 && p.ly = 0);
                  ("coarsen(post)<>pre", p.lx = 0 && p.ly = 0 && same (of_model (coarsen_to (to_model p) pre.lx pre.ly)) pre);
                  ("partition", partition_okb h !d (to_model p)) ]);
         finish post
     | 4 | 5 | 6 ->
         let post = read_post false in
         let applicable = extent && (code <> 6 || pre.lx > 0 || pre.ly > 0) in
         if not applicable then pk "NA" else begin
           let (lx, ly) = match code with
             | 4 -> (pre.lx, pre.ly)
             | 5 -> (0, 0)
             | _ -> ((if pre.lx >= pre.ly then pre.lx - 1 else pre.lx), (if pre.ly >= pre.lx then pre.ly - 1 else pre.ly)) in
           match post with
           | None -> pk "NA-in-C++"
           | Some p ->
               relational (lx, ly) p
                 [ ("level", p.lx = lx && p.ly = ly);
                   ("cells-not-preserved", permb (flat pre) (flat p));
                   ("not-a-Redistribute-of-all-bins", code <> 4 || redist_ok pre p (allbins pre));
                   ("partition", partition_okb h !d (to_model p)) ]
         end;
         finish post
     | 7 | 8 ->
         let post = read_post true in
         let nx = nbins_x h pre and ny = nbins_y h pre in
         let raw = match code, args with
           | 7, [a; b; c; e] -> [ (md a nx, md b ny); (md c nx, md e ny) ]
           | _, _ :: r -> let rec prs = function a :: b :: r -> (md a nx, md b ny) :: prs r | _ -> [] in prs r
           | _, _ -> [] in
         let t = List.fold_left (fun acc x -> if List.mem x acc then acc else acc @ [x]) [] raw in
         print_t t;
         (match post with
          | None -> pk "NA-in-C++"
          | Some p ->
              relational (pre.lx, pre.ly) p
                [ ("level", p.lx = pre.lx && p.ly = pre.ly);
                  ("not-a-Redistribute-of-the-touched-bins", redist_ok pre p t);
                  ("partition", partition_okb h !d (to_model p)) ]);
         finish post
     | 9 | 10 ->
         let post = read_post false in
         if not extent then pk "NA" else begin
           match post with
           | None -> pk "NA-in-C++"
           | Some p ->
               (* row by row (9) / column by column (10): each line of bins is redistributed on its own *)
               let nx = nbins_x h pre and ny = nbins_y h pre in
               let lines = if code = 9 then List.init ny (fun j -> List.init nx (fun i -> (i, j)))
                           else List.init nx (fun i -> List.init ny (fun j -> (i, j))) in
               let ok = p.lx = pre.lx && p.ly = pre.ly &&
                 (let s = ref (Some (to_model pre)) in
                  List.iter (fun t ->
                    match !s with None -> () | Some m ->
                      let tm = List.map (fun (i, j) -> (nat_of_int i, nat_of_int j)) t in
                      let news = List.map (fun (i, j) -> List.map nat_of_int (List.nth (List.nth p.bins i) j)) t in
                      s := redistribute m tm news) lines;
                  match !s with Some m -> same (of_model m) p | None -> false) in
               relational (pre.lx, pre.ly) p
                 [ ("not-a-Redistribute-line-by-line", ok); ("partition", partition_okb h !d (to_model p)) ]
         end;
         finish post
     | 11 ->
         let post = read_post true in
         let nx = nbins_x h pre and ny = nbins_y h pre in
         (match args with
          | [a; b; c; e; r] ->
              let t = [ (md a nx, md b ny); (md c nx, md e ny) ] in
              if List.nth t 0 = List.nth t 1 then pk "NA" else begin
                let tm = List.map (fun (i, j) -> (nat_of_int i, nat_of_int j)) t in
                let all = List.sort compare (List.map int_of_nat (gather mpre.bcells tm)) in
                let k = r mod (List.length all + 1) in
                let f = List.filteri (fun i _ -> i < k) all and sn = List.filteri (fun i _ -> i >= k) all in
                print_t t;
                match redistribute mpre tm [List.map nat_of_int f; List.map nat_of_int sn] with
                | Some m -> print_state h (of_model m) probes
                | None -> pk "MODEL-REJECTS-REDISTRIBUTE"
              end
          | _ -> raise (Bad "op 11 args"));
         finish post
     | 12 ->
         if cpp_na then pk "NA?" else begin
           expect "U";
           let nx = nbins_x h pre and ny = nbins_y h pre in
           let ub = rep nx (fun () -> rep ny (fun () -> let k = nexti () in rep k nexti)) in
           let p = parse_state n nprobe in
           pk "U";
           if List.map (List.map (List.sort compare)) ub = (canon pre).bins
           then List.iter (List.iter (fun l -> pi (List.length l); List.iter pi l)) ub else pk "UFAIL";
           print_state h pre probes;
           (* exact spread coordinates: order = std::sort of (target, position in the bin) *)
           let lxs = get (level_limits g.limX h.xlim (nat_of_int pre.lx)) in
           let lys = get (level_limits g.limY h.ylim (nat_of_int pre.ly)) in
           let qz v = { qnum = v; qden = XH } in
           let dem c = qz (List.nth !d c) in
           let spread l which lo hi =
             let keyed = List.mapi (fun k c -> ((let (a, b) = List.nth targets c in if which then a else b), k, c)) l in
             let sorted = List.sort compare keyed in
             spread_cells (List.map (fun (_, _, c) -> (nat_of_int c, dem c)) sorted) (qz lo) (qz hi) in
           List.iteri (fun i col -> List.iteri (fun j l ->
             let sx = spread l true (List.nth lxs i) (List.nth lxs (i + 1)) in
             let sy = spread l false (List.nth lys j) (List.nth lys (j + 1)) in
             List.iter2 (fun (c, x) (c', y) ->
               Buffer.add_string qbuf (Printf.sprintf "%d %d %s %s " !opi (int_of_nat c) (show_q x) (show_q y)))
               (List.sort compare sx) (List.sort compare sy)) col) ub;
           cur := p; check_partition p
         end
     | 13 ->
         let post = read_post false in
         (match args with [k] -> d := List.map (fun v -> z_of_int (k * int_of_z v)) !d | _ -> ());
         print_state h pre probes; finish post
     | 16 ->
         (* size update through updateCellDemand(circuit): DensityUpdate.ustep on (demands, allocation) *)
         let _acc_cpp = next () in expect "D"; let dcpp = rep n z in
         let post = read_post false in
         (match args with
          | _ :: r ->
              let rec upd sz = function
                | c :: w :: hh :: r ->
                    upd (if n > 0 then List.mapi (fun i (((fx, _), _) as old) ->
                                         if i = md c n then ((fx, z_of_int w), z_of_int hh) else old) sz else sz) r
                | _ -> sz in
              sizes := upd !sizes r
          | [] -> ());
         let dnew = circuit_demands !sizes in
         (match ustep h (!d, mpre) (Update dnew) with
          | Some (d2, m2) ->
              pk (if same_zero_status !d dnew then "A" else "R"); pk "D"; List.iter pz d2;
              print_state h (of_model m2) probes
          | None -> pk "MODELERR");
         d := dcpp;   (* as for the allocation, the model goes on from the C++ state (its demands) *)
         finish post
     | _ -> pk "NA"; ignore (read_post false))) ops

let do_sp () =
  let n = nexti () in let d = rep n z in
  let k = nexti () in let order = rep k nexti in
  let target = nexti () in let c1 = z () in let c2 = z () in
  let dem = List.map (fun c -> List.nth d c) order in
  match find_constrained_split dem (nat_of_int target) c1 c2 with
  | Some r -> Buffer.add_string buf (string_of_int (int_of_nat r))
  | None -> Buffer.add_string buf "MODELERR"

let () =
  try
    while true do
      let line = input_line stdin in
      Buffer.clear buf; Buffer.clear verd; Buffer.clear qbuf;
      (match Str.split (Str.regexp "[ \t]+") line with
       | [] -> print_newline ()
       | tag :: rest ->
           toks := rest;
           (try
              (match tag with
               | "HR" -> do_case false
               | "HC" -> do_case true
               | "SP" -> do_sp ()
               | _ -> Buffer.add_string buf "?")
            with Short -> Buffer.add_string buf " SHORT"
               | Bad m -> Buffer.add_string buf (" ERROR " ^ m)
               | Failure m -> Buffer.add_string buf (" ERROR failure " ^ m)
               | Invalid_argument m -> Buffer.add_string buf (" ERROR invalid " ^ m)
               | Not_found -> Buffer.add_string buf " ERROR notfound");
           if tag = "SP" then print_endline (Buffer.contents buf)
           else Printf.printf "%s # %s ## %s\n" (Buffer.contents buf) (Buffer.contents verd) (Buffer.contents qbuf))
    done
  with End_of_file -> ()
