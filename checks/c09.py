"""C09 -- wirelength geometrically exact and incrementally consistent.
Proof: coq/Properties_C09.v.  Tie: exact integer equality of Circuit::pinXOffset/pinYOffset/
placedWidth/placedHeight (exhaustive small + random), Circuit::hpwl and IncrNetModel
(value after build and after every update, net topology, cell->net CSR) with the extracted
model; independent from-scratch oracle (DEF transforms as compositions) on the C++ output."""
import json
from tools import common
from checks import circuit_sequences

LEVEL = "proof"


def R90(g):
    w, h, x, y = g
    return (h, w, h - y, x)


def MX(g):
    w, h, x, y = g
    return (w, h, x, h - y)


def MY(g):
    w, h, x, y = g
    return (w, h, w - x, y)


def transform(o, g):
    # N S W E FN FS FW FE = 0..7 (DEF: N, R180, R90, R270, MY, MX, MX90, MY90)
    if o == 0: return g
    if o == 1: return R90(R90(g))
    if o == 2: return R90(g)
    if o == 3: return R90(R90(R90(g)))
    if o == 4: return MY(g)
    if o == 5: return MX(g)
    if o == 6: return R90(MX(g))
    if o == 7: return R90(MY(g))
    raise ValueError(o)


def parse_circuit(v, p):
    nc = v[p]; p += 1
    cells = []
    for _ in range(nc):
        cells.append(tuple(v[p:p + 5])); p += 5
    nn = v[p]; p += 1
    nets = []
    for _ in range(nn):
        k = v[p]; p += 1
        pins = []
        for _ in range(k):
            pins.append(tuple(v[p:p + 3])); p += 3
        nets.append(pins)
    return cells, nets, p


def pin_pos(cells, pin, pos_override=None):
    c, xo, yo = pin
    x, y, w, h, o = cells[c]
    _, _, tx, ty = transform(o, (w, h, xo, yo))
    if pos_override is not None:
        x, y = pos_override.get(c, (x, y))
    return x + tx, y + ty


def scratch_hpwl(cells, nets, dirs=(0, 1), over=None):
    tot = 0
    for net in nets:
        if not net:
            continue
        ps = [pin_pos(cells, p, over) for p in net]
        for d in dirs:
            tot += max(q[d] for q in ps) - min(q[d] for q in ps)
    return tot


def oracle(line, il):
    """the statement of C09 evaluated from scratch on the implementation's output; returns None or a reason"""
    v = [int(t) for t in line.split()[1:]]
    tag = line[:2]
    try:
        if tag == "PO":
            o, w, h, px, py = v
            pw, ph, tx, ty = transform(o, (w, h, px, py))
            got = [int(t) for t in il.split()]
            if got != [tx, ty, pw, ph]:
                return "pin offset / placed size %s differ from the DEF transform %s" % (got, [tx, ty, pw, ph])
        elif tag == "HP":
            cells, nets, _ = parse_circuit(v, 0)
            want = scratch_hpwl(cells, nets)
            if int(il) != want:
                return "hpwl() = %s, bounding-box sum of the transformed pins = %d" % (il, want)
        else:
            d = v[0]
            cells, nets, p = parse_circuit(v, 1)
            ns = v[p]; sub = v[p + 1:p + 1 + ns]; p += 1 + ns
            nu = v[p]; ups = [(v[p + 1 + 2 * i], v[p + 2 + 2 * i]) for i in range(nu)]
            if " # CHECKFAIL" in il:
                return "IncrNetModel::check() failed: " + il.split(" # CHECKFAIL")[1]
            vals = [int(t) for t in il.split("|")[0].split()]
            over = {}
            want = [scratch_hpwl(cells, nets, (d,), over)]
            for lc, pos in ups:
                c = sub[lc]
                x, y = over.get(c, (cells[c][0], cells[c][1]))
                over[c] = (pos, y) if d == 0 else (x, pos)
                want.append(scratch_hpwl(cells, nets, (d,), over))
            if vals != want:
                return "incremental values %s differ from the from-scratch values %s" % (vals, want)
    except (ValueError, IndexError) as e:
        return "no usable result (%s): %s" % (e, il[:80])
    return None


def do_values(ctx):
    """direct-drive run of DetailedPlacer (checks/dopt_common.py, cached per process; same run as C05/C02 use): its value_fail list =
    states (after construction / after an op) where DetailedPlacer::value() differs from the from-scratch wirelength"""
    from checks import dopt_common
    return dopt_common.run_dopt(ctx, 3000 if ctx.quick else 60000, ctx.seed + 40)


def do_states(case, out):
    """(op index or -1, value(), HP case of the placement held) for every state of one DO run"""
    from checks import dopt_common, legal_common
    ctoks, ntoks = dopt_common.split_do(case)
    cells, _ = legal_common.cells_of(ctoks)
    segs = [s.strip() for s in out.split(" / ")]
    if not segs or not segs[0].startswith("INIT"):
        return []
    h = segs[0][4:].split(";")
    pl0 = [int(x) for x in h[1].split()]
    frozen = [pl0[3 * k + 2] for k in range(len(cells))]
    states = [(-1, int(h[0]), "HP " + dopt_common.hp_case(cells, pl0, frozen, ntoks))]
    k = -1
    for s in segs[1:]:
        if s.startswith("L "):
            continue
        k += 1
        parts = [x.strip() for x in s.split(";")]
        if s == "SKIP" or len(parts) < 4:
            continue
        try:
            v, pl = (int(parts[2]), parts[3]) if parts[0].startswith("B") else (int(parts[1]), parts[2])
            states.append((k, v, "HP " + dopt_common.hp_case(cells, [int(x) for x in pl.split()], frozen, ntoks)))
        except ValueError:
            # an op segment that cannot be read is an ERROR of the replayed run (reported by replay), not the end of the run
            states.append((k, None, "UNREADABLE op segment: " + s[:200]))
    return states


def run(ctx):
    proof_ok, proof = common.proof_status_all(ctx, "C09", ["gaps2_C09"])
    harness = common.build_harness("hpwl")
    driver = common.build_driver()
    lines = common.corpus("C09", ("PO ", "HP ", "IN "))
    po = common.harness_gen(harness, ["po"])
    lines += po
    nrand = 30000 if ctx.quick else 1500000
    seeds = [ctx.seed] if ctx.quick else [ctx.seed, ctx.seed + 1000, ctx.seed + 2000]
    for s in seeds:
        lines += common.harness_gen(harness, ["rand", s, nrand // len(seeds)])
    # big-offset stream (checks/stress_streams.py): HP / IN circuits TRANSLATED (cells and update positions) to 2^24 + odd, 2^25 + k,
    # 2^26 + k, +-(2^30 - small) in x and / or y: every pin coordinate fits an int, most of them do not fit a binary32 float
    from checks import stress_streams
    big, big_classes = stress_streams.big_hpwl_lines(ctx.seed, common.harness_gen(harness, ["rand", ctx.seed + 977, nrand // 5]), nrand // 10)
    lines += big
    impl, model, errs = common.run_both([harness, "run"], [driver], lines)
    mism, ofail = [], []
    kinds = {"PO": 0, "HP": 0, "IN": 0}
    nontriv = set()
    subsets = 0
    for l, i, m in zip(lines, impl, model):
        kinds[l[:2]] += 1
        why = oracle(l, i)
        if why:
            ofail.append((l, i, why))
        mm = m.split(" | ")[0] if l.startswith("PO") else m
        icmp = i.split(" # ")[0]
        if icmp.strip() != mm.strip():
            mism.append((l, i, m))
        if l.startswith("PO"):
            # the proved link code = DEF inside the model's own output
            parts = m.split(" | ")
            if len(parts) == 2:
                a = parts[0].split(); b = parts[1].split()
                if b != [a[2], a[3], a[0], a[1]]:
                    mism.append((l, i, "model: code offsets and def_transform disagree: " + m))
            if l.split()[1] != "0":
                nontriv.add(l)
        elif l.startswith("IN"):
            if "|" in i and i.split("|")[0].split()[:1] != ["0"]:
                nontriv.add(l)
        elif i.strip() not in ("0", ""):
            nontriv.add(l)
    # sequence stream (checks/circuit_sequences.py, harness/circseq.cpp): ONE circuit edited by the public setters (setCellX/Y/Width/
    # Height/Orientation, setSolution, addNet, setNets, copies ...) and hpwl() asked after every step; each answer is judged as the
    # one-shot HP case of the public state at that moment (a wirelength kept between calls that goes stale shows here)
    seeds_q = [ctx.seed] if ctx.quick else [ctx.seed, ctx.seed + 1000, ctx.seed + 2000]
    recs = []
    for sd in seeds_q:
        recs += circuit_sequences.run_sequences(sd, (1500 if ctx.quick else 60000) // len(seeds_q))[0]
    seqhp = circuit_sequences.hpwl_answers(recs)
    hl = sorted(set(h for h, _ in seqhp))
    hi, hm, _ = common.run_both([harness, "run"], [driver], hl) if hl else ([], [], None)
    fresh = dict(zip(hl, zip(hi, hm)))
    seq_bad, seq_mism = [], []
    for (h, v), r in seqhp.items():
        why = oracle(h, str(v))
        d = {"case": r.case, "format": "see harness/circseq.cpp header", "after_step": r.step,
             "steps_so_far": circuit_sequences.steps_text(r.case, r.step), "public_state_at_that_moment": h,
             "implementation_output": str(v), "fresh_circuit_with_the_same_state": fresh[h][0], "model_for_that_state": fresh[h][1]}
        if why:
            seq_bad.append((why, d))
        elif str(v) != fresh[h][1].strip():
            seq_mism.append(d)
        if v != 0:
            nontriv.add(h)
    for why, d in seq_bad[:3]:
        ctx.violation("hpwl() of /repo after a sequence of public edits violates C09 for the circuit's state at that moment: " + why, dict(d, why=why))
    if seq_mism and not seq_bad and not ofail:
        ctx.violation("correspondence Hpwl.v <-> Circuit::hpwl broken inside edit sequences (%d answers differ from the model of the state "
                      "they were given for); no input violating C09 found" % len(seq_mism),
                      dict(seq_mism[0], broken="correspondence of coq/Hpwl.v (theorems of Properties_C09.v), sequence stream"), found_input=False)
    # the incrementally maintained wirelength INSIDE detailed placement: DetailedPlacer driven pass by pass and move by move
    # (harness/dopt.cpp; swaps, inserts, shifts, reordering with maxNbCells >= 2, single best-move calls); after construction and
    # after every op value() (= xtopo_.value() + ytopo_.value()) must be the from-scratch wirelength (model tag HP, pin offsets as
    # at construction) of the placement the placer holds and exports
    dres = do_values(ctx)
    for l, what, why in dres["value_fail"][:3]:
        ctx.violation("the wirelength maintained incrementally by detailed placement violates C09: " + why + " -- " + what,
                      {"case": l, "format": "see harness/dopt.cpp header (DO)", "implementation_output": what, "why": why})
    ofail_total = len(ofail) + len(seq_bad) + len(dres["value_fail"])
    for l, i, why in ofail[:3]:
        ctx.violation("wirelength computed by /repo violates C09: " + why,
                      {"case": l, "format": "see harness/hpwl.cpp header", "implementation_output": i, "why": why})
    if not ofail_total:
        if mism:
            ctx.violation("correspondence Hpwl.v <-> coloquinte.cpp/incr_net_model.cpp broken (%d of %d cases differ); no input violating C09 found"
                          % (len(mism), len(lines)),
                          {"broken": "correspondence of coq/Hpwl.v (theorems of Properties_C09.v)",
                           "first_difference": {"case": mism[0][0], "implementation": mism[0][1], "model": mism[0][2]}}, found_input=False)
        if not proof_ok:
            ctx.violation("proof obligations of Properties_C09.v do not check", {"broken": "Properties_C09.v", "detail": proof}, found_input=False)
    cov = dict(proof)
    do_judged = dres["ops"] + dres["runs"] - dres["noleg"] - len(dres["crash"])
    cov.update({"trusted_base": common.TRUSTED_BASE,
                "evaluations": len(lines) + len(seqhp) + do_judged, "distinct_nontrivial": len(nontriv),
                "detailed_placer_value_stream": {"runs": dres["runs"], "not_legalizable": dres["noleg"], "ops": dres["ops"], "op_kinds": dres["op_kinds"], "stress_streams": dres.get("stress_streams", {}),
                                                 "runs_where_the_placement_changed": dres["nontrivial"], "states_judged": do_judged,
                                                 "states_where_value_differs_from_scratch": len(dres["value_fail"]),
                                                 "runs_not_judged_crash": len(dres["crash"]), "ops_that_threw": len(dres["throw_fail"]),
                                                 "not_judged_note": "a DO run that crashed or an op that threw has no value() to judge here; both are reported as violations by C05/C02 (same cached run)",
                                                 "what": "DetailedPlacer (harness/dopt.cpp) built on a legalized random circuit with nets and driven by 1-8 "
                                                         "ops: runSwaps/runInserts/runShifts/runReordering (maxNbCells >= 2 included)/runShiftsOnCells/"
                                                         "runReorderingOnCells/bestSwap/bestInsert/bestSwapUpdate with arbitrary arguments; after "
                                                         "construction and after every op value() is compared with the model's from-scratch wirelength "
                                                         "(tag HP) of the placement the placer exports, pin offsets as at construction"},
                "sequence_stream": {"hpwl_answers_judged": len(seqhp), "distinct_states": len(hl), "answers_differing_from_model": len(seq_mism),
                                    "answers_violating_statement": len(seq_bad),
                                    "what": "one Circuit (1-6 cells, 0-3 nets + added/removed nets, scale up to 2^18) edited by 3-12 public setter "
                                            "calls in random order (harness/circseq.cpp), hpwl() after every step, twice, and on copies; judged as "
                                            "the HP case of the public state at that moment (model, from-scratch oracle, fresh circuit)"},
                "rule": "PO exhaustive: 8 orientations x w,h in 0..3 x px in -1..w+1 x py in -1..h+1 (%d cases) + random up to 2^20; HP/IN random circuits "
                        "(1-8 cells, all orientations, sizes 0..6 x scale up to 2^18, nets of 0..6 pins with repeated cells, pins inside and outside the outline), "
                        "IN: x or y topology over all cells or a random duplicate-free subset in random order, 0-8 position updates. non-trivial = "
                        "orientation other than N (PO) / non-zero wirelength (HP, IN); distinct = distinct case lines. DO (detailed_placer_value_stream): "
                        "DetailedPlacer::value() after construction and after every directly driven optimiser op (swap/insert/shift/reordering passes, "
                        "single best moves) against the from-scratch wirelength of the placement it holds. BIG OFFSET (checks/stress_streams.py): 10 %% more HP / IN cases "
                        "are cases of the same generator TRANSLATED as a whole (cells and the absolute update positions) by 2^24 + odd, 2^25 + k, 2^26 + k, +-(2^30 - small), "
                        "-(2^24 + odd) in x and / or y, all coordinates strictly inside +-2^30 (pin coordinates fit an int, most do not fit a binary32 float), one in four of them an "
                        "IN-BOX case instead (positions just below 2^23, every raw pin offset moved by ~2^24 - small: inside the box of c09_incremental_exact_machine); 10 %% of the "
                        "DO runs are circuits translated the same way (no shift op there), and >= 6 DO runs drive reordering windows of 6..8 cells" % len(po),
                "exhaustive": True, "kinds": kinds,
                "big_offset_stream": {"cases": len(big), "classes": big_classes, "IN_cases": sum(1 for l in big if l.startswith("IN")),
                                      "what": "HP / IN cases of the random generator translated as a whole (every cell, and the absolute positions of the IN "
                                              "updates) by 2^24 + odd, 2^25 + k (k not a multiple of 4), 2^26 + k, +-(2^30 - small), -(2^24 + odd) in x and / or y; all "
                                              "coordinates strictly inside +-2^30; one case in four is an in-box case instead (cell / update positions just below 2^23, every raw pin offset "
                                              "moved by ~2^24 - small: the box of c09_incremental_exact_machine, pin coordinates ~1.5 * 2^24); judged like every other case (model, from-scratch oracle); the DO stream "
                                              "carries translated circuits too (detailed_placer_value_stream.stress_streams)"},
                "samples": [po[len(po) // 2], lines[len(po) + 1], lines[-1]],
                "model_vs_impl_differences": len(mism) + len(seq_mism), "impl_outputs_violating_statement": ofail_total,
                "clauses": {"pin offsets = DEF transforms": "proved, all orientations/sizes/offsets",
                            "hpwl = bbox sum": "proved over Z under `bounded` (pin positions within int); the int arithmetic of x+offset, maxX-minX in the C++ is not in the theorem",
                            "incremental value exact after any update history": "proved over Z for the model built from any net list (no range hypothesis: int overflow of newValue-oldValue / extents is outside the theorem, see C07 hpwl_dom)",
                            "builder (fixed-pin folding, dropped nets)": "folding proved exact (c09_subset_folding_exact, c09_subset_value_exact, c09_models_add_up_to_hpwl); compared exactly on every case; from-scratch oracle on every case",
                            "cell->net CSR (counting sort of finalize)": "specified directly by cell_net_ids, tied by comparison only",
                            "what detailed placement optimises": "theorems for IncrNetModel only; that DetailedPlacer calls updateCellPos for every move is tied (DO stream), not proved"}})
    return ctx.finish(LEVEL, cov, ["all theorems are over unbounded Z; `bounded` constrains the Z-computed pin positions only: extents and x+offset must also fit in int for the C++ to be defined (C07's hpwl_dom)",
                                   "subsets are duplicate-free (the code asserts it); DO crashes and throw_fail are not judged by C09"])


def replay(ctx, path):
    r = json.load(open(path))["replay"]
    case = r.get("case") or r["first_difference"]["case"]
    harness = common.build_harness("hpwl")
    driver = common.build_driver()
    if case.startswith("DO "):
        out, _, _ = common.run_both([common.build_harness("dopt"), "run"], None, [case])
        states = do_states(case, out[0])
        print("case :", case)
        bad = 0 if states else 1
        for k, v, h in states:
            if v is None:
                bad = 1
                print("after op %d: %s   <-- NOT JUDGED (error)" % (k, h))
        states = [st for st in states if st[1] is not None]
        model, _, _ = common.run_both([driver], None, [h for _, _, h in states])
        for (k, v, h), m in zip(states, model):
            diff = m.strip() != str(v)
            bad |= diff
            print("%s: value() = %d, from-scratch wirelength of the placement held = %s%s" % ("after construction" if k < 0 else "after op %d" % k, v, m.strip(), "   <-- DIFFERENT" if diff else ""))
        return bad
    if case.startswith("SQ "):
        bad = 0
        print("case :", case)
        for (h, v), r in circuit_sequences.hpwl_answers(circuit_sequences.run_sequences(0, 0, [case])[0]).items():
            _, model, _ = common.run_both([harness, "run"], [driver], [h])
            why = oracle(h, str(v))
            if why or str(v) != model[0].strip():
                bad = 1
                print("after step %d: state %s\n  hpwl() = %s, model %s, oracle: %s" % (r.step, h, v, model[0], why))
        return bad
    impl, model, _ = common.run_both([harness, "run"], [driver], [case])
    print("case :", case)
    print("impl :", impl[0])
    print("model:", model[0])
    why = oracle(case, impl[0])
    print("oracle:", why)
    # same comparison as run(): PO compares the code part of the model line, HP / IN the whole model line
    mm = model[0].split(" | ")[0] if case.startswith("PO") else model[0]
    differ = impl[0].split(" # ")[0].strip() != mm.strip()
    print("model/implementation differ:", differ)
    return 1 if (why or differ) else 0
