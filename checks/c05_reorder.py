"""C05 / C02, tie of the CLOSED row-reordering pass (coq/Reorder.v: regions of the window, region choice with the width
and polarity tests, every arrangement `while (std::next_permutation(...))` visits, packing, strict-improvement test,
write-back) against RowReordering / DetailedPlacer::runReorderingOnCells of /repo, EXACT.

Cases: the circuits of `dopt gen rand` (harness/dopt.cpp, unchanged) with the op list REPLACED by a list made here
(seeded): mostly ops 8 (runReorderingOnCells on 1..4 distinct optimised cells: random ones, or a run of consecutive
indices) interleaved with best-move ops 0 / 1 / 2 that change the structure in between.  The harness runs the real
DetailedPlacer; ocaml/driver_reorder.ml (tag PR) runs from_circuit + init_models, DetailedValue.pbest for the best-move
ops and Reorder.run for every op 8.  Compared after construction and after every op: decision (best-move ops),
DetailedPlacer::value() and the exported circuit (x, y, orientation of every cell).  When the harness prints them (it
does once /repo carries the counting hook: `coloquinte_verif_reorder_*`), also the number of leaves evaluated and
xtopo_.value() / ytopo_.value() separately.

Library: run_reorder(ctx, count, seed) -> dict.  Stand-alone: python3 -m checks.c05_reorder [seed] [count]."""
import random
import sys
from tools import common
from checks import legal_common as lc
from checks import dopt_common as do


class _Ctx:
    prop = "C05"


def make_ops(rng):
    """op list: 2..7 ops; 70 % op 8, the rest best-move ops"""
    ops = []
    n = rng.randint(2, 7)
    for _ in range(n):
        t = rng.random()
        if t < 0.70:
            k = rng.randint(1, 4)
            if rng.random() < 0.5:
                c0 = rng.randint(0, 40)
                cells = [c0 + j for j in range(k)]          # neighbours in index (often neighbours in a row)
                if rng.random() < 0.3:
                    rng.shuffle(cells)
            else:
                cells = [rng.randint(0, 40) for _ in range(k)]
            ops.append([8, k] + cells)
        elif t < 0.80:
            k = rng.randint(1, 3)
            ops.append([0, rng.randint(0, 40), k] + [rng.randint(0, 40) for _ in range(k)])
        elif t < 0.90:
            k = rng.randint(1, 3)
            ops.append([1, rng.randint(0, 40), rng.randint(0, 10), k] + [rng.randint(-1, 40) for _ in range(k)])
        else:
            ops.append([2, rng.randint(0, 40), rng.randint(0, 40), rng.randint(0, 4)])
    return ops


def cases(ctx, count, seed, modes=(0, 16)):
    harness = common.build_harness("dopt")
    rng = random.Random(1000003 * seed + 17)
    lines = []
    for m in modes:
        for l in common.harness_gen(harness, ["rand", seed + 70 + m, count // len(modes), m]):
            ctoks, ntoks = do.split_do(l)
            if len(ntoks) > 400:        # the 2^31 streams (hundreds of nets) are the business of checks/c05.py
                continue
            ops = make_ops(rng)
            flat = [str(x) for o in ops for x in o]
            lines.append("DO " + " ".join(ctoks) + " " + " ".join(ntoks) + " " + str(len(ops)) + " " + " ".join(flat))
    return harness, lines


def parse_p(seg):
    """C++ op-8 segment 'P [n nreg xv yv] ; value ; placement ; check' -> (extra or None, value, placement)"""
    parts = [x.strip() for x in seg.split(";")]
    head = parts[0].split()[1:]
    return (head if head else None), parts[1], " ".join(parts[2].split())


def run_reorder(ctx, count, seed, modes=(0, 16)):
    ctx = ctx if ctx is not None else _Ctx()
    harness, lines = cases(ctx, count, seed, modes)
    driver = common.build_driver("reorder")
    impl, _, _ = common.run_both([harness, "run"], None, lines, chunk=300, timeout=300)
    res = {"runs": 0, "reorder_ops": 0, "reorder_ops_2plus_cells": 0, "changed_placement": 0, "multi_region": 0,
           "leaves_compared": 0, "leaves_total": 0, "best_ops": 0, "windows_no_leaf": 0,
           "mismatch": [], "driver_fail": [], "throws": [], "samples": []}
    pinp, pmap = [], []
    for i, (l, out) in enumerate(zip(lines, impl)):
        segs = [x.strip() for x in out.split(" / ")]
        if not segs or not segs[0].startswith("INIT"):
            continue
        ctoks, ntoks = do.split_do(l)
        t = l.split()[1:]
        ops = t[len(ctoks) + len(ntoks):]
        pl0 = [int(x) for x in segs[0][4:].split(";")[1].split()]
        pinp.append("PR " + " ".join(lc.with_placement(ctoks, pl0)) + " " + " ".join(do.nets_for_hp(ntoks)) + " " + " ".join(ops))
        pmap.append((i, [x for x in segs if not x.startswith("L ")]))
    pout, _, _ = common.run_both([driver], None, pinp, chunk=200, timeout=600)
    norm = lambda x: " ".join(x.split())
    for (i, segs), o in zip(pmap, pout):
        msegs = [x.strip() for x in o.split(" / ")]
        if not msegs or not msegs[0].startswith("INIT"):
            res["driver_fail"].append((lines[i], o[:200], "the model did not build a state for a circuit the C++ accepted"))
            continue
        res["runs"] += 1
        if norm(msegs[0]) != norm(segs[0]):
            res["mismatch"].append((lines[i], segs[0][:300], msegs[0][:300], "state after construction"))
            continue
        prev = norm(segs[0].split(";")[1])
        for k, (a, m) in enumerate(zip(segs[1:], msegs[1:])):
            if a == "SKIP" or m == "SKIP":
                if a != m:
                    res["mismatch"].append((lines[i], a[:300], m[:300], "op %d" % k))
                    break
                continue
            if a.startswith("THROW") or m.startswith("P THROW") or m == "STOP":
                if a.startswith("THROW") and m.startswith("P THROW"):
                    res["throws"].append((lines[i], a[:200], m[:200], "op %d: both sides throw" % k))
                else:
                    res["mismatch"].append((lines[i], a[:300], m[:300], "op %d: one side stops / throws" % k))
                break
            if a.startswith("B ") and m.startswith("B "):
                pa = [x.strip() for x in a.split(";")]; pm = [x.strip() for x in m.split(";")]
                res["best_ops"] += 1
                got = (pa[0].split()[1], pa[2], norm(pa[3])); want = (pm[0].split()[1], pm[1], norm(pm[2]))
                if got != want:
                    res["mismatch"].append((lines[i], "found %s value %s placement %s" % got, "found %s value %s placement %s" % want, "best-move op %d" % k))
                    break
                prev = got[2]
                continue
            if a.startswith("P") and m.startswith("P "):
                ca, va, pla = parse_p(a)
                cm, vm, plm = parse_p(m)
                res["reorder_ops"] += 1
                nleaves, nreg = int(cm[0]), int(cm[1])
                res["leaves_total"] += nleaves
                res["windows_no_leaf"] += nleaves == 0
                res["multi_region"] += nreg >= 2
                if (va, pla) != (vm, plm):
                    res["mismatch"].append((lines[i], "value %s placement %s" % (va, pla), "value %s placement %s" % (vm, plm), "runReorderingOnCells op %d" % k))
                    break
                if ca is not None:
                    res["leaves_compared"] += 1
                    if ca != cm:
                        res["mismatch"].append((lines[i], "leaves regions xvalue yvalue = " + " ".join(ca), "leaves regions xvalue yvalue = " + " ".join(cm), "runReorderingOnCells op %d" % k))
                        break
                if pla != prev:
                    res["changed_placement"] += 1
                    if len(res["samples"]) < 5:
                        res["samples"].append(lines[i][:400])
                prev = pla
                continue
            res["mismatch"].append((lines[i], a[:300], m[:300], "op %d: the two sides ran different kinds of op" % k))
            break
    return res


def summary(res):
    return {k: (len(v) if isinstance(v, list) else v) for k, v in res.items() if k != "samples"}


if __name__ == "__main__":
    seed = int(sys.argv[1]) if len(sys.argv) > 1 else 1
    count = int(sys.argv[2]) if len(sys.argv) > 2 else 600
    r = run_reorder(None, count, seed)
    print(summary(r))
    for x in (r["mismatch"] + r["driver_fail"])[:3]:
        print("FAIL (closed reordering model differs from the C++):", " | ".join(str(y)[:500] for y in x[1:]), "|", x[0][:600])
    sys.exit(1 if r["mismatch"] or r["driver_fail"] else 0)
