"""C05 / C02, tie of the CLOSED row-reordering pass (coq/Reorder.v: regions of the window, region choice with the width
and polarity tests, every arrangement `while (std::next_permutation(...))` visits, packing, strict-improvement test,
write-back) against RowReordering / DetailedPlacer::runReorderingOnCells of /repo, EXACT.

Cases: the circuits of `dopt gen rand` (harness/dopt.cpp, unchanged) with the op list REPLACED by a list made here
(seeded): mostly ops 8 (runReorderingOnCells on 1..4 distinct optimised cells: random ones, or a run of consecutive
indices) interleaved with best-move ops 0 / 1 / 2 that change the structure in between.  The harness runs the real
DetailedPlacer; ocaml/driver_reorder.ml (tag PR) runs from_circuit + init_models, DetailedValue.pbest for the best-move
ops and Reorder.run for every op 8.  Compared after construction and after every op: decision (best-move ops),
DetailedPlacer::value() and the exported circuit (x, y, orientation of every cell).  When the harness prints them (it
does once /repo carries the counting hook: `coloquinte_verif_reorder_*`), also the number of leaves evaluated and
xtopo_.value() / ytopo_.value() separately.

Library: run_reorder(ctx, count, seed) -> dict.  Stand-alone: python3 -m checks.c05_reorder [seed] [count]."""
import random
import sys
from tools import common
from checks import legal_common as lc
from checks import dopt_common as do


class _Ctx:
    prop = "C05"


def window(rng, rows, opt):
    """a window (list of cell ids) aimed at the case splits of the enumeration"""
    nonempty = [r for r in rows if r]
    if not nonempty:
        return []
    def run(minlen, maxlen):
        r = rng.choice(nonempty)
        k = rng.randint(minlen, min(maxlen, max(minlen, len(r))))
        k = min(k, len(r))
        a = rng.randint(0, len(r) - k)
        return r[a:a + k], r
    t = rng.random()
    if t < 0.40:                       # one run of 2..5 consecutive cells of a row
        w, _ = run(2, 5)
    elif t < 0.60:                     # two runs in two rows (2+2, 2+3, ...): cells may change row
        w1, r1 = run(2, 3)
        others = [r for r in nonempty if r is not r1]
        if others:
            r2 = rng.choice(others); k = min(len(r2), rng.randint(1, 3)); a = rng.randint(0, len(r2) - k)
            w = w1 + r2[a:a + k]
        else:
            w = w1
    elif t < 0.72:                     # two separate runs of the same row (two regions in one row)
        r = rng.choice(nonempty)
        if len(r) >= 5:
            a = rng.randint(0, len(r) - 5); w = r[a:a + 2] + r[a + 3:a + 5]
        else:
            w = r[:2]
    elif t < 0.82:                     # a whole row (both ends of the region are the row's)
        r = rng.choice(nonempty); w = r[:5]
    else:                              # arbitrary cells
        w = [rng.choice(opt) for _ in range(rng.randint(1, 4))]
    w = list(dict.fromkeys(w))
    if rng.random() < 0.5:
        rng.shuffle(w)                 # the order of the window decides the order of the regions
    return w


def make_ops(rng, rows, opt):
    """op list: 2..6 ops; 75 % op 8 on a crafted window, the rest best-move ops that change the structure in between"""
    ops = []
    idx = {c: i for i, c in enumerate(opt)}
    for _ in range(rng.randint(2, 6)):
        t = rng.random()
        if t < 0.75 and opt:
            w = window(rng, rows, opt)
            if not w:
                continue
            ops.append([8, len(w)] + [idx[c] + len(opt) * rng.randint(0, 2) for c in w])
        elif t < 0.85:
            k = rng.randint(1, 3)
            ops.append([0, rng.randint(0, 40), k] + [rng.randint(0, 40) for _ in range(k)])
        elif t < 0.93:
            k = rng.randint(1, 3)
            ops.append([1, rng.randint(0, 40), rng.randint(0, 10), k] + [rng.randint(-1, 40) for _ in range(k)])
        else:
            ops.append([2, rng.randint(0, 40), rng.randint(0, 40), rng.randint(0, 4)])
    return ops


def cases(ctx, count, seed, modes=(0, 16)):
    """circuits of `dopt gen rand`; phase 1: legalize them (harness, no op) and read the row structure off the model (tag PS);
    phase 2: op lists with windows taken from that structure"""
    harness = common.build_harness("dopt")
    driver = common.build_driver("reorder")
    rng = random.Random(1000003 * seed + 17)
    base = []
    for m in modes:
        for l in common.harness_gen(harness, ["rand", seed + 70 + m, count // len(modes), m]):
            ctoks, ntoks = do.split_do(l)
            if len(ntoks) > 400:        # the 2^31 streams (hundreds of nets) are the business of checks/c05.py
                continue
            base.append((ctoks, ntoks))
    probe = ["DO " + " ".join(c) + " " + " ".join(n) + " 0" for c, n in base]
    pout, _, _ = common.run_both([harness, "run"], None, probe, chunk=300, timeout=300)
    sinp, keep = [], []
    for (ctoks, ntoks), out in zip(base, pout):
        if not out.startswith("INIT"):
            continue
        pl0 = [int(x) for x in out[4:].split(";")[1].split()]
        sinp.append("PS " + " ".join(lc.with_placement(ctoks, pl0)))
        keep.append((ctoks, ntoks))
    sout, _, _ = common.run_both([driver], None, sinp, chunk=300, timeout=300)
    lines = []
    for (ctoks, ntoks), o in zip(keep, sout):
        parts = o.split(";")
        try:
            rows = [[int(x) for x in p.split()] for p in parts[1:]]
        except ValueError:
            continue
        opt = sorted(c for r in rows for c in r)
        ops = make_ops(rng, rows, opt)
        flat = [str(x) for o_ in ops for x in o_]
        lines.append("DO " + " ".join(ctoks) + " " + " ".join(ntoks) + " " + str(len(ops)) + " " + " ".join(flat))
    return harness, lines


def parse_p(seg):
    """op-8 segment 'P xvalue yvalue [nleaves nregions] ; value ; placement [; check]' -> (head ints, value, placement)"""
    parts = [x.strip() for x in seg.split(";")]
    return parts[0].split()[1:], parts[1], " ".join(parts[2].split())


def modelled_prefix_has_reordering(line):
    """does the op list of a DO line reach an op 8 through ops 0 / 1 / 2 / 8 only?"""
    for ty, args in do.op_types(line):
        if ty == 8:
            return True
        if ty not in (0, 1, 2):
            return False
    return False


_cache = {}


def run_reorder(ctx, count, seed, modes=(0, 16), extra=None):
    """extra = (lines, impl) of the direct-drive run of checks/dopt_common.py: its runs whose op list reaches a runReorderingOnCells
    through best-move ops only are compared too (up to the first op of another kind)"""
    key = (count, seed, tuple(modes), extra is not None)
    if key in _cache:
        return _cache[key]
    ctx = ctx if ctx is not None else _Ctx()
    harness, lines = cases(ctx, count, seed, modes)
    driver = common.build_driver("reorder")
    impl, _, _ = common.run_both([harness, "run"], None, lines, chunk=300, timeout=300)
    n_own = len(lines)
    if extra is not None:
        for l, o in zip(extra[0], extra[1]):
            if len(do.split_do(l)[1]) <= 400 and modelled_prefix_has_reordering(l):
                lines.append(l); impl.append(o)
    res = {"runs": 0, "reorder_ops": 0, "changed_placement": 0, "multi_region": 0,
           "leaves_compared": 0, "leaves_total": 0, "max_leaves": 0, "best_ops": 0, "windows_no_leaf": 0, "changed_row": 0,
           "mismatch": [], "driver_fail": [], "throws": [], "samples": []}
    pinp, pmap = [], []
    for i, (l, out) in enumerate(zip(lines, impl)):
        segs = [x.strip() for x in out.split(" / ")]
        if not segs or not segs[0].startswith("INIT"):
            continue
        ctoks, ntoks = do.split_do(l)
        t = l.split()[1:]
        ops = t[len(ctoks) + len(ntoks):]
        pl0 = [int(x) for x in segs[0][4:].split(";")[1].split()]
        pinp.append("PR " + " ".join(lc.with_placement(ctoks, pl0)) + " " + " ".join(do.nets_for_hp(ntoks)) + " " + " ".join(ops))
        pmap.append((i, [x for x in segs if not x.startswith("L ")]))
    pout, _, _ = common.run_both([driver], None, pinp, chunk=200, timeout=600)
    norm = lambda x: " ".join(x.split())
    for (i, segs), o in zip(pmap, pout):
        msegs = [x.strip() for x in o.split(" / ")]
        if not msegs or not msegs[0].startswith("INIT"):
            res["driver_fail"].append((lines[i], o[:200], "the model did not build a state for a circuit the C++ accepted"))
            continue
        res["runs"] += 1
        if norm(msegs[0]) != norm(segs[0]):
            res["mismatch"].append((lines[i], segs[0][:300], msegs[0][:300], "state after construction"))
            continue
        prev = norm(segs[0].split(";")[1])
        for k, (a, m) in enumerate(zip(segs[1:], msegs[1:])):
            if a == "SKIP" or m == "SKIP":
                if a != m:
                    res["mismatch"].append((lines[i], a[:300], m[:300], "op %d" % k))
                    break
                continue
            if m == "STOP":
                break
            if a.startswith("THROW") or m.startswith("P THROW"):
                if a.startswith("THROW") and m.startswith("P THROW"):
                    res["throws"].append((lines[i], a[:200], m[:200], "op %d: both sides throw" % k))
                else:
                    res["mismatch"].append((lines[i], a[:300], m[:300], "op %d: one side stops / throws" % k))
                break
            if a.startswith("B ") and m.startswith("B "):
                pa = [x.strip() for x in a.split(";")]; pm = [x.strip() for x in m.split(";")]
                res["best_ops"] += 1
                got = (pa[0].split()[1], pa[2], norm(pa[3])); want = (pm[0].split()[1], pm[1], norm(pm[2]))
                if got != want:
                    res["mismatch"].append((lines[i], "found %s value %s placement %s" % got, "found %s value %s placement %s" % want, "best-move op %d" % k))
                    break
                prev = got[2]
                continue
            if a.startswith("P") and m.startswith("P "):
                ca, va, pla = parse_p(a)
                cm, vm, plm = parse_p(m)
                res["reorder_ops"] += 1
                nleaves, nreg = int(cm[2]), int(cm[3])
                res["leaves_total"] += nleaves
                res["max_leaves"] = max(res["max_leaves"], nleaves)
                res["windows_no_leaf"] += nleaves == 0
                res["multi_region"] += nreg >= 2
                # value() and the exported circuit, both model values; leaf and region counts when the C++ reports them (hook)
                if (va, pla, ca[:2]) != (vm, plm, cm[:2]):
                    res["mismatch"].append((lines[i], "xvalue yvalue %s value %s placement %s" % (" ".join(ca[:2]), va, pla),
                                            "xvalue yvalue %s value %s placement %s" % (" ".join(cm[:2]), vm, plm), "runReorderingOnCells op %d" % k))
                    break
                if len(ca) >= 4:
                    res["leaves_compared"] += 1
                    if ca[2:4] != cm[2:4]:
                        res["mismatch"].append((lines[i], "leaves regions = " + " ".join(ca[2:4]), "leaves regions = " + " ".join(cm[2:4]), "runReorderingOnCells op %d" % k))
                        break
                if pla != prev:
                    res["changed_placement"] += 1
                    rowchg = any(x != y for x, y in zip(pla.split()[1::3], prev.split()[1::3]))
                    res["changed_row"] += rowchg
                    if len(res["samples"]) < 5:
                        res["samples"].append(lines[i][:400])
                prev = pla
                continue
            res["mismatch"].append((lines[i], a[:300], m[:300], "op %d: the two sides ran different kinds of op" % k))
            break
    res["cases_made_here"] = n_own
    res["cases_from_dopt_run"] = len(lines) - n_own
    _cache[key] = res
    return res


def summary(res):
    return {k: (len(v) if isinstance(v, list) else v) for k, v in res.items() if k != "samples"}


if __name__ == "__main__":
    seed = int(sys.argv[1]) if len(sys.argv) > 1 else 1
    count = int(sys.argv[2]) if len(sys.argv) > 2 else 600
    r = run_reorder(None, count, seed)
    print(summary(r))
    for x in (r["mismatch"] + r["driver_fail"])[:3]:
        print("FAIL (closed reordering model differs from the C++):", " | ".join(str(y)[:500] for y in x[1:]), "|", x[0][:600])
    sys.exit(1 if r["mismatch"] or r["driver_fail"] else 0)
