"""C20 -- file export and Python layer are faithful to the circuit.
Proof: coq/Properties_C20.v (round trip read_ispd (export_ispd c) = projection of c for every circuit of the
domain, hence equal HPWL; bindings_ok over the table generated from module.cpp/coloquinte.hpp on every run;
refutations for the unchanged tree, finding F14).
Tie, on every run, against the tree under check (VERIF_REPO, default /repo):
  * exporter: the five files written by the real Circuit::exportIspd are compared BYTE FOR BYTE with the text
    printed by the extracted model (harness/ispd.cpp, ocaml/driver_ispd.ml);
  * reader: the real pycoloquinte/coloquinte.py (python3, over the stand-in tools/pystub/coloquinte_pybind.py
    whose Python names come from the binding table of module.cpp) reads those files; the circuit it returns
    (or its refusal) is compared field by field with the model's reader;
  * the statement itself on the real code: for every in-domain case the re-read circuit must equal the
    original on sizes, fixed flags, positions, orientations, nets, pin offsets, rows and row orientations and
    the real Circuit::hpwl of both must be equal;
  * bindings: tools/bindings.py regenerates coq/Bindings_gen.v, the theorem is rebuilt, and the failing
    bindings are named by Ispd.binding_okb (vm_compute) and, independently, by the translator's own rule."""
import json
import os
import re
import shutil
import subprocess
import sys

from tools import common
from tools import bindings

LEVEL = "proof"
GEN = os.path.join(common.COQ, "Bindings_gen.v")
PYREAD = os.path.join(common.ROOT, "tools", "ispd_pyread.py")


# ------------------------------------------------------------------ case lines

def parse_circuit(v, p=0):
    nc = v[p]; p += 1
    cells = []
    for _ in range(nc):
        cells.append(tuple(v[p:p + 8])); p += 8          # w h fixed obs pol x y o
    nn = v[p]; p += 1
    nets = []
    for _ in range(nn):
        k = v[p]; p += 1
        nets.append([tuple(v[p + 3 * j:p + 3 * j + 3]) for j in range(k)]); p += 3 * k
    nr = v[p]; p += 1
    rows = []
    for _ in range(nr):
        rows.append(tuple(v[p:p + 5])); p += 5
    return cells, nets, rows


def circuit_of_line(line):
    t = line.split()
    return parse_circuit([int(x) for x in t[2:]]) if t[0] == "EX" else parse_circuit([int(x) for x in t[1:]])


def project(c):
    cells, nets, rows = c
    return ([(w, h, fx, x, y, o) for (w, h, fx, ob, pol, x, y, o) in cells], [n for n in nets if n], rows)


def in_domain(c):
    """the domain of theorem c20_roundtrip (Ispd.wf), evaluated independently of the model"""
    cells, nets, rows = c
    if any(o > 7 for (*_, o) in cells) or any(r[4] > 7 for r in rows):
        return False
    for n in nets:
        for (ci, px, py) in n:
            if not (0 <= ci < len(cells)):
                return False
            if abs(2 * px - cells[ci][0]) >= 200000 or abs(2 * py - cells[ci][1]) >= 200000:
                return False
    if not rows:
        return False
    rh = rows[0][3] - rows[0][2]
    if any(r[3] - r[2] != rh for r in rows):
        return False
    return rh != 0 or all(c[1] > 0 for c in cells)


def first_diff(a, b):
    for i, (x, y) in enumerate(zip(a, b)):
        if x != y:
            return "byte %d: ...%r vs ...%r" % (i, a[max(0, i - 30):i + 12], b[max(0, i - 30):i + 12])
    return "length %d vs %d" % (len(a), len(b))


def compare_roundtrip(orig, back):
    """the statement of C20 on the real code; returns [] or a list of (kind, detail)"""
    out = []
    po, pb = project(orig), project(back)
    if len(po[0]) != len(pb[0]):
        return [("cells", "number of cells %d -> %d" % (len(po[0]), len(pb[0])))]
    names = ("width", "height", "fixed flag", "x", "y", "orientation")
    for i, (a, b) in enumerate(zip(po[0], pb[0])):
        for k in range(6):
            if a[k] != b[k]:
                sa, sb = (ORI[a[k]], ORI[b[k]]) if k == 5 else (a[k], b[k])
                out.append((names[k], "cell %d%s: %s %s came back as %s" % (i, " (fixed)" if a[2] else "", names[k], sa, sb)))
    if [[p[0] for p in n] for n in po[1]] != [[p[0] for p in n] for n in pb[1]]:
        out.append(("connectivity", "nets %s came back as %s" % ([[p[0] for p in n] for n in po[1]], [[p[0] for p in n] for n in pb[1]])))
    else:
        for ni, (a, b) in enumerate(zip(po[1], pb[1])):
            for pi, (p, q) in enumerate(zip(a, b)):
                if p != q:
                    o = orig[0][p[0]][7]
                    out.append(("pin offsets", "net %d pin %d on cell %d (orientation %s): offset (%d,%d) came back as (%d,%d)"
                                % (ni, pi, p[0], ORI[o], p[1], p[2], q[1], q[2])))
    if len(po[2]) != len(pb[2]):
        out.append(("row geometry", "%d rows came back as %d" % (len(po[2]), len(pb[2]))))
    else:
        for i, (a, b) in enumerate(zip(po[2], pb[2])):
            if a[:4] != b[:4]:
                out.append(("row geometry", "row %d: %s came back as %s" % (i, a[:4], b[:4])))
            if a[4] != b[4]:
                out.append(("row orientation", "row %d: orientation %s came back as %s" % (i, ORI[a[4]], ORI[b[4]])))
    return out


ORI = ["N", "S", "W", "E", "FN", "FS", "FW", "FE", "INVALID", "UNKNOWN"]
POL = ["ANY", "SAME", "OPPOSITE", "NW", "SE"]


# ------------------------------------------------------------------ the Python reader (real coloquinte.py)

def run_pyread(d, ids, timeout=600):
    """real coloquinte.py over the exported files, in parallel chunks; returns result lines aligned with ids"""
    from multiprocessing.pool import ThreadPool
    n = len(ids)
    nch = max(1, min(common.NCPU, n // 300 + 1))
    size = (n + nch - 1) // nch
    parts = [ids[i:i + size] for i in range(0, n, size)]
    env = dict(os.environ, VERIF_REPO=common.REPO, PYTHONDONTWRITEBYTECODE="1")
    env.pop("PYTHONPATH", None)

    def one(pt):
        try:
            p = subprocess.run([sys.executable, PYREAD, d], input="\n".join(pt) + "\n", capture_output=True, text=True,
                               timeout=timeout, env=env)
            got = [l for l in p.stdout.split("\n") if l]
            err = p.stderr.strip()[-300:]
        except subprocess.TimeoutExpired:
            got, err = [], "timeout"
        return got + ["ERR <reader process died: %s>" % err.replace("\n", " ")] * (len(pt) - len(got))
    with ThreadPool(nch) as pool:
        res = pool.map(one, parts)
    return [l for r in res for l in r][:n]


# ------------------------------------------------------------------ bindings

def check_bindings(ctx):
    """regenerates the table, builds the theorem; returns (proof_ok, proof, info, failing)"""
    with common.Lock("c20-bindings"):
        bindings.write_coq(common.REPO, GEN)
        proof_ok, proof = common.proof_status(ctx, "C20")
        tab = bindings.table(common.REPO)
        coq_bad = None
        ok, _ = common.coq_make(["Bindings_gen.vo"])
        if ok:
            r = common.vm_eval("C20", "From Coq Require Import String.\nFrom Coq Require Import List.\nRequire Import CV.Ispd CV.Bindings_gen.",
                               ["map bline (filter (fun b => negb (binding_okb decls b)) bindings)", "length bindings"])
            if r is not None and len(r) == 2:
                coq_bad = sorted(int(x) for x in re.findall(r"\d+", r[0]))
                coq_n = int(re.findall(r"\d+", r[1])[0])
    py_bad = [(b, bindings.rule_ok(tab["decls"], b)) for b in tab["bindings"]]
    py_bad = [(b, why) for b, why in py_bad if why]
    # every binding call of the source must be in the table (a translator that loses entries proves nothing)
    src = bindings.strip_cpp(open(os.path.join(common.REPO, "pycoloquinte", "module.cpp")).read())
    n_src = len(re.findall(r"\.\s*(?:value|def_readwrite|def_readonly|def_property|def_property_readonly)\s*\(", src))
    n_tab = len([b for b in tab["bindings"] if b["kind"] != "method"])
    info = {"bindings_in_table": len(tab["bindings"]), "non_method_bindings": n_tab, "binding_calls_in_source": n_src,
            "enums": len([c for c in tab["classes"] if c["kind"] == "enum"]), "classes": len([c for c in tab["classes"] if c["kind"] == "class"]),
            "declarations_in_header": len(tab["decls"]),
            "kinds": {k: len([b for b in tab["bindings"] if b["kind"] == k]) for k in sorted(set(b["kind"] for b in tab["bindings"]))},
            "failing_by_coq_binding_okb(lines)": coq_bad, "failing_by_translator_rule(lines)": sorted(b["line"] for b, _ in py_bad)}
    problems = []
    if n_src != n_tab:
        problems.append("translator lost bindings: %d binding calls in module.cpp, %d in the table" % (n_src, n_tab))
    if coq_bad is None:
        problems.append("Ispd.binding_okb could not be evaluated on the generated table (Bindings_gen.v does not compile)")
    else:
        if coq_n != len(tab["bindings"]):
            problems.append("generated Coq table has %d entries, translator table %d" % (coq_n, len(tab["bindings"])))
        if coq_bad != sorted(b["line"] for b, _ in py_bad):
            problems.append("Ispd.binding_okb and the translator's rule disagree: %s vs %s" % (coq_bad, sorted(b["line"] for b, _ in py_bad)))
    return proof_ok, proof, info, py_bad, problems, tab


# ------------------------------------------------------------------ extraction cross-check (vm_compute inside Coq)

VM_HEADER = """From Coq Require Import String.
From Coq Require Import List ZArith.
Import ListNotations.
Require Import CV.Orient CV.Ispd.
Local Open Scope string_scope.
Local Open Scope Z_scope.
Definition oc (o : orient) : Z := match o with oN=>0|oS=>1|oW=>2|oE=>3|oFN=>4|oFS=>5|oFW=>6|oFE=>7|oINVALID=>8|oUNKNOWN=>9 end.
Definition pc (p : polarity) : Z := match p with pANY=>0|pSAME=>1|pOPPOSITE=>2|pNW=>3|pSE=>4 end.
Definition b2z (b : bool) : Z := if b then 1 else 0.
Definition flat (c : circuit) : list Z :=
  Z.of_nat (length (cells c)) :: flat_map (fun x => [cw x; ch x; b2z (cfixed x); b2z (cobs x); pc (cpol x); cx x; cy x; oc (co x)]) (cells c)
  ++ Z.of_nat (length (nets c)) :: flat_map (fun n => Z.of_nat (length n) :: flat_map (fun p => [Z.of_nat (pcell p); ppx p; ppy p]) n) (nets c)
  ++ Z.of_nat (length (rows c)) :: flat_map (fun r => [rminx r; rmaxx r; rminy r; rmaxy r; oc (rorient r)]) (rows c).
"""
ORI_COQ = ["oN", "oS", "oW", "oE", "oFN", "oFS", "oFW", "oFE", "oINVALID", "oUNKNOWN"]
POL_COQ = ["pANY", "pSAME", "pOPPOSITE", "pNW", "pSE"]


def coq_circuit(c):
    z = lambda v: "(%d)" % v
    b = lambda v: "true" if v else "false"
    cells, nets, rows = c
    cs = "; ".join("mkCell %s %s %s %s %s %s %s %s" % (z(w), z(h), b(fx), b(ob), POL_COQ[pol], z(x), z(y), ORI_COQ[o])
                   for (w, h, fx, ob, pol, x, y, o) in cells)
    ns = "; ".join("[" + "; ".join("mkPin %d%%nat %s %s" % (ci, z(px), z(py)) for (ci, px, py) in n) + "]" for n in nets if n)
    rs = "; ".join("mkRow %s %s %s %s %s" % (z(a), z(b_), z(c_), z(d), ORI_COQ[o]) for (a, b_, c_, d, o) in rows)
    return "(mkCircuit [%s] [%s] [%s])" % (cs, ns, rs)


def vm_crosscheck(recs, k=24):
    """a few cases are evaluated by vm_compute inside Coq and compared with the extracted OCaml code"""
    pick = sorted((r for r in recs if "model_error" not in r), key=lambda r: len(r["case"]))
    pick = pick[:k // 2] + pick[len(pick) // 2: len(pick) // 2 + k // 2]
    exprs = []
    for r in pick:
        C = coq_circuit(circuit_of_line(r["case"]))
        exprs.append('(wfb %s, circuit_hpwl %s, match read_ispd (export_ispd "c" %s) "c" with Some r => 1 :: flat r | None => [0] end)' % (C, C, C))
    out = common.vm_eval("C20x", VM_HEADER, exprs)
    if out is None or len(out) != len(pick):
        return len(pick), [("vm_compute evaluation failed", "", "")]
    bad = []
    for r, o in zip(pick, out):
        wf = "true" in o.split(",")[0]
        ints = [int(x) for x in re.findall(r"-?\d+", o)]
        hp, ok, flat = ints[0], ints[1], ints[2:]
        want_hp = r["m_files"].rsplit(" # ", 1)[1].strip()
        want_rd = [int(x) for x in r["m_read"].split()[1:]] if r["m_read"].startswith("R ") else None
        if wf != r["m_wf"] or str(hp) != want_hp or (flat if ok else None) != want_rd:
            bad.append((r["case"], o[:200], "%s %s %s" % (r["m_wf"], want_hp, r["m_read"][:200])))
    return len(pick), bad


# ------------------------------------------------------------------ the check

def evaluate(ctx, harness, driver, lines, workdir):
    """runs exporter (C++), model, Python reader on the EX lines; returns per-case records"""
    impl, model, _ = common.run_both([harness, "run", workdir], [driver], lines, chunk=400)
    ids = [l.split()[1] for l in lines]
    py = run_pyread(workdir, ids)
    recs = []
    for l, i, m, p in zip(lines, impl, model, py):
        r = {"case": l, "impl": i, "py": p}
        mp = m.split(" @@ ")
        if len(mp) != 4:
            r["model_error"] = m
            mp = ["<model failed: %s>" % m, "ERR", "0", ""]
        r["m_files"], r["m_read"], r["m_wf"], r["m_unfixed"] = mp[0], mp[1], mp[2] == "1", mp[3]
        recs.append(r)
    # hpwl of the circuits the Python reader returned, computed by the real Circuit::hpwl
    hw = [(k, "HW " + r["py"][2:]) for k, r in enumerate(recs) if r["py"].startswith("R ")]
    if hw:
        hi, hm, _ = common.run_both([harness, "run", workdir], [driver], [x for _, x in hw], chunk=400)
        for (k, _), a, b in zip(hw, hi, hm):
            recs[k]["hpwl_back_impl"], recs[k]["hpwl_back_model"] = a.strip(), b.strip()
    return recs


# ------------------------------------------------------------------ export NAMES (stream NG of harness/ispd.cpp)
# The one parameter of Circuit::exportIspd is the file name.  Unusual but valid names: dots in the last component (chip.v2,
# chip.placed, a.b.c, components that look like the format's own extensions), directories whose names contain dots, the name given
# bare, as ./name, as an absolute path or with a relative directory part; several exports side by side in ONE directory whose names
# share a stem (chip, chip.placed, chip.placed.final: each must read back its OWN circuit, whatever the order of the exports), an
# export overwritten under the same name (the LAST circuit must come back), and all the reads of all groups made by ONE Python
# process (abs path, path relative to the directory, path without the .aux suffix; some files read twice), so that anything the
# reader or the exporter keeps between calls -- in memory or on disk -- shows.

N_GROUPS_Q = 300
NAME_BASES = ["chip", "top", "a", "design_1", "c0"]
NAME_PARTS = ["v2", "placed", "b", "c", "2024-10-02", "final", "0", "aux", "nodes", "pl", "scl", "tar", "v1", "1"]
NAME_DIRS = ["plain", ".", "run.1", "a.b/c.d", "v1.0/out", "x.y.z", "chip.placed"]
O1_MSG = "ERR RuntimeError: Could not find file"
# exception classes with which the real pycoloquinte/coloquinte.py read_ispd REFUSES a file (its own `raise RuntimeError`, its
# `assert`s, int()/float()/tuple-unpacking of a malformed token -> ValueError, a too short line -> IndexError; TypeError = the
# compiled module refusing an argument, e.g. None for a CellOrientation; ZeroDivisionError = `cell_heights[i] % row_height` of
# read_ispd with rows of height 0, the model's `Z.eqb rh 0` refusal)
EXPECTED_READER_ERRORS = ("RuntimeError", "AssertionError", "ValueError", "IndexError", "TypeError", "ZeroDivisionError")


def reader_error_class(py):
    """'ERR <Class>: msg' -> Class; '<died>' for a reader process that died / printed nothing usable"""
    t = py.split()
    if len(t) >= 2 and t[0] == "ERR" and t[1].endswith(":") and t[1][:-1].isidentifier():
        return t[1][:-1]
    return "<died>"

NAME_READER = r'''
import os, sys
sys.path.insert(0, sys.argv[1])
import ispd_pyread as R      # puts the real pycoloquinte/coloquinte.py of VERIF_REPO and the stand-in module on the path
for line in sys.stdin:
    t = line.rstrip("\n").split("\t")
    if len(t) != 2:
        continue
    try:
        os.chdir(t[0])
        print(R.dump(R.coloquinte.Circuit.read_ispd(t[1])))
    except BaseException as e:
        print("ERR %s: %s" % (type(e).__name__, str(e).replace("\n", " ")[:200]))
    sys.stdout.flush()
'''


def replaced(circ_ints, rnd):
    """the same circuit with every cell at a new position and orientation (the 'placed' version of an earlier export)"""
    v = list(circ_ints)
    for i in range(v[0]):
        b = 1 + 8 * i
        v[b + 5], v[b + 6], v[b + 7] = rnd.randint(-30, 60), rnd.randint(-30, 60), rnd.randint(0, 7)
    return v


def name_groups(seed, pool, count):
    """NG lines; pool = circuits (lists of ints) from the harness generator"""
    import random
    rnd = random.Random(seed * 7919 + 20)
    out = []
    for g in range(count):
        kind = rnd.choice(["single", "single", "stem", "stem", "stem", "siblings", "overwrite"])
        parts = [rnd.choice(NAME_PARTS) for _ in range(rnd.randint(1, 3))]
        if kind == "single" and rnd.random() < 0.15:
            parts = []
        base = rnd.choice(NAME_BASES)
        full = ".".join([base] + parts)
        if kind == "single":
            names = [full]
        elif kind == "stem":
            pre = [".".join([base] + parts[:j]) for j in range(len(parts))]
            names = rnd.sample(pre, rnd.randint(1, len(pre))) + [full]
            if rnd.random() < 0.5:
                rnd.shuffle(names)
            elif rnd.random() < 0.5:
                names.reverse()
        elif kind == "siblings":
            stem = ".".join([base] + parts[:-1])
            names = list(dict.fromkeys([stem + "." + p for p in rnd.sample(NAME_PARTS, 3)] + ([stem + "_x"] if rnd.random() < 0.3 else [])))
        else:
            names = [full] + ([".".join([base] + parts[:-1])] if rnd.random() < 0.5 else []) + [full]
        o1 = rnd.random() < 0.15          # relative directory part (observation O1 of design/C20.md)
        ents, prev = [], None
        for nm in names:
            circ = replaced(prev, rnd) if (prev is not None and prev[0] > 0 and rnd.random() < 0.5) else list(rnd.choice(pool))
            prev = circ
            form = "o1" if o1 else rnd.choice(["bare", "bare", "dot", "abs", "abs"])
            given = {"bare": nm, "dot": "./" + nm, "abs": nm, "o1": "sub.x/" + nm}[form]
            ents.append("%d %s %d %s" % (1 if form == "abs" else 0, given, len(circ), " ".join(map(str, circ))))
        out.append("NG %d_%d %s %d %s" % (seed, g, rnd.choice(NAME_DIRS), len(ents), " ".join(ents)))
    return out


def parse_group(line):
    t = line.split()
    gid, d, n = t[1], t[2], int(t[3])
    p, ents = 4, []
    for _ in range(n):
        mode, given, ln = int(t[p]), t[p + 1], int(t[p + 2])
        ents.append((mode, given, [int(x) for x in t[p + 3:p + 3 + ln]])); p += 3 + ln
    return gid, d, ents


def group_reads(line, workdir):
    """the reads of one group, a pure function of the NG line: [(entry index, manner, cwd, path)]; every file left on disk is read
    in one or two manners, a third of them once more at the end"""
    import random
    import zlib
    rnd = random.Random(zlib.crc32(line.encode()))
    gid, d, ents = parse_group(line)
    dg = os.path.normpath(os.path.join(workdir, "g" + gid, d))
    last = {}
    for e, (mode, given, _) in enumerate(ents):
        last[os.path.normpath(given)] = e
    reads, again = [], []
    for e in sorted(last.values()):
        given = ents[e][1]
        manners = {"abs": (workdir, os.path.join(dg, given) + ".aux"), "rel": (dg, given + ".aux"), "noext": (workdir, os.path.join(dg, given))}
        if given.endswith((".aux", ".nodes", ".pl", ".nets", ".scl")):
            del manners["noext"]      # "chip.aux" without suffix IS the .aux file of the export named "chip": not a way to name this export
        for m in rnd.sample(sorted(manners), rnd.randint(1, 2)):
            reads.append((e, m) + manners[m])
        if rnd.random() < 0.33:
            again.append((e, "abs") + manners["abs"])
    rnd.shuffle(reads)
    return reads + again


def evaluate_names(ctx, harness, driver, glines, workdir):
    """exports the groups (C++), reads every file left on disk back in ONE Python process, runs the model on the same circuits;
    returns records shaped like those of evaluate(), one per read"""
    if not glines:
        return [], {}
    gout, _, _ = common.run_both([harness, "run", workdir], None, glines, chunk=100)
    reads = [(gi,) + r for gi, l in enumerate(glines) for r in group_reads(l, workdir)]
    env = dict(os.environ, VERIF_REPO=common.REPO, PYTHONDONTWRITEBYTECODE="1")
    env.pop("PYTHONPATH", None)
    try:
        p = subprocess.run([sys.executable, "-c", NAME_READER, os.path.dirname(PYREAD)], input="".join("%s\t%s\n" % (r[3], r[4]) for r in reads),
                           capture_output=True, text=True, timeout=900, env=env, cwd=workdir)
        got, err = [x for x in p.stdout.split("\n") if x], p.stderr.strip()[-300:]
    except subprocess.TimeoutExpired:
        got, err = [], "timeout"
    got += ["ERR <reader process died: %s>" % err.replace("\n", " ")] * (len(reads) - len(got))
    # the model: the same circuits as EX lines (the plain name c<uid>); its .aux text with the name replaced by the name as given
    exl, key = [], {}
    for gi, l in enumerate(glines):
        gid, d, ents = parse_group(l)
        for e, (mode, given, circ) in enumerate(ents):
            key[(gi, e)] = len(exl)
            exl.append("EX n%s_%d %s" % (gid, e, " ".join(map(str, circ))))
    _, model, _ = common.run_both([harness, "run", workdir], [driver], exl, chunk=400)
    recs = []
    info = {"groups": len(glines), "exports": len(exl), "reads_in_one_python_process": len(reads), "by_manner": {}, "by_form": {},
            "names_with_a_dot_in_the_last_component": 0, "directories_with_a_dot": 0, "groups_with_names_sharing_a_stem": 0,
            "groups_with_an_overwritten_name": 0, "O1_relative_directory_part_refused_by_reader": 0, "distinct_names": set()}
    for gi, l in enumerate(glines):
        gid, d, ents = parse_group(l)
        bn = [os.path.basename(g) for _, g, _ in ents]
        info["directories_with_a_dot"] += 1 if "." in d.strip(".") else 0
        info["groups_with_an_overwritten_name"] += 1 if len(set(bn)) < len(bn) else 0
        info["groups_with_names_sharing_a_stem"] += 1 if any(a != b and b.startswith(a + ".") for a in bn for b in bn) else 0
        for mode, g, _ in ents:
            info["distinct_names"].add(os.path.basename(g))
            info["names_with_a_dot_in_the_last_component"] += 1 if "." in os.path.basename(g) else 0
            form = "absolute" if mode == 1 else "./name" if g.startswith("./") else "relative directory part" if "/" in g else "bare"
            info["by_form"][form] = info["by_form"].get(form, 0) + 1
    for (gi, e, manner, cwd, path), py in zip(reads, got):
        l = glines[gi]
        gid, d, ents = parse_group(l)
        mode, given, circ = ents[e]
        info["by_manner"][manner] = info["by_manner"].get(manner, 0) + 1
        gparts = gout[gi].split(" || ")
        k = key[(gi, e)]
        dg = os.path.join(workdir, "g" + gid, d)
        r = {"case": exl[k], "group": l, "py": py, "impl": gparts[e] if len(gparts) == len(ents) else gout[gi],
             "o1": mode == 0 and "/" in given.replace("./", "", 1),
             "name_note": "export #%d of the group, exportIspd(\"%s\") in directory %s, read back as read_ispd(\"%s\") from %s: "
                          % (e, (dg + "/" + given).replace(workdir, "<DIR>") if mode == 1 else given, os.path.join("<DIR>", "g" + gid, d),
                             path.replace(workdir, "<DIR>"), cwd.replace(workdir, "<DIR>"))}
        mp = model[k].split(" @@ ")
        if len(mp) != 4:
            r["model_error"] = model[k]
            mp = ["<model failed: %s>" % model[k], "ERR", "0", ""]
        # the exporter lists its files relative to the directory of the .aux (fix F27): the last component of the name as given
        asgiven = os.path.basename(given)
        sub = lambda files: "|".join([f.replace("cn%s_%d." % (gid, e), asgiven + ".") if j == 0 else f for j, f in enumerate(files.split("|"))])
        hp = mp[0].rsplit(" # ", 1)
        r["m_files"] = sub(hp[0]) + (" # " + hp[1] if len(hp) == 2 else "")
        r["m_read"], r["m_wf"], r["m_unfixed"] = mp[1], mp[2] == "1", sub(mp[3])
        recs.append(r)
    hw = [(k, "HW " + r["py"][2:]) for k, r in enumerate(recs) if r["py"].startswith("R ")]
    if hw:
        hi, hm, _ = common.run_both([harness, "run", workdir], [driver], [x for _, x in hw], chunk=400)
        for (k, _), a, b in zip(hw, hi, hm):
            recs[k]["hpwl_back_impl"], recs[k]["hpwl_back_model"] = a.strip(), b.strip()
    info["distinct_names"] = len(info["distinct_names"])
    return recs, info


# ------------------------------------------------------------------ exports at different moments of ONE object's life (stream LF)
# One Circuit is exported again and again under the SAME name: outside the placement calls after public edits (positions, orientations,
# sizes, nets) and from INSIDE the callbacks of placeGlobal / legalize / placeDetailed (sizes changed by setCellWidth / setCellHeight
# inside a callback in between).  harness/ispd.cpp snapshots every export at once (files copied aside, circuit dumped through the
# getters); each snapshot is judged like a one-shot case against the circuit AS IT WAS AT THAT MOMENT: bytes vs the model's export of
# that state, the real coloquinte.py on the snapshot vs the model's reader, the C20 statement field by field and Circuit::hpwl.

N_LIFE_Q = 250


def parse_life(line):
    t = line.split()
    return t[1], int(t[2]), t[3]          # id, mode (1 = exported under an absolute path), name


def evaluate_life(ctx, harness, driver, llines, workdir):
    if not llines:
        return [], {}
    lout, _, _ = common.run_both([harness, "run", workdir], None, llines, chunk=60)
    snaps = []            # (case index, k, files # hpwl, circuit ints text, label)
    info = {"objects": len(llines), "exports": 0, "exports_inside_a_callback": 0, "exports_after_a_size_change_inside_a_callback_of_the_same_run": 0,
            "exports_outside_a_placement_call_after_public_edits": 0, "objects_exported_2+_times_under_one_name": 0, "placement_calls_that_threw": 0,
            "cases_without_outcome": 0, "exports_that_threw": 0, "by_stage_of_the_callback": {}}
    broken = []
    for ci, (l, o) in enumerate(zip(llines, lout)):
        ents = [e.split(" @ ") for e in o.split(" || ")]
        if any(len(e) != 3 for e in ents):
            info["cases_without_outcome"] += 1
            broken.append((l, o[:300]))
            continue
        info["objects_exported_2+_times_under_one_name"] += len(ents) > 1
        for k, (files, circ, label) in enumerate(ents):
            snaps.append((ci, k, files, circ, label))
            info["exports"] += 1
            if label.startswith("inside callback"):
                info["exports_inside_a_callback"] += 1
                st = label.split(" of ")[1].split(",")[0].strip() if " of " in label else "?"
                info["by_stage_of_the_callback"][st] = info["by_stage_of_the_callback"].get(st, 0) + 1
                info["exports_after_a_size_change_inside_a_callback_of_the_same_run"] += ("after setCell" in label)
            elif label.startswith("outside"):
                info["exports_outside_a_placement_call_after_public_edits"] += 1
            info["placement_calls_that_threw"] += " threw: " in label
            info["exports_that_threw"] += files.startswith("EXPORT-THROW")
    # the real reader on every snapshot, ONE Python process
    env = dict(os.environ, VERIF_REPO=common.REPO, PYTHONDONTWRITEBYTECODE="1")
    env.pop("PYTHONPATH", None)
    reads = []
    for ci, k, files, circ, label in snaps:
        cid, mode, name = parse_life(llines[ci])
        reads.append((os.path.join(workdir, "l" + cid, "s%d" % k), name + ".aux"))
    try:
        p = subprocess.run([sys.executable, "-c", NAME_READER, os.path.dirname(PYREAD)], input="".join("%s\t%s\n" % r for r in reads),
                           capture_output=True, text=True, timeout=900, env=env, cwd=workdir)
        got, err = [x for x in p.stdout.split("\n") if x], p.stderr.strip()[-300:]
    except subprocess.TimeoutExpired:
        got, err = [], "timeout"
    got += ["ERR <reader process died: %s>" % err.replace("\n", " ")] * (len(reads) - len(got))
    # the model: the circuit of that moment as an EX line
    exl = ["EX f%s_%d %s" % (parse_life(llines[ci])[0], k, circ) for ci, k, files, circ, label in snaps]
    _, model, _ = common.run_both([harness, "run", workdir], [driver], exl, chunk=400) if exl else (None, [], None)
    recs = []
    for (ci, k, files, circ, label), py, ex, m in zip(snaps, got, exl, model):
        cid, mode, name = parse_life(llines[ci])
        r = {"case": ex, "group": llines[ci], "py": py, "impl": files,
             "name_note": "export #%d of the object's life (%s), exportIspd(\"%s\"), files read back from the copy made at that moment: "
                          % (k, label, ("<DIR>/l%s/" % cid if mode == 1 else "") + name)}
        mp = m.split(" @@ ")
        if len(mp) != 4:
            r["model_error"] = m
            mp = ["<model failed: %s>" % m, "ERR", "0", ""]
        sub = lambda fs: "|".join([f.replace("cf%s_%d." % (cid, k), name + ".") if j == 0 else f for j, f in enumerate(fs.split("|"))])
        hp = mp[0].rsplit(" # ", 1)
        r["m_files"] = sub(hp[0]) + (" # " + hp[1] if len(hp) == 2 else "")
        r["m_read"], r["m_wf"], r["m_unfixed"] = mp[1], mp[2] == "1", sub(mp[3])
        recs.append(r)
    hw = [(k, "HW " + r["py"][2:]) for k, r in enumerate(recs) if r["py"].startswith("R ")]
    if hw:
        hi, hm, _ = common.run_both([harness, "run", workdir], [driver], [x for _, x in hw], chunk=400)
        for (k, _), a, b in zip(hw, hi, hm):
            recs[k]["hpwl_back_impl"], recs[k]["hpwl_back_model"] = a.strip(), b.strip()
    info["no_outcome_cases"] = broken[:3]
    return recs, info


def scratch_base():
    """directory for the exported files of one run (5 files per case, removed at the end): a tmpfs when there is one"""
    for d in ("/dev/shm",):
        if os.path.isdir(d) and os.access(d, os.W_OK):
            return d
    os.makedirs(common.TMP, exist_ok=True)
    return common.TMP


def grid_cases(quick):
    """exhaustive small sweep: one cell (every size of the list) in each of the eight orientations, fixed or not, with one
    pin at every offset of [-1, w+1] x [-1, h+1], over a row in each orientation (quick: one row orientation per cell
    orientation, three sizes; thorough: all 64 orientation pairs, sizes 0..3 x 0..3)"""
    sizes = [(0, 0), (1, 2), (3, 2)] if quick else [(w, h) for w in range(4) for h in range(4)]
    out, k = [], 0
    for (w, h) in sizes:
        for o in range(8):
            for ro in ([(3 * o + 1) % 8] if quick else range(8)):
                for px in range(-1, w + 2):
                    for py in range(-1, h + 2):
                        k += 1
                        out.append("EX g_%d 1 %d %d %d 1 0 %d %d %d 1 1 0 %d %d 1 0 10 %d %d %d" %
                                   (k, w, h, k % 2, 5 + k % 3, -2 + k % 5, o, px, py, k % 4, k % 4 + 2, ro))
    return out


def run(ctx):
    proof_ok, proof, binfo, bad_bind, bproblems, tab = check_bindings(ctx)
    harness = common.build_harness("ispd")
    driver = common.build_driver("ispd")
    workdir = os.path.join(scratch_base(), "c20_%d" % os.getpid())
    shutil.rmtree(workdir, ignore_errors=True)
    os.makedirs(workdir)
    try:
        n = 2400 if ctx.quick else 30000
        seeds = [ctx.seed] if ctx.quick else [ctx.seed, ctx.seed + 1000, ctx.seed + 2000]
        lines = list(common.corpus("C20", ("EX ",)))
        grid = grid_cases(ctx.quick)
        lines += grid
        for s in seeds:
            lines += common.harness_gen(harness, [s, n // len(seeds)])
        recs = evaluate(ctx, harness, driver, lines, workdir)
        # export names: groups of exports into one directory (NG), circuits from the same generator
        pool = [[int(x) for x in l.split()[2:]] for s in seeds for l in common.harness_gen(harness, [s + 500000, 400 if ctx.quick else 4000])]
        glines = list(common.corpus("C20", ("NG ",)))
        for s in seeds:
            glines += name_groups(s, pool, (N_GROUPS_Q if ctx.quick else 6000) // len(seeds))
        nrecs, ninfo = evaluate_names(ctx, harness, driver, glines, workdir)
        recs += nrecs
        # exports at different moments of one object's life, all under one name (LF): inside callbacks of running placements, between public edits
        llines = list(common.corpus("C20", ("LF ",)))
        for s in seeds:
            llines += common.harness_gen(harness, ["life", s, (N_LIFE_Q if ctx.quick else 6000) // len(seeds)])
        lrecs, linfo = evaluate_life(ctx, harness, driver, llines, workdir)
        recs += lrecs
    finally:
        shutil.rmtree(workdir, ignore_errors=True)
    n_vm, vm_bad = vm_crosscheck(recs)

    exp_mism, rd_mism, hp_mism, stmt_fail, dom_mism, standin_crash = [], [], [], {}, [], []
    nontriv = set()
    dist = {"cells_by_orientation": [0] * 10, "rows_by_orientation": [0] * 10, "fixed_cells": 0, "cells": 0, "unplaced_cells": 0,
            "nets": 0, "pins": 0, "nets_with_a_repeated_cell": 0, "pins_outside_the_outline": 0, "half_integer_offsets": 0,
            "circuits_with_rows_of_2+_orientations": 0, "in_domain": 0, "out_of_domain": 0, "reader_refusals": 0,
            "polarity_assigned_by_reader": [0] * 5, "offsets_at_domain_edge(>=99990)": 0}
    unfixed_like = 0
    for r in recs:
        l = r["case"]
        lr, note = r.get("group", l), r.get("name_note", "")      # NG stream: the replayable case is the whole group
        orig = circuit_of_line(l)
        cells, nets, rows = orig
        dom = in_domain(orig)
        if dom != r["m_wf"] and "model_error" not in r:
            dom_mism.append((l, dom, r["m_wf"]))
        dist["in_domain" if dom else "out_of_domain"] += 1
        for c in cells:
            dist["cells"] += 1
            dist["cells_by_orientation"][c[7]] += 1
            dist["fixed_cells"] += c[2]
            dist["unplaced_cells"] += 1 if (c[5], c[6], c[7]) == (0, 0, 0) else 0
        for rw in rows:
            dist["rows_by_orientation"][rw[4]] += 1
        if len(set(rw[4] for rw in rows)) > 1:
            dist["circuits_with_rows_of_2+_orientations"] += 1
        for nt in nets:
            dist["nets"] += 1
            dist["pins"] += len(nt)
            if len(set(p[0] for p in nt)) < len(nt):
                dist["nets_with_a_repeated_cell"] += 1
            for (ci, px, py) in nt:
                w, h = cells[ci][0], cells[ci][1]
                if px < 0 or px > w or py < 0 or py > h:
                    dist["pins_outside_the_outline"] += 1
                if (w % 2) or (h % 2):
                    dist["half_integer_offsets"] += 1
                if abs(2 * px - w) >= 199980 or abs(2 * py - h) >= 199980:
                    dist["offsets_at_domain_edge(>=99990)"] += 1
        if dom and any(cells[p[0]][7] != 0 for nt in nets for p in nt) and any(rw[4] != 0 for rw in rows):
            nontriv.add(l.split(" ", 2)[2])
        # ---- exporter: byte comparison
        if " # " not in r["impl"]:
            exp_mism.append((lr, note + "exporter did not return: " + r["impl"][:200], None))
            continue
        ifiles, ihp = r["impl"].rsplit(" # ", 1)
        mfiles, mhp = r["m_files"].rsplit(" # ", 1) if " # " in r["m_files"] else (r["m_files"], "?")
        if ifiles != mfiles:
            names = ["aux", "nodes", "pl", "nets", "scl"]
            fi, fm, fu = ifiles.split("|"), mfiles.split("|"), r["m_unfixed"].split("|")
            which = [names[k] for k, (a, b) in enumerate(zip(fi, fm)) if a != b]
            # every file that differs from the model of the repaired exporter is the file the model of the
            # UNCHANGED exporter (Ispd.export_ispd_unfixed) prints: the tree under check lacks the F14 repairs
            like = len(fi) == 5 and len(fu) == 5 and all(fi[k] == fu[k] for k in range(5) if fi[k] != fm[k])
            unfixed_like += 1 if like else 0
            exp_mism.append((lr, note + "files %s differ: %s" % (",".join(which), first_diff(ifiles, mfiles)), like))
        if ihp.strip() != mhp.strip():
            hp_mism.append((l, ihp, mhp))
        # ---- reader: real coloquinte.py vs model
        if r.get("o1") and r["py"].startswith(O1_MSG):
            # finding F27 (fixed in /repo; design/C20.md): a relative name WITH a directory part was written into the .aux as given and
            # the reader resolved it against the directory of the .aux once more. Counted; it is a violation like any other refusal.
            ninfo["O1_relative_directory_part_refused_by_reader"] += 1
        pyr = r["py"] if r["py"].startswith("R ") else "ERR"
        if r["py"].startswith("ERR"):
            dist["reader_refusals"] += 1
        if not r["py"].startswith("R "):
            # "the model says None" agrees only with a REFUSAL of the reader: an exception of a class coloquinte.py's read_ispd raises
            # on a file it rejects.  Anything else (a dead reader process, an exception class that can only come from the stand-in
            # module / the glue, an empty line) is NOT agreement with the model's None: it is a broken correspondence.
            cls = reader_error_class(r["py"])
            by = dist.setdefault("reader_refusals_by_exception_class", {})
            by[cls] = by.get(cls, 0) + 1
            if cls not in EXPECTED_READER_ERRORS:
                standin_crash.append((lr, note + r["py"][:300], "model: " + r["m_read"][:120]))
        if pyr != r["m_read"] and ifiles == mfiles:
            rd_mism.append((lr, note + r["py"][:300], r["m_read"][:300]))
        if r["py"].startswith("R "):
            back = parse_circuit([int(x) for x in r["py"].split()[1:]])
            for c in back[0]:
                dist["polarity_assigned_by_reader"][c[4]] += 1
            if r.get("hpwl_back_impl") != r.get("hpwl_back_model"):
                hp_mism.append(("HW " + r["py"][2:], r.get("hpwl_back_impl"), r.get("hpwl_back_model")))
        # ---- the statement on the real code (in-domain cases only)
        if dom:
            if not r["py"].startswith("R "):
                stmt_fail.setdefault("reader refused an exported circuit", []).append((lr, note + r["py"], ifiles))
            else:
                hp = "; Circuit::hpwl %s before, %s after export + read_ispd" % (ihp.strip(), r.get("hpwl_back_impl"))
                seen_kinds = set()
                for kind, detail in compare_roundtrip(orig, back):
                    if kind not in seen_kinds:      # one entry per circuit and kind
                        stmt_fail.setdefault(kind, []).append((lr, note + detail + hp, ifiles, r.get("hpwl_back_impl") != ihp.strip()))
                    seen_kinds.add(kind)
                if not compare_roundtrip(orig, back) and r.get("hpwl_back_impl") != ihp.strip():
                    stmt_fail.setdefault("hpwl", []).append((lr, note + "Circuit::hpwl %s before, %s after export + read_ispd" % (ihp.strip(), r.get("hpwl_back_impl")), ifiles))

    # ---- reporting
    for kind, fails in sorted(stmt_fail.items()):
        # the shortest failing circuit, preferring one whose wirelength changes as well
        l, detail, files = min(fails, key=lambda f: (0 if (len(f) > 3 and f[3]) else 1, len(f[0])))[:3]
        ctx.violation("export + read_ispd does not reproduce the circuit (%s; %d of %d in-domain circuits): %s" % (kind, len(fails), dist["in_domain"], detail),
                      {"case": l, "format": "see harness/ispd.cpp header", "what_differs": kind, "detail": detail,
                       "exported_files(escaped: aux|nodes|pl|nets|scl)": files,
                       "how": "real Circuit::exportIspd -> real coloquinte.Circuit.read_ispd (stand-in module) -> compared with the original"})
    for b, why in bad_bind[:3]:
        ctx.violation("Python binding not bound to the C++ entity of the same name: module.cpp:%d %s" % (b["line"], why),
                      {"case": "pycoloquinte/module.cpp line %d" % b["line"], "binding": b, "why": why,
                       "theorem": "c20_bindings_ok (Properties_C20.v) does not hold for the generated table coq/Bindings_gen.v"})
    concrete = bool(stmt_fail) or bool(bad_bind)
    if not concrete:
        if exp_mism:
            ctx.violation("correspondence Ispd.export_ispd <-> Circuit::exportIspd broken (%d of %d cases differ byte-wise: %s); the round trip "
                          "still reproduces every circuit" % (len(exp_mism), len(lines), exp_mism[0][1]),
                          {"broken": "correspondence of coq/Ispd.v (exporter) with src/export.cpp", "first_difference": {"case": exp_mism[0][0], "detail": exp_mism[0][1]}},
                          found_input=False)
        if rd_mism:
            ctx.violation("correspondence Ispd.read_ispd <-> coloquinte.py broken (%d of %d cases differ); the round trip still reproduces every "
                          "in-domain circuit" % (len(rd_mism), len(lines)),
                          {"broken": "correspondence of coq/Ispd.v (reader) with pycoloquinte/coloquinte.py",
                           "first_difference": {"case": rd_mism[0][0], "python": rd_mism[0][1], "model": rd_mism[0][2]}}, found_input=False)
        if standin_crash:
            ctx.violation("the Python reader run of %d of %d cases ended in something that is NOT a refusal by coloquinte.py (reader process died, or an exception "
                          "class outside %s): a stand-in / glue failure must not count as agreement with the model's None; first: %s"
                          % (len(standin_crash), len(recs), "/".join(EXPECTED_READER_ERRORS), standin_crash[0][1]),
                          {"broken": "reader side of the C20 tie (tools/ispd_pyread.py + tools/pystub/coloquinte_pybind.py over pycoloquinte/coloquinte.py)",
                           "first_difference": {"case": standin_crash[0][0], "python": standin_crash[0][1], "model": standin_crash[0][2]}}, found_input=False)
        if hp_mism:
            ctx.violation("Hpwl.hpwl and Circuit::hpwl differ on %d circuits" % len(hp_mism),
                          {"broken": "correspondence of coq/Hpwl.v with Circuit::hpwl", "first_difference": hp_mism[0]}, found_input=False)
        if dom_mism:
            ctx.violation("Ispd.wfb and the check's own domain test disagree on %d cases" % len(dom_mism),
                          {"broken": "domain (Ispd.wf) vs checks/c20.py in_domain", "first_difference": dom_mism[0]}, found_input=False)
        if vm_bad:
            ctx.violation("extracted OCaml model and vm_compute inside Coq disagree on %d of %d cases" % (len(vm_bad), n_vm),
                          {"broken": "extraction of coq/Ispd.v (ocaml/driver_ispd.ml)", "first_difference": vm_bad[0]}, found_input=False)
        if bproblems:
            ctx.violation("bindings translator / theorem inconsistent: " + "; ".join(bproblems),
                          {"broken": "tools/bindings.py -> coq/Bindings_gen.v -> c20_bindings_ok", "detail": bproblems}, found_input=False)
        if not proof_ok:
            ctx.violation("proof obligations of Properties_C20.v do not check", {"broken": "Properties_C20.v", "detail": proof}, found_input=False)
    cov = dict(proof)
    samples = [l for l in lines if l.split(" ", 2)[2] in nontriv][:2] + lines[-1:]
    cov.update({"trusted_base": common.TRUSTED_BASE + [
                    "tools/pystub/coloquinte_pybind.py: pure-Python stand-in of the compiled module (pybind11 is not installed); its Python names are "
                    "taken from module.cpp's binding table, the C++ side (setters, addNet, rowHeight, pybind11 argument conversion) is hand-written",
                    "tools/bindings.py: text-level translator of module.cpp / coloquinte.hpp (entry count cross-checked against the source on every run)",
                    "operator<<(double) is modelled only for |value| < 10^5 (THalf); the lexing of the files by Python's split/int/float is tied by the "
                    "reader comparison, not modelled character by character"],
                "evaluations": len(lines) + len(nrecs) + len(lrecs), "distinct_nontrivial": len(nontriv),
                "export_moments": linfo, "export_moment_samples": [l[:200] for l in llines[:2]],
                "rule": "distinct circuits that are in the domain of c20_roundtrip AND have a pin on a cell whose orientation is not N AND a row whose "
                        "orientation is not N (the inputs on which the unchanged exporter is wrong).  Export NAMES (export_names, stream NG): groups of "
                        "exports into one directory, names with dots in the last component (incl. components equal to the format's own "
                        "extensions), directories with dots, the name given bare / as ./name / absolute / with a relative directory part (O1), "
                        "names sharing a stem side by side in either order, a name exported twice (the last circuit must come back); every "
                        "file left on disk is read by ONE Python process (absolute path, path relative to the directory, path without .aux, "
                        "some twice) and must give back the circuit of ITS OWN (last) export: bytes vs the model with the name as given in "
                        "the .aux, reader vs the model's reader, the C20 statement field by field and Circuit::hpwl.  Export MOMENTS (export_moments, "
                        "stream LF, harness/ispd.cpp runLife): ONE Circuit (2-5 rows, 3-8 movable + 0-2 fixed cells, 2-6 nets, placeable) lives through 2-4 phases "
                        "and is exported up to 14 times under ONE name (bare or absolute): before any call, outside the calls after public edits (setCellX/Y, "
                        "setCellOrientation, setSolution, setCellWidth/Height, addNet, setNets), from INSIDE the callbacks of placeGlobal (40 % of the phases) / "
                        "legalize / placeDetailed (first invocation always, later ones in 60 %), with setCellWidth / setCellHeight called inside 35 % of the "
                        "global callbacks after the export (sometimes one more export in the same callback; seldom a resize in a legalize / detailed callback, "
                        "which makes that call throw), and after each call; every export is copied aside at once and judged against the circuit AS IT WAS AT THAT "
                        "MOMENT (getters): bytes vs the model's export of that state, real reader vs model reader, statement field by field, Circuit::hpwl",
                "export_names": ninfo, "export_name_samples": [g[:160] for g in glines[:3]],
                "exhaustive_grid_cases": len(grid),
                "samples": samples, "input_distribution": dist, "bindings": binfo,
                "reader_runs_that_are_no_refusal_by_coloquinte_py": {"count": len(standin_crash), "first": [x[1] for x in standin_crash[:3]],
                                                                     "expected_refusal_classes": list(EXPECTED_READER_ERRORS),
                                                                     "rule": "a reader result that is neither a circuit nor 'ERR <one of these classes>' is reported as broken correspondence, never as agreement with the model's None"},
                "model_vs_impl_differences": {"exporter_bytes": len(exp_mism), "reader": len(rd_mism) + len(standin_crash), "hpwl": len(hp_mism), "domain": len(dom_mism),
                                              "of_which_equal_to_the_model_of_the_unrepaired_exporter": unfixed_like,
                                              "extraction_vs_vm_compute": "%d of %d" % (len(vm_bad), n_vm)},
                "impl_outputs_violating_statement": {k: len(v) for k, v in stmt_fail.items()},
                "bindings_violating_statement": len(bad_bind)})
    return ctx.finish(LEVEL, cov, [
        "domain: eight real orientations for cells and rows, pins on existing cells with |offset - size/2| < 10^5, no empty net (Circuit::addNet drops "
        "them), at least one row and one row height, row height 0 only when every cell height is positive (read_ispd refuses the rest, as modelled)",
        "cell_is_obstruction, cell_row_polarity and net weights are not part of the statement: the format does not carry them (the reader resets them)",
        "file names are opaque tokens in the model (_read_aux's split() / os.path.join not modelled): the claim covers names without whitespace; names with a directory part are validated by the name stream (finding F27, fixed)",
        "print/parse inverse of numbers is assumed by the token model and carried by the byte-for-byte tie; the binding theorem is a translator-derived table + rule (value / def_readwrite / def_readonly / def_property / def_property_readonly / def recognised, other pybind forms not seen; .def targets not checked)",
        "model tied to the code by exact comparison on the cases of this run"])


def replay(ctx, path):
    r = json.load(open(path))["replay"]
    if "binding" in r:
        tab = bindings.table(common.REPO)
        b0 = r["binding"]
        hit = [b for b in tab["bindings"] if b["class_py"] == b0["class_py"] and b["py"] == b0["py"] and b["kind"] == b0["kind"]]
        bad = [(b, bindings.rule_ok(tab["decls"], b)) for b in hit]
        for b, why in bad:
            print("module.cpp:%d %s.%s -> %s::%s : %s" % (b["line"], b["class_py"], b["py"], b["owner"], b["cpp"], why or "ok"))
        return 1 if (not hit or any(why for _, why in bad)) else 0
    case = r.get("case") or r["first_difference"]["case"]
    if isinstance(case, list):
        case = case[0]
    if case.startswith("LF "):
        harness = common.build_harness("ispd")
        driver = common.build_driver("ispd")
        workdir = os.path.join(scratch_base(), "c20_replay_%d" % os.getpid())
        os.makedirs(workdir, exist_ok=True)
        try:
            recs, info = evaluate_life(ctx, harness, driver, [case], workdir)
        finally:
            shutil.rmtree(workdir, ignore_errors=True)
        print("case  :", case)
        bad = bool(info.get("cases_without_outcome"))
        for rec in recs:
            orig = circuit_of_line(rec["case"])
            print("--", rec["name_note"])
            print("   circuit at that moment:", rec["case"].split(" ", 2)[2][:300])
            print("   python:", rec["py"][:300])
            if rec["impl"].rsplit(" # ", 1)[0] != rec["m_files"].rsplit(" # ", 1)[0]:
                print("   files differ from the model of that state:", first_diff(rec["impl"].rsplit(" # ", 1)[0], rec["m_files"].rsplit(" # ", 1)[0])); bad = True
            if (rec["py"] if rec["py"].startswith("R ") else "ERR") != rec["m_read"]:
                print("   reader differs from the model's reader"); bad = True
            if in_domain(orig):
                if rec["py"].startswith("R "):
                    d = compare_roundtrip(orig, parse_circuit([int(x) for x in rec["py"].split()[1:]]))
                    for kind, detail in d:
                        print("   differs:", kind, "--", detail)
                    bad = bad or bool(d) or rec.get("hpwl_back_impl") != rec["impl"].rsplit(" # ", 1)[1].strip()
                else:
                    print("   the reader refused an exported circuit"); bad = True
        return 1 if bad else 0
    if case.startswith("NG "):
        harness = common.build_harness("ispd")
        driver = common.build_driver("ispd")
        workdir = os.path.join(scratch_base(), "c20_replay_%d" % os.getpid())
        os.makedirs(workdir, exist_ok=True)
        try:
            recs, _ = evaluate_names(ctx, harness, driver, [case], workdir)
        finally:
            shutil.rmtree(workdir, ignore_errors=True)
        print("case  :", case)
        bad = False
        for rec in recs:
            orig = circuit_of_line(rec["case"])
            print("--", rec["name_note"])
            print("   files :", rec["impl"][:400])
            print("   python:", rec["py"][:400])
            if rec.get("o1") and rec["py"].startswith(O1_MSG):
                print("   (finding F27: the export path prefix is in the .aux again)")
            if rec["impl"].rsplit(" # ", 1)[0] != rec["m_files"].rsplit(" # ", 1)[0]:
                print("   files differ from the model:", first_diff(rec["impl"].rsplit(" # ", 1)[0], rec["m_files"].rsplit(" # ", 1)[0])); bad = True
            if (rec["py"] if rec["py"].startswith("R ") else "ERR") != rec["m_read"]:
                print("   reader differs from the model's reader:", rec["m_read"][:400]); bad = True
            if not rec["py"].startswith("R ") and reader_error_class(rec["py"]) not in EXPECTED_READER_ERRORS:
                print("   the reader run is no refusal by coloquinte.py (stand-in / glue failure):", reader_error_class(rec["py"])); bad = True
            if in_domain(orig):
                if rec["py"].startswith("R "):
                    d = compare_roundtrip(orig, parse_circuit([int(x) for x in rec["py"].split()[1:]]))
                    for kind, detail in d:
                        print("   differs:", kind, "--", detail)
                    bad = bad or bool(d) or rec.get("hpwl_back_impl") != rec["impl"].rsplit(" # ", 1)[1].strip()
                else:
                    print("   the reader refused an exported circuit"); bad = True
        return 1 if bad else 0
    if not case.startswith("EX "):
        print("nothing to replay:", case)
        return 1
    harness = common.build_harness("ispd")
    driver = common.build_driver("ispd")
    workdir = os.path.join(scratch_base(), "c20_replay_%d" % os.getpid())
    os.makedirs(workdir, exist_ok=True)
    try:
        rec = evaluate(ctx, harness, driver, [case], workdir)[0]
    finally:
        shutil.rmtree(workdir, ignore_errors=True)
    orig = circuit_of_line(case)
    print("case  :", case)
    print("files :", rec["impl"])
    print("model :", rec["m_files"])
    print("python:", rec["py"])
    print("m_read:", rec["m_read"])
    bad = rec["impl"].rsplit(" # ", 1)[0] != rec["m_files"].rsplit(" # ", 1)[0]
    bad = bad or (rec["py"] if rec["py"].startswith("R ") else "ERR") != rec["m_read"]
    if not rec["py"].startswith("R ") and reader_error_class(rec["py"]) not in EXPECTED_READER_ERRORS:
        print("the reader run is no refusal by coloquinte.py (stand-in / glue failure):", reader_error_class(rec["py"])); bad = True
    if in_domain(orig):
        if rec["py"].startswith("R "):
            d = compare_roundtrip(orig, parse_circuit([int(x) for x in rec["py"].split()[1:]]))
            for kind, detail in d:
                print("differs:", kind, "--", detail)
            bad = bad or bool(d) or rec.get("hpwl_back_impl") != rec["impl"].rsplit(" # ", 1)[1].strip()
        else:
            bad = True
    return 1 if bad else 0
