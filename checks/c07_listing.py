"""C07, tie of the machine-integer listings to the source (part of ./check C07; wired in by checks/c07.py).
tools/machine_ops.py walks clang's AST of the functions that the listings coq/*Machine*.v transcribe (table LISTINGS / TIED of
the script) in the tree under check (common.REPO = /repo or VERIF_REPO) and rewrites coq/MachineOps_gen.v: every + - * / % << (and
compound assignment), unary - ++ --, abs at int / long / long long, every integral conversion that narrows to a signed type and
every float -> integer conversion, each with function, operator, result type and normalised source text.  The hand-written
coq/MachineOpsCover.v names for each of them the listing value that covers it or an exclusion with a reason, and lists
(callees_not_inlined) every function of the repo that a function of the table calls without being in the table itself;
Properties_C07_listing.v evaluates MachineOps.ops_covered_b on the two (theorem c07_listings_cover_every_signed_operation), so a
function that gains, loses or retypes an operation, or whose expression text changes, breaks the build of that file.
  regenerate(ctx) -> (table or None, error or None)      rewrites the generated file
  status(ctx)     -> (ok, info)                          regenerate + common.proof_status(ctx, "C07_listing") + counts
  check(ctx)      -> info                                status + ctx.violation(..., found_input=False) naming the first
                                                          uncovered / stale operation when the obligation is broken
A broken obligation is not a failing input: the sanitizer streams of checks/c07.py keep searching for one."""
import os
import re
from tools import common, machine_ops

GEN = os.path.join(common.COQ, "MachineOps_gen.v")
COVER = os.path.join(common.COQ, "MachineOpsCover.v")


def regenerate(ctx=None):
    """route-1 translator: the table of operations of the tree under check, before the proof build"""
    try:
        table = machine_ops.translate(common.REPO)
        machine_ops.write_gen(GEN, machine_ops.coq_text(table))
        return table, None
    except machine_ops.TranslateError as e:
        machine_ops.write_gen(GEN, machine_ops.stub_text(e))
        return None, str(e)


_STR = r'"((?:[^"]|"")*)"'


def parse_cover(path=COVER):
    """[(listing, function, [(kind, type, text, occurrence, 'Listed fn pos ty' | 'Excluded reason')])] read from the hand-written
    cover file (used only to NAME what the Coq theorem rejects and to count; the decision is Coq's)"""
    txt = open(path).read()
    txt = txt[txt.index("Definition cover_funs"):]
    funs = []
    heads = list(re.finditer(r"mkCF\s+%s\s+%s\s*\[" % (_STR, _STR), txt))
    for i, h in enumerate(heads):
        body = txt[h.end():heads[i + 1].start() if i + 1 < len(heads) else len(txt)]
        ents = []
        for m in re.finditer(r"mkC\s+(\((?:ONarrow|OFloatToInt)\s+\w+\)|\w+)\s+(\w+)\s+%s\s+(\d+)\s*\(\s*(Listed\s+%s\s+\d+\s+\w+|Excluded\s+\w+)" % (_STR, _STR), body):
            kind = m.group(1).strip("()")
            ents.append((kind, m.group(2), m.group(3).replace('""', '"'), int(m.group(4)), re.sub(r"\s+", " ", m.group(5))))
        funs.append((h.group(1), h.group(2), ents))
    return funs


def first_difference(table, cover):
    """independent replica of the matching part of MachineOps.ops_covered_b: the first place where the generated table and the
    cover disagree, in words (None when they agree)"""
    for i in range(max(len(table), len(cover))):
        if i >= len(cover):
            return "function %s (%s) of the generated table has no entry in the cover table" % (table[i][1], table[i][0])
        if i >= len(table):
            return "stale cover: function %s (%s) is not in the generated table" % (cover[i][1], cover[i][0])
        (tl, tf, tops), (cl, cf, cents) = table[i][:3], cover[i]
        if (tl, tf) != (cl, cf):
            tn, cn = [t[1] for t in table], [c[1] for c in cover]
            if tf not in cn:
                return "function %s (%s) of the generated table has no entry in the cover table" % (tf, tl)
            if cf not in tn:
                return "stale cover: function %s (%s) is not in the generated table" % (cf, cl)
            return "the cover lists %s where the generated table has %s (order of the functions)" % (cf, tf)
        for j in range(max(len(tops), len(cents))):
            o = tops[j] if j < len(tops) else None
            e = cents[j] if j < len(cents) else None
            if o is not None and e is not None and (o[0], o[1], o[2], o[3]) == (e[0], e[1], e[2], e[3]):
                continue
            if o is None:
                return "%s: stale cover entry #%d `%s` (%s at %s): the source has no such operation any more" % (tf, j, e[2], e[0], e[1])
            later = [x for x in cents[j:] if (x[0], x[1], x[2], x[3]) == (o[0], o[1], o[2], o[3])]
            if e is None or later:
                what = "an operation that the cover does not have at this position"
            elif (o[0], o[2]) == (e[0], e[2]) and o[1] != e[1]:
                what = "RETYPED: the cover has it at %s" % e[1]
            elif (o[0], o[1]) == (e[0], e[1]):
                what = "changed text: the cover has `%s`" % e[2]
            else:
                what = "the cover has `%s` (%s at %s) here" % (e[2], e[0], e[1])
            return "%s (line %d): operation #%d `%s` (%s at %s) is neither covered by a listing value nor excluded -- %s" % (
                tf, o[4], j, o[2], o[0], o[1], what)
    return None


def parse_callees(path=COVER):
    """{name: reason} of the hand-written list callees_not_inlined"""
    txt = open(path).read()
    m = re.search(r"Definition callees_not_inlined[^\[]*\[(.*?)\]\.", txt, re.S)
    return {e.group(1): e.group(2) for e in re.finditer(r"\(%s,\s*%s\)" % (_STR, _STR), m.group(1))} if m else {}


def callee_difference(table, callees):
    """independent replica of MachineOps.calls_okb, in words (None when it holds)"""
    need = machine_ops.callees_outside(table)
    for c, by in need.items():
        if c not in callees:
            return ("%s calls %s, a function of the repo that is neither in the table of tools/machine_ops.py nor in callees_not_inlined "
                    "(coq/MachineOpsCover.v): a new callee, possibly with arithmetic that no listing covers" % (", ".join(by), c))
    for c in callees:
        if c not in need:
            return "stale entry of callees_not_inlined: %s is %s" % (c, "a function of the table" if c in set(machine_ops.base_name(t[1]) for t in table) else "not called by any function of the table")
    return None


def counts(table, cover):
    c = machine_ops.counts(table) if table else {}
    listed = sum(1 for f in cover for e in f[2] if e[4].startswith("Listed"))
    by_reason = {}
    for f in cover:
        for e in f[2]:
            if e[4].startswith("Excluded"):
                r = e[4].split()[1]
                by_reason[r] = by_reason.get(r, 0) + 1
    c.update({"listings_tied": sorted(set(t[0] for t in (table or []))), "calls_to_repo_functions": sum(len(t[3]) for t in (table or [])), "cover_entries": sum(len(f[2]) for f in cover),
              "covered_by_a_listing_value": listed, "excluded_by_reason": by_reason,
              "not_listed": ["%s: %s" % (f[1], e[2]) for f in cover for e in f[2] if e[4] == "Excluded ENotListed"]})
    return c


def status(ctx):
    table, terr = regenerate(ctx)
    ok, proof = common.proof_status(ctx, "C07_listing")
    try:
        cover = parse_cover()
    except (OSError, ValueError) as e:
        cover, terr = [], (terr or "") + " cover table unreadable: %s" % e
    info = {"proof": proof, "translator_error": terr, "counts": counts(table, cover)}
    try:
        callees = parse_callees()
    except (OSError, ValueError):
        callees = {}
    info["callees_not_inlined"] = callees
    info["callees_outside_table"] = machine_ops.callees_outside(table) if table is not None else None
    diff = first_difference(table, cover) if table is not None else None
    if table is not None and diff is None:
        diff = callee_difference(table, callees)
    info["first_difference"] = diff
    if terr:
        ok = False
        info["message"] = ("tools/machine_ops.py cannot translate the tree under check (%s): the tie of the C07 listings to the source is not "
                           "established" % terr[:300])
    elif not ok:
        info["message"] = ("theorem c07_listings_cover_every_signed_operation does not hold for the table generated from this tree: %s"
                           % diff) if diff else "proof obligations of Properties_C07_listing.v do not check"
    elif diff:
        # cannot happen unless this replica and the Coq rule disagree: say so rather than hide it
        ok = False
        info["message"] = "checks/c07_listing.py and MachineOps.ops_covered_b disagree: python sees `%s`, Coq accepts the tables" % diff
    return ok, info


def check(ctx):
    ok, info = status(ctx)
    if not ok:
        ctx.violation("C07 listings: " + info["message"] + "; the sanitizer streams search for a failing input separately",
                      {"broken": "c07_listings_cover_every_signed_operation (Properties_C07_listing.v) over coq/MachineOps_gen.v / coq/MachineOpsCover.v",
                       "first_difference": info.get("first_difference"), "translator_error": info.get("translator_error"),
                       "detail": info["proof"]}, found_input=False)
    return info


def replay(ctx, path=None):
    """replay of a listing violation (its replay record has no `case`): the obligation is re-evaluated on the tree under check"""
    ok, info = status(ctx)
    print("listing tie:", "holds" if ok else "BROKEN: " + str(info.get("message")))
    print("counts:", info["counts"])
    return 0 if ok else 1
