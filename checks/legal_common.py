"""shared by C01 / C04 / C11: run Circuit::legalize (from /repo) and the extracted legalizer model on
the same circuits (the model is fed the implementation's own cell order), diff, and evaluate the
proved boolean checkers (legalb, orient_okb) on the implementation's result."""
from tools import common


def split_case(line):
    """'LG <rows> <cells> custom ow oy oh effort twice' -> (circuit_tokens, params)"""
    t = line.split()[1:]
    return t[:-6], [int(x) for x in t[-6:]]


def ncells_of(ctoks):
    nr = int(ctoks[0])
    return int(ctoks[1 + 5 * nr])


def cells_of(ctoks):
    nr = int(ctoks[0])
    p = 1 + 5 * nr
    nc = int(ctoks[p])
    p += 1
    return [[int(x) for x in ctoks[p + 8 * i:p + 8 * i + 8]] for i in range(nc)], p


def with_placement(ctoks, pl):
    """circuit tokens with x y orient of every cell replaced by pl (flat list of 3*ncells ints)"""
    cells, p = cells_of(ctoks)
    out = list(ctoks[:p])
    for i, c in enumerate(cells):
        c = list(c)
        c[0], c[1], c[4] = pl[3 * i], pl[3 * i + 1], pl[3 * i + 2]
        out += [str(v) for v in c]
    return out


def parse_impl(res):
    """'<outcome><placement> @ order' -> (kind, placement ints or None, order tokens)"""
    if " @ " not in res:
        return ("CRASH:" + res.strip()[:40], None, ["0"])
    body, order = res.rsplit(" @ ", 1)
    toks = body.split()
    kind = toks[0] if toks else "EMPTY"
    if kind == "OK":
        return ("OK", [int(x) for x in toks[1:]], order.split())
    if ";" in toks:
        k = toks.index(";")
        return (" ".join(toks[:k]), [int(x) for x in toks[k + 1:]], order.split())
    return (" ".join(toks), None, order.split())


class LegalRun:
    def __init__(self, ctx, modes_counts, harness_name="legal", variant="plain"):
        self.ctx = ctx
        self.harness = common.build_harness(harness_name, variant)
        self.driver = common.build_driver()
        self.lines = common.corpus(ctx.prop, ("LG ",))
        for mode, count, seed in modes_counts:
            self.lines += common.harness_gen(self.harness, ["rand", seed, count, mode])

    def execute(self):
        lines = self.lines
        impl, _, errs = common.run_both([self.harness, "run"], None, lines)
        self.impl = impl
        # model input: first run (and second run for 'twice' cases) with the implementation's own order
        minp, mmap = [], []      # mmap: (case index, run index)
        linp, lmap = [], []      # proved checkers on the implementation's results
        self.parsed = []
        for i, (l, res) in enumerate(zip(lines, impl)):
            ctoks, params = split_case(l)
            runs = res.split(" || ")
            pr = [parse_impl(r) for r in runs]
            self.parsed.append(pr)
            cur = ctoks
            for k, (kind, pl, order) in enumerate(pr):
                minp.append("LG " + " ".join(cur) + " " + " ".join(order))
                mmap.append((i, k))
                if pl is not None and len(pl) == 3 * ncells_of(ctoks):
                    linp.append("LC " + " ".join(cur) + " " + " ".join(str(v) for v in pl))
                    lmap.append((i, k))
                    cur = with_placement(cur, pl)
                else:
                    break
        mout, _, _ = common.run_both([self.driver], None, minp)
        lout, _, _ = common.run_both([self.driver], None, linp)
        self.model = {}
        for (i, k), o in zip(mmap, mout):
            self.model[(i, k)] = o
        self.checks = {}
        for (i, k), o in zip(lmap, lout):
            self.checks[(i, k)] = o.split()
        return self

    def model_cmp(self, i, k):
        """returns (same, impl_str, model_str) for run k of case i"""
        kind, pl, _ = self.parsed[i][k]
        m = self.model.get((i, k), "<missing>")
        mres = m.split(" | ")[0].strip()
        if kind == "OK":
            istr = "OK " + " ".join(str(v) for v in pl)
        else:
            istr = kind
        return (" ".join(istr.split()) == " ".join(mres.split())), istr, mres

    def model_flags(self, i, k):
        m = self.model.get((i, k), "")
        if " | " not in m:
            return ["?", "?", "?"]
        return m.split(" | ")[1].split()


def distribution(run):
    d = {"cases": len(run.lines), "outcomes": {}, "cells": {}, "with_multirow": 0, "with_polarity": 0, "with_turned": 0,
         "with_fixed": 0, "with_split_rows": 0}
    for i, l in enumerate(run.lines):
        ctoks, params = split_case(l)
        cells, _ = cells_of(ctoks)
        kind = run.parsed[i][0][0]
        d["outcomes"][kind] = d["outcomes"].get(kind, 0) + 1
        b = min(len(cells) // 4 * 4, 12)
        d["cells"]["%d-%d" % (b, b + 3)] = d["cells"].get("%d-%d" % (b, b + 3), 0) + 1
        d["with_polarity"] += any(c[5] != 0 and not c[6] for c in cells)
        d["with_turned"] += any(c[4] in (2, 3, 6, 7) and not c[6] for c in cells)
        d["with_fixed"] += any(c[6] for c in cells)
        nr = int(ctoks[0])
        ys = [ctoks[1 + 5 * r + 2] for r in range(nr)]
        d["with_split_rows"] += len(set(ys)) < len(ys)
    return d


TURNED = (2, 3, 6, 7)


def rows_of(ctoks):
    nr = int(ctoks[0])
    return [[int(x) for x in ctoks[1 + 5 * r:6 + 5 * r]] for r in range(nr)]


def std_design(ctoks):
    """the domain of c01_legalize_circuit_legal (std_design of coq/LegalizerSoundProofs.v = the property's quantifier) on LG circuit
    tokens: rows of one positive height, pairwise disjoint rectangles, not turned; movable cells of positive placed width whose placed
    height is a positive multiple of the row height, turned only without row polarity.  Returns None (inside) or the reason."""
    rows = rows_of(ctoks)
    cells, _ = cells_of(ctoks)
    if not rows:
        return None if all(c[6] for c in cells) else "no row"
    rh = rows[0][3] - rows[0][2]
    if rh <= 0 or any(r[3] - r[2] != rh for r in rows):
        return "rows not of one positive height"
    if any(r[0] > r[1] for r in rows):
        return "inverted row (minX > maxX: outside the domain of the free-space model, see C15)"
    if any(r[4] not in (0, 1, 4, 5) for r in rows):
        return "turned row"
    for i, a in enumerate(rows):
        for b in rows[i + 1:]:
            if not (a[1] <= b[0] or b[1] <= a[0] or a[3] <= b[2] or b[3] <= a[2]):
                return "rows overlap"
    for c in cells:
        if c[6]:
            continue
        pw, ph = (c[3], c[2]) if c[4] in TURNED else (c[2], c[3])
        if pw <= 0 or ph <= 0 or ph % rh != 0:
            return "movable cell of non-positive width or of a height that is no positive multiple of the row height"
        if c[4] in TURNED and c[5] != 0:
            return "turned movable cell with a row polarity"
        if not 0 <= c[4] <= 7:
            return "orientation out of range"
    return None


def parse_outcome(res):
    """'OK x y o ...' | 'NOROW ; x y o ...' | 'THROW msg ; x y o ...' -> (kind, placement ints or None)"""
    toks = res.split()
    if not toks:
        return ("EMPTY", None)
    try:
        if toks[0] == "OK":
            return ("OK", [int(x) for x in toks[1:]])
        if ";" in toks:
            k = len(toks) - 1 - toks[::-1].index(";")
            return (" ".join(toks[:k]), [int(x) for x in toks[k + 1:]])
    except ValueError:
        pass
    return (" ".join(toks)[:200], None)
