#!/usr/bin/env python3
"""Correspondence run for the review-gap model extension of C12 (coq/ReviewGaps2C12Model.v: clear(),
lastAvailablePos(), histories containing them): extracted model (coq/Extract_gaps2.v, ocaml/driver_gaps2.ml) vs
RowLegalizer of /repo's working tree (harness/rowleg_clear.cpp) on the same generated histories, exact equality
of every returned cost, every lastAvailablePos() and the final getPlacement().
Standalone (not registered in ./check): `python3 checks/gaps2_tie.py [seed] [count]`; exit 0 = no difference.
To be wired into checks/c12.py by the lead when Properties_gaps2_C12.v is merged."""
import os, sys
sys.path.insert(0, os.path.join(os.path.dirname(os.path.abspath(__file__)), ".."))
from tools import common


def main():
    seed = int(sys.argv[1]) if len(sys.argv) > 1 else int(os.environ.get("VERIF_SEED", "1"))
    count = int(sys.argv[2]) if len(sys.argv) > 2 else 20000
    common.coq_project()
    h = common.build_harness("rowleg_clear")
    d = common.build_driver("gaps2")
    lines = common.harness_gen(h, ["rand", seed, count])
    lines += ["RC 0 6 8 0 2 5 3 0 0 2 0 0 3 0 0 0 2 5 1 1 -3 0 1 -3 3 0 0"]   # the Example c12_history_nonvacuous
    impl, model, errs = common.run_both([h, "run"], [d], lines)
    diffs = [(l, a, b) for l, a, b in zip(lines, impl, model) if a != b]
    nclear = sum(1 for l in lines if " 2 0 0" in l)
    nlast_none = sum(1 for a in impl if "L none" in a)
    nlast = sum(1 for a in impl if "L " in a)
    print("gaps2 C12 tie: seed %d, %d histories (%d distinct), %d with clear(), %d with lastAvailablePos() "
          "(%d of them on an empty legalizer), differences: %d" %
          (seed, len(lines), len(set(lines)), nclear, nlast, nlast_none, len(diffs)))
    for l, a, b in diffs[:5]:
        print("  case  %s\n  impl  %s\n  model %s" % (l, a, b))
    return 1 if diffs or errs else 0


if __name__ == "__main__":
    sys.exit(main())
