"""C11 / C01, tie of the CLOSED legalizer model (coq/CellOrder.v: cell_order = LegalizerBase::computeCellOrder over Q,
legalize_real = Legalizer::run with the computed order; theorems c11_legalize_real_order_* of coq/Properties_C11.v and
c01_/c04_legalize_real_* of coq/Properties_C01_order.v).

harness/order.cpp calls the real computeCellOrder(1.0, orderingWidth, orderingY, orderingHeight) on
Legalizer::fromIspdCircuit(circuit) and the real Circuit::legalize with the same parameters; ocaml/driver_order.ml
evaluates cell_order p c and legalize_real p c with p the same fractions as exact rationals.

EXACT cases.  The C++ evaluates key = 1.0f*x + ow*w + oy*y + oh*h in binary32 (parameters double -> float, integers
-> float, every product and every partial sum rounded).  A case is *exact* when, for every movable cell, the three
parameters n/d have d a power of two, and every product and every left-to-right partial sum t satisfies: t * 2^S is an
integer of magnitude < 2^24 (S = max log2 d).  A binary32 number has a 24-bit significand and its exponent range is
not approached here, so each such t is representable, every rounding is the identity, and the float key EQUALS the
rational key of the model (this also holds if the compiler contracts a*b+c into a fused multiply-add).  On exact
cases the order vectors are compared EXACTLY; a difference is a broken correspondence.

INEXACT cases (tenths such as 0.1, or magnitudes beyond the bound).  The model's order may legitimately differ from
the code's (rounded keys tie or invert where the exact keys do not): such differences are only COUNTED
(`order_differs_inexact`).  In addition the binary32 evaluation is emulated here with correctly rounded rational
arithmetic (round-to-nearest-even to 24 bits after every operation, IEEE 754 as g++ emits it for x86-64/SSE); an
implementation order that differs from the emulation as well is reported in `differs_from_binary32_emulation`.

Whenever the two order vectors are equal, the outcome and placement of Circuit::legalize must equal legalize_real's.

Library: run_order(ctx_or_None, count, seed) -> dict.   Stand-alone: python3 -m checks.c11_order [seed] [count]"""
import sys
from fractions import Fraction
from tools import common

TURNED = (2, 3, 6, 7)


def split_or(line):
    """'OR <rows> <cells> wn wd yn yd hn hd effort' -> (cells [[x y w h o pol fixed obs]], params [6 ints], effort)"""
    t = line.split()[1:]
    nr = int(t[0]); p = 1 + 5 * nr
    nc = int(t[p]); p += 1
    cells = [[int(v) for v in t[p + 8 * i:p + 8 * i + 8]] for i in range(nc)]
    p += 8 * nc
    return cells, [int(v) for v in t[p:p + 6]], int(t[p + 6])


def leg_cells(cells):
    """Legalizer::fromIspdCircuit: movable cells in circuit order, (target x, placed width, target y, placed height)"""
    out = []
    for x, y, w, h, o, pol, fixed, obs in cells:
        if fixed:
            continue
        if o in TURNED:
            w, h = h, w
        out.append((x, w, y, h))
    return out


def is_pow2(d):
    return d > 0 and d & (d - 1) == 0


def exact_keys(lc, q):
    """(exact?, [rational key per cell])"""
    ws = [Fraction(1), Fraction(q[0], q[1]), Fraction(q[2], q[3]), Fraction(q[4], q[5])]
    dy = all(is_pow2(d) for d in (q[1], q[3], q[5]))
    S = max(q[1], q[3], q[5])          # 2^S as an integer
    ok = dy
    keys = []
    for c in lc:
        acc = None
        for wgt, v in zip(ws, c):
            t = wgt * v
            for u in ((t,) if acc is None else (t, acc + t)):
                m = u * S
                if dy and (m.denominator != 1 or abs(m.numerator) >= 1 << 24):
                    ok = False
            acc = t if acc is None else acc + t
        keys.append(acc)
    return ok, keys


def rnd32(v):
    """round a Fraction to the nearest binary32 (ties to even); magnitudes here stay far inside the normal range"""
    if v == 0:
        return Fraction(0)
    s = -1 if v < 0 else 1
    a = abs(v)
    e = a.numerator.bit_length() - a.denominator.bit_length()      # 2^(e-1) <= a < 2^(e+1)
    if Fraction(2) ** e > a:
        e -= 1                                                         # now 2^e <= a < 2^(e+1)
    ulp = Fraction(2) ** (e - 23)
    n = a / ulp
    f = n.numerator // n.denominator
    r = n - f
    if r > Fraction(1, 2) or (r == Fraction(1, 2) and f % 2 == 1):
        f += 1
    return s * f * ulp


def float_order(lc, q):
    """the order binary32 evaluation gives: parameters (double)n/(double)d narrowed to float"""
    ws = [Fraction(1)] + [rnd32(Fraction(q[2 * i] / q[2 * i + 1])) for i in range(3)]     # python float division = C double division
    keys = []
    for c in lc:
        acc = None
        for wgt, v in zip(ws, c):
            t = rnd32(wgt * rnd32(Fraction(v)))
            acc = t if acc is None else rnd32(acc + t)
        keys.append(acc)
    return sorted(range(len(lc)), key=lambda i: (keys[i], i))


# ---------------------------------------------------------------- binary32 model inside Coq (coq/CellOrderFloat.v)
ORIENT = ["oN", "oS", "oW", "oE", "oFN", "oFS", "oFW", "oFE", "oINVALID", "oUNKNOWN"]
POL = ["pANY", "pSAME", "pOPPOSITE", "pNW", "pSE"]
# orderingHeight = 8, row 2^20 - 1 high, unit cells at x = 10 (index 0) and 9 (index 1): equal binary32 keys (theorem c11_float_order_refuted)
OF_WITNESS = "OR 1 0 16 0 1048575 0 2 10 0 1 1048575 0 0 0 1 9 0 1 1048575 0 0 0 1 1 2 0 1 8 1 3"


def gallina_case(line):
    """(Gallina circuit, Gallina double parameters) of an OR line"""
    t = [int(v) for v in line.split()[1:]]
    nr = t[0]; p = 1
    rows = []
    for _ in range(nr):
        a, b, c, d, o = t[p:p + 5]; p += 5
        rows.append("{| rr := {| minX := (%d); maxX := (%d); minY := (%d); maxY := (%d) |}; ro := %s |}" % (a, b, c, d, ORIENT[o if 0 <= o <= 8 else 9]))
    nc = t[p]; p += 1
    cells = []
    for _ in range(nc):
        x, y, w, h, o, pol, fx, ob = t[p:p + 8]; p += 8
        cells.append("{| c_x := (%d); c_y := (%d); c_w := (%d); c_h := (%d); c_o := %s; c_pol := %s; c_fixed := %s; c_obs := %s |}"
                     % (x, y, w, h, ORIENT[o if 0 <= o <= 8 else 9], POL[pol if 0 <= pol <= 3 else 4], "true" if fx else "false", "true" if ob else "false"))
    q = t[p:p + 6]
    circ = "{| rows := [%s]; cells := [%s] |}" % ("; ".join(rows), "; ".join(cells))
    par = "{| opd_w := d_of_frac (%d) (%d); opd_y := d_of_frac (%d) (%d); opd_h := d_of_frac (%d) (%d) |}" % tuple(q)
    return circ, par


def float_tie(ctx, count, seed, only_lines=None):
    """cell_order_f (Flocq binary32 model of computeCellOrder: double -> float parameter conversion, int -> float, one rounding
    per operator, std::pair order, stable sort) evaluated INSIDE Coq by vm_compute, compared exactly with the vector returned by the
    real computeCellOrder, on NON-dyadic parameters (<= 100 cases per run); and legalize_float (the closed model with that order)
    compared with the outcome of Circuit::legalize.  Returns a dict (differences under 'order_mismatch', 'placement_mismatch', 'crash')."""
    import re
    harness = common.build_harness("order")
    count = min(count, 100)
    if only_lines is not None:
        lines = list(only_lines)
    else:
        wit = ["OR" + l[2:] for l in common.corpus("C11", ("OF ",))] or [OF_WITNESS]       # corpus/C11/cases.txt: OF lines = OR format
        lines = wit + [l for l in common.harness_gen(harness, ["randf", seed, 3 * count]) if len(leg_cells(split_or(l)[0])) >= 2][:count - len(wit)]
    impl, _, _ = common.run_both([harness, "run"], None, lines)
    res = {"cases": len(lines), "orders_equal": 0, "placements_equal": 0, "order_mismatch": [], "placement_mismatch": [], "crash": [],
           "nondyadic": 0, "in_theorem_domain": 0, "float_order_differs_from_rational_model": 0,
           "witness_tie_reproduced_on_cpp": False, "lines": lines,
           "flags": "harness and library built with g++ -std=gnu++17 -O1 for x86-64 (SSE scalar arithmetic, no -ffast-math, no -mfma: no contraction)"}
    exprs = []
    for l in lines:
        circ, par = gallina_case(l)
        exprs.append("cell_order_f (%s) (%s)" % (par, circ))
        exprs.append("match legalize_float (%s) (%s) with LegOk c => (0, map (fun k => (c_x k, c_y k, c_o k)) (cells c)) | LegNoRow => (1, []) | LegNotAllPlaced => (2, []) end" % (par, circ))
    out = common.vm_eval("C11f", "From Coq Require Import List ZArith. From Flocq Require Import Core BinarySingleNaN. Import ListNotations. "
                                 "Require Import CV.Orient CV.FreeSpace CV.Circuit CV.Legalizer CV.SpreadFloat CV.CellOrderFloat. Local Open Scope Z_scope.", exprs, timeout=900)
    if out is None:
        res["crash"].append(("-", "", "", "vm_compute evaluation of CellOrderFloat.cell_order_f failed"))
        return res
    for k, (l, i) in enumerate(zip(lines, impl)):
        ip = i.strip().split(" | ")
        if len(ip) != 2:
            res["crash"].append((l, i[-200:], "", "order harness did not return an order and an outcome"))
            continue
        cells, q, _ = split_or(l)
        lc = leg_cells(cells)
        iord = [int(v) for v in ip[0].split()][1:]
        mord = [int(v) for v in re.findall(r"\d+", out[2 * k].replace("%nat", ""))]
        res["nondyadic"] += 0 if all(is_pow2(d) for d in (q[1], q[3], q[5])) else 1
        dom = 0 <= q[0] <= q[1] and abs(q[2]) <= 2 * q[3] and abs(q[4]) <= 4 * q[5] and all(max(abs(v) for v in c) <= 1 << 20 for c in lc)
        res["in_theorem_domain"] += 1 if dom else 0
        _, keys = exact_keys(lc, q)
        rord = sorted(range(len(lc)), key=lambda j: (keys[j], j))
        if mord != rord:
            res["float_order_differs_from_rational_model"] += 1
        if l == OF_WITNESS and iord == [0, 1]:
            res["witness_tie_reproduced_on_cpp"] = True
        if iord != mord:
            res["order_mismatch"].append((l, ip[0], " ".join(str(v) for v in [len(mord)] + mord)))
            continue
        res["orders_equal"] += 1
        # legalize_float: (0, [(x, y, o); ...]) | (1, []) | (2, [])
        m = re.match(r"\(\s*(\d)\s*,\s*(.*)\)\s*$", out[2 * k + 1], re.S)
        kind = {"0": "OK", "1": "NOROW", "2": "NOTALL"}.get(m.group(1) if m else "", "?")
        body = m.group(2) if m else ""
        toks = re.findall(r"-?\d+|o[A-Z]+", body)
        pl = []
        for j in range(0, len(toks) - 2, 3):
            pl += [toks[j], toks[j + 1], str(ORIENT.index(toks[j + 2])) if toks[j + 2] in ORIENT else toks[j + 2]]
        mres = (kind + " " + " ".join(pl)).strip()
        if " ".join(ip[1].split()) != mres:
            res["placement_mismatch"].append((l, ip[1][-300:], mres[-300:]))
        else:
            res["placements_equal"] += 1
    return res


def float_summary(res):
    return {k: (len(v) if isinstance(v, list) else v) for k, v in res.items() if k != "lines"}


def report_float(ctx, res):
    n = 0
    fmt = "OR nrows (minX maxX minY maxY orient)* ncells (x y w h orient pol fixed obs)* wn wd yn yd hn hd effort"
    for key, broken, what in (
            ("order_mismatch", "correspondence coq/CellOrderFloat.v cell_order_f (Flocq binary32, vm_compute) <-> LegalizerBase::computeCellOrder",
             "computeCellOrder differs from the binary32 model cell_order_f evaluated inside Coq"),
            ("placement_mismatch", "correspondence coq/CellOrderFloat.v legalize_float <-> Circuit::legalize",
             "Circuit::legalize differs from legalize_float although both use the same cell order"),
            ("crash", "order harness / vm_compute evaluation of the binary32 model", "the order harness or the Coq evaluation failed")):
        if res[key]:
            first = res[key][0]
            ctx.violation("%s (%d cases); no failing input for the property itself searched here" % (what, len(res[key])),
                          {"broken": broken, "first_difference": {"case": first[0], "implementation": first[1], "model": first[2]},
                           "format": fmt}, found_input=False)
            n += 1
    return n


def run_order(ctx, count, seed, corpus_prop="C11", only_lines=None):
    harness = common.build_harness("order")
    driver = common.build_driver("order")
    lines = list(only_lines) if only_lines is not None else common.corpus(corpus_prop, ("OR ",)) + common.harness_gen(harness, ["rand", seed, count])
    impl, model, _ = common.run_both([harness, "run"], [driver], lines, chunk=500)
    res = {"runs": len(lines), "exact": 0, "inexact": 0, "exact_with_equal_keys": 0, "exact_nontrivial": 0,
           "order_mismatch_exact": [], "order_differs_inexact": 0, "differs_from_binary32_emulation": [],
           "placement_mismatch": [], "crash": [],
           "outcomes": {}, "ordering_width_outside_01": 0, "nondyadic": 0, "lines": lines, "nontrivial_lines": set()}
    for l, i, m in zip(lines, impl, model):
        i = i.strip(); m = m.strip()
        ip = i.split(" | "); mp = m.split(" | ")
        if len(ip) != 2 or len(mp) != 3:
            res["crash"].append((l, i[-200:], m[-200:], "harness or driver did not return an order and an outcome"))
            continue
        cells, q, _ = split_or(l)
        lc = leg_cells(cells)
        iord = [int(v) for v in ip[0].split()][1:]
        mord = [int(v) for v in mp[0].split()][1:]
        ex, keys = exact_keys(lc, q)
        kind = ip[1].split()[0] if ip[1].split() else "EMPTY"
        res["outcomes"][kind] = res["outcomes"].get(kind, 0) + 1
        res["ordering_width_outside_01"] += 1 if (q[0] < 0 or q[0] > q[1]) else 0
        res["nondyadic"] += 0 if all(is_pow2(d) for d in (q[1], q[3], q[5])) else 1
        # the model's order must be THE sorted one for the exact keys (cross-check of the extracted code, independent of the C++)
        if mord != sorted(range(len(lc)), key=lambda k: (keys[k], k)):
            res["crash"].append((l, i[-200:], m[-200:], "extracted cell_order is not the (key, index)-sorted permutation computed with exact rationals"))
            continue
        forder = float_order(lc, q)
        if ex:
            res["exact"] += 1
            if len(set(keys)) < len(keys):
                res["exact_with_equal_keys"] += 1
            if len(lc) >= 2:
                res["exact_nontrivial"] += 1
                res["nontrivial_lines"].add(l)
            if forder != mord:
                res["crash"].append((l, i[-200:], m[-200:], "binary32 emulation differs from the exact keys on a case classified exact (exactness argument wrong)"))
                continue
            if iord != mord:
                res["order_mismatch_exact"].append((l, ip[0], mp[0]))
        else:
            res["inexact"] += 1
            if iord != mord:
                res["order_differs_inexact"] += 1
            if iord != forder:
                res["differs_from_binary32_emulation"].append((l, ip[0], " ".join(str(v) for v in [len(forder)] + forder)))
        if iord == mord and " ".join(ip[1].split()) != " ".join(mp[1].split()):
            res["placement_mismatch"].append((l, ip[1][-300:], mp[1][-300:]))
    return res


def summary(res):
    out = {}
    for k, v in res.items():
        if k in ("lines", "nontrivial_lines"):
            continue
        out[k] = len(v) if isinstance(v, list) else v
    out["distinct_nontrivial_exact"] = len(res["nontrivial_lines"])
    return out


def report(ctx, res, strict_float=True):
    """turn the result of run_order into violations of the calling check (never a concrete failing input: the tie only).
    strict_float=False: differences from the binary32 emulation on inexact cases are not alarmed (only counted).
    returns the number of alarms raised"""
    n = 0
    fmt = "OR nrows (minX maxX minY maxY orient)* ncells (x y w h orient pol fixed obs)* wn wd yn yd hn hd effort"
    for key, broken, what in (
            ("order_mismatch_exact", "correspondence coq/CellOrder.v cell_order <-> LegalizerBase::computeCellOrder (exact cases)",
             "computeCellOrder differs from the model's cell_order on an input whose binary32 key evaluation is exact"),
            ("differs_from_binary32_emulation", "correspondence computeCellOrder <-> binary32 evaluation of the modelled key (inexact cases)",
             "computeCellOrder differs from the correctly rounded binary32 evaluation of the modelled key expression"),
            ("placement_mismatch", "correspondence coq/CellOrder.v legalize_real <-> Circuit::legalize",
             "Circuit::legalize differs from legalize_real although both use the same cell order"),
            ("crash", "order harness / driver", "the order harness or driver failed")):
        if key == "differs_from_binary32_emulation" and not strict_float:
            continue
        if res[key]:
            first = res[key][0]
            ctx.violation("%s (%d cases); no failing input for the property itself searched here" % (what, len(res[key])),
                          {"broken": broken, "first_difference": {"case": first[0], "implementation": first[1], "model": first[2]},
                           "format": fmt}, found_input=False)
            n += 1
    return n


def replay_case(case):
    """re-run one OR case; prints both sides; returns 1 when the tie is broken on it"""
    r = run_order(None, 0, 0, only_lines=[case])
    print("case :", case)
    print("summary:", summary(r))
    bad = r["order_mismatch_exact"] + r["differs_from_binary32_emulation"] + r["placement_mismatch"] + r["crash"]
    fr = float_tie(None, 1, 0, only_lines=[case])                      # the binary32 model inside Coq on the same case
    print("binary32 model (cell_order_f, legalize_float):", float_summary(fr))
    bad += fr["order_mismatch"] + fr["placement_mismatch"] + fr["crash"]
    for b in bad:
        print("impl :", b[1])
        print("model:", b[2])
    return 1 if bad else 0


if __name__ == "__main__":
    if len(sys.argv) > 1 and sys.argv[1] == "float":
        r = float_tie(None, int(sys.argv[3]) if len(sys.argv) > 3 else 100, int(sys.argv[2]) if len(sys.argv) > 2 else 1)
        print(float_summary(r))
        bad = r["order_mismatch"] + r["placement_mismatch"] + r["crash"]
        for b in bad[:3]:
            print(b)
        sys.exit(1 if bad else 0)
    seed = int(sys.argv[1]) if len(sys.argv) > 1 else 1
    count = int(sys.argv[2]) if len(sys.argv) > 2 else 3000
    r = run_order(None, count, seed)
    print(summary(r))
    bad = r["order_mismatch_exact"] + r["differs_from_binary32_emulation"] + r["placement_mismatch"] + r["crash"]
    for b in bad[:3]:
        print(b)
    sys.exit(1 if bad else 0)
