"""C16 -- density bins account for all free area and every cell is in one bin.
Proof: coq/Properties_C16.v (tiling, capacity = free area, hierarchy, aggregation, partition invariant over
all histories of refine/coarsen/Redistribute and of those interleaved with demand updates (DensityUpdate.v: the update is
refused, leaving everything unchanged, when a demand changes to or from zero), checker equivalence, spread coordinates over Q).
Tie: harness/density.cpp drives DensityGrid / HierarchicalDensityPlacement / DensityLegalizer of /repo's
working tree (assert-enabled "plain" variant, then the NDEBUG variant) through random interleavings of the
public API (+ the private rebisect/reoptimize/improveX/YTransport/findConstrainedSplitPos) and prints the
state after every step; ocaml/driver_density.ml follows that trace with the extracted model: geometry,
capacities of every view, parents, findBinBy*, coarsening, setBinCells exactly; refine / run / improve /
rebisect / reoptimize / transport against the model's relation (Redistribute of the touched bins) and the
proved checker partition_okb; size updates (Circuit::setCellWidth/Height + updateCellDemand(circuit), op 16) exactly
against DensityUpdate.ustep, with the checker evaluated for the demands the object holds afterwards.  The statement itself is re-evaluated on the C++ output by the independent
oracles below (so a difference comes with or without a concrete failing input)."""
import json
import math
from tools import common

LEVEL = "proof"
TURNED = (2, 3, 6, 7)   # W E FW FE


# ---------------------------------------------------------------- parsing

class Toks:
    def __init__(self, toks):
        self.t, self.p = toks, 0

    def nx(self):
        while self.p < len(self.t) and self.t[self.p] == "|":
            self.p += 1
        if self.p >= len(self.t):
            raise IndexError("short")
        v = self.t[self.p]
        self.p += 1
        return v

    def peek(self):
        while self.p < len(self.t) and self.t[self.p] == "|":
            self.p += 1
        return self.t[self.p] if self.p < len(self.t) else ""

    def i(self):
        return int(self.nx())

    def ints(self, n):
        return [self.i() for _ in range(n)]

    def expect(self, k):
        v = self.nx()
        if v != k:
            raise ValueError("expected %s got %s" % (k, v))


def parse_case(line):
    tk = Toks(line.split())
    tag = tk.nx()
    c = {"tag": tag}
    if tag == "HR":
        c["binSize"] = tk.i()
        nreg = tk.i()
        c["regions"] = [tuple(tk.ints(4)) for _ in range(nreg)]
        n = tk.i()
        c["demands"] = tk.ints(n)
        c["sizes"] = [(0, d, 1) for d in c["demands"]]   # the shadow circuit of the harness: movable, width = demand, height 1
    else:
        c["binSize"] = tk.i()
        c["margin"] = tk.i()
        nr = tk.i()
        c["rows"] = [tuple(tk.ints(5)) for _ in range(nr)]
        n = tk.i()
        c["cells"] = [tuple(tk.ints(7)) for _ in range(n)]
        c["demands"] = [0 if fx else w * h for (x, y, w, h, o, fx, ob) in c["cells"]]
        c["sizes"] = [(fx, w, h) for (x, y, w, h, o, fx, ob) in c["cells"]]
        c["regions"] = free_regions(c["rows"], c["cells"], c["margin"])
    c["n"] = n
    c["targets"] = [tuple(tk.ints(2)) for _ in range(n)]
    c["params"] = tk.ints(11)
    npb = tk.i()
    c["probes"] = tk.ints(npb)
    nops = tk.i()
    ops = []
    for _ in range(nops):
        code = tk.i()
        if code == 7:
            args = tk.ints(4)
        elif code == 8:
            k = tk.i()
            args = [k] + tk.ints(2 * k)
        elif code == 11:
            args = tk.ints(5)
        elif code == 13:
            args = tk.ints(1)
        elif code == 16:
            k = tk.i()
            args = [k] + tk.ints(3 * k)
        else:
            args = []
        ops.append((code, args))
    c["ops"] = ops
    return c


def free_regions(rows, cells, margin):
    """independent re-computation of fromIspdCircuit's regions: rows minus fixed obstructions (C15), side margin"""
    obs = []
    for (x, y, w, h, o, fx, ob) in cells:
        if fx and ob:
            pw, ph = (h, w) if o in TURNED else (w, h)
            if pw > 0 and ph > 0:
                obs.append((x, x + pw, y, y + ph))
    out = []
    for (a, b, c, d, _o) in rows:
        if not (a < b and c < d):
            continue
        ivs = [(a, b)]
        for (oa, ob_, oc, od) in obs:
            if oc < d and c < od:
                nxt = []
                for (lo, hi) in ivs:
                    if lo < min(hi, oa):
                        nxt.append((lo, min(hi, oa)))
                    if max(lo, ob_) < hi:
                        nxt.append((max(lo, ob_), hi))
                ivs = nxt
        for (lo, hi) in ivs:
            if hi - lo > 2 * margin:
                out.append((lo + margin, hi - margin, c, d))
    return out


def parse_state(tk, n, npb):
    tk.expect("S")
    lx, ly, nbx, nby = tk.ints(4)
    s = {"lx": lx, "ly": ly, "nbx": nbx, "nby": nby}
    s["limx"] = tk.ints(nbx + 1)
    s["limy"] = tk.ints(nby + 1)
    s["parx"] = tk.ints(nbx)
    s["pary"] = tk.ints(nby)
    caps = tk.ints(nbx * nby)
    s["cap"] = [caps[i * nby:(i + 1) * nby] for i in range(nbx)]
    bins = []
    for i in range(nbx):
        col = []
        for j in range(nby):
            k = tk.i()
            col.append(tk.ints(k))
        bins.append(col)
    s["bins"] = bins
    s["cbx"] = tk.ints(n)
    s["cby"] = tk.ints(n)
    s["fbx"] = tk.ints(npb)
    s["fby"] = tk.ints(npb)
    return s


def parse_trace(trace, case):
    """trace printed by the harness -> dict; raises on a malformed trace"""
    tk = Toks(trace.split())
    n, npb = case["n"], len(case["probes"])
    tk.expect("G")
    nbx = tk.i()
    g = {"limx": tk.ints(nbx + 1)}
    nby = tk.i()
    g["limy"] = tk.ints(nby + 1)
    caps = tk.ints(nbx * nby)
    g["cap"] = [caps[i * nby:(i + 1) * nby] for i in range(nbx)]
    g["total"] = tk.i()
    g["area"] = tk.ints(4)
    tk.expect("L")
    for key in ("x", "y"):
        nl = tk.i()
        lv = []
        for _ in range(nl):
            k = tk.i()
            lv.append((tk.ints(k), tk.ints(k - 1)))
        g["levels" + key] = lv
    states = [parse_state(tk, n, npb)]
    ops = []
    for (code, args) in case["ops"]:
        tk.expect("O")
        c2 = tk.i()
        if c2 != code:
            raise ValueError("trace out of step")
        rec = {"code": code, "na": False, "T": None, "U": None, "state": None, "accepted": None, "D": None}
        if tk.peek() in ("A", "R"):
            rec["accepted"] = tk.nx() == "A"
            tk.expect("D")
            rec["D"] = tk.ints(n)
        if tk.peek() == "NA":
            tk.nx()
            rec["na"] = True
        else:
            if tk.peek() == "T":
                tk.nx()
                k = tk.i()
                rec["T"] = [tuple(tk.ints(2)) for _ in range(k)]
            if tk.peek() == "U":
                tk.nx()
                cur = states[-1]
                rec["U"] = [[tk.ints(tk.i()) for _ in range(cur["nby"])] for _ in range(cur["nbx"])]
            rec["state"] = parse_state(tk, n, npb)
            states.append(rec["state"])
        ops.append(rec)
    return {"G": g, "states": states, "ops": ops}


# ---------------------------------------------------------------- the statement, evaluated on the C++ output

def ov(a, b, p, q):
    return max(0, min(b, q) - max(a, p))


def regions_disjoint(regs):
    for i in range(len(regs)):
        a = regs[i]
        for j in range(i + 1, len(regs)):
            b = regs[j]
            if ov(a[0], a[1], b[0], b[1]) > 0 and ov(a[2], a[3], b[2], b[3]) > 0:
                return False
    return True


def check_geometry(case, tr):
    """tiling + capacity = free area + aggregation, on the fine grid and on every dumped view"""
    regs = [r for r in case["regions"]]
    g = tr["G"]
    nofree = not regs and case["tag"] == "HC" and bool(case["rows"])
    if regs:
        area = [min(r[0] for r in regs), max(r[1] for r in regs), min(r[2] for r in regs), max(r[3] for r in regs)]
    elif nofree:
        # a circuit without free space (no row segment survives obstructions + side margin): since the repair of finding F28
        # fromIspdCircuit falls back to Circuit::computePlacementArea() = the bounding box of ALL rows, with capacity 0 everywhere
        rows = case["rows"]
        area = [min(r[0] for r in rows), max(r[1] for r in rows), min(r[2] for r in rows), max(r[3] for r in rows)]
    else:
        area = [0, 0, 0, 0]      # DensityGrid(binSize, {}) of an HR case without regions
    if nofree and g["area"] == [0, 0, 0, 0] and area != [0, 0, 0, 0]:
        return ("F28: the grid of a circuit without free space is the single empty bin at the origin, not the (empty) grid of the rows' "
                "bounding box %s: repair of finding F28 missing in this tree" % area)
    if g["area"] != area:
        return "placement area %s is not the bounding box %s of the regions" % (g["area"], area)
    total_free = sum((r[1] - r[0]) * (r[3] - r[2]) for r in regs)
    if g["total"] != total_free:
        return "total capacity %d differs from the free area %d" % (g["total"], total_free)
    extent = area[1] > area[0] and area[3] > area[2]
    views = [("fine grid", g["limx"], g["limy"], g["cap"])] + \
            [("view %d,%d" % (s["lx"], s["ly"]), s["limx"], s["limy"], s["cap"]) for s in tr["states"]]
    seen = set()
    for (name, lx, ly, cap) in views:
        key = (name, tuple(lx), tuple(ly))
        if key in seen:
            continue
        seen.add(key)
        for (lim, lo, hi, ax) in ((lx, area[0], area[1], "x"), (ly, area[2], area[3], "y")):
            if lim[0] != lo or lim[-1] != hi:
                return "%s: %s limits %s do not span the area [%d,%d]" % (name, ax, lim, lo, hi)
            for k in range(len(lim) - 1):
                if lim[k] > lim[k + 1] or (lim[k] == lim[k + 1] and hi > lo and case["binSize"] >= 1):
                    return "%s: %s limits %s are not increasing" % (name, ax, lim)
        s = 0
        for i in range(len(lx) - 1):
            for j in range(len(ly) - 1):
                want = sum(ov(r[0], r[1], lx[i], lx[i + 1]) * ov(r[2], r[3], ly[j], ly[j + 1]) for r in regs)
                if cap[i][j] != want:
                    return "%s: capacity of bin (%d,%d) is %d, free area inside it is %d" % (name, i, j, cap[i][j], want)
                s += cap[i][j]
        if s != total_free:
            return "%s: capacities sum to %d, free area is %d" % (name, s, total_free)
    return None


def check_partition(case, st, demands):
    """every cell of non-zero demand in exactly one bin, zero-demand cells in none, cellBinX/Y consistent"""
    n = case["n"]
    where = {}
    for i, col in enumerate(st["bins"]):
        for j, l in enumerate(col):
            for c in l:
                if c < 0 or c >= n:
                    return "bin (%d,%d) holds the invalid cell index %d" % (i, j, c)
                if c in where:
                    return "cell %d is in bin %s and in bin %s" % (c, where[c], (i, j))
                where[c] = (i, j)
    for c in range(n):
        if demands[c] != 0 and c not in where:
            return "cell %d (demand %d) is in no bin" % (c, demands[c])
        if demands[c] == 0 and c in where:
            return "cell %d of zero demand is in bin %s" % (c, where[c])
        want = where.get(c, (-1, -1))
        if (st["cbx"][c], st["cby"][c]) != want:
            return "cellBinX/Y of cell %d is (%d,%d) but binCells has it in %s" % (c, st["cbx"][c], st["cby"][c], want)
    return None


def check_findbin(case, st):
    for (lim, res, ax) in ((st["limx"], st["fbx"], "X"), (st["limy"], st["fby"], "Y")):
        nb = len(lim) - 1
        for coord, r in zip(case["probes"], res):
            if not (0 <= r < nb):
                return "findBinBy%s(%d) = %d is not a bin" % (ax, coord, r)
            if not (lim[r] <= coord or r == 0) or not (lim[r + 1] > coord or r == nb - 1):
                return "findBinBy%s(%d) = %d but the bin is [%d,%d)" % (ax, coord, r, lim[r], lim[r + 1])
    return None


def f32r(x):
    """x rounded to the nearest binary32 (exact recovery of a float printed with %.9g)"""
    import struct
    return struct.unpack("f", struct.pack("f", float(x)))[0]


def spread_tol(lo, hi):
    return 2.0 ** -20 * max(abs(lo), abs(hi), 1) + 2.0 ** -16 * (hi - lo)


def check_spread(case, tr, side, qside, stats, corr):
    """reported coordinates inside the bin (closed interval, float tolerance): the statement.  Closeness to the exact
    rational model is a correspondence matter: differences are appended to corr"""
    if not side.strip():
        return None
    vals = side.split()
    recs = {}
    for k in range(0, len(vals) - 5, 6):
        recs[(int(vals[k]), int(vals[k + 1]))] = [float(v) for v in vals[k + 2:k + 6]]
    exact = {}
    q = qside.split()
    for k in range(0, len(q) - 5, 6):
        exact[(int(q[k]), int(q[k + 1]))] = (int(q[k + 2]) / int(q[k + 3]), int(q[k + 4]) / int(q[k + 5]))
    # state in force at op k = last state dumped up to k
    st = tr["states"][0]
    for k, rec in enumerate(tr["ops"]):
        if rec["state"] is not None:
            st = rec["state"]
        if rec["code"] != 12 or rec["na"]:
            continue
        for c in range(case["n"]):
            if (k, c) not in recs:
                return "spreadCoord: no value reported for cell %d at op %d" % (c, k)
            sx, sy, mx, my = recs[(k, c)]
            bx, by = st["cbx"][c], st["cby"][c]
            if bx < 0:
                continue
            lox, hix, loy, hiy = st["limx"][bx], st["limx"][bx + 1], st["limy"][by], st["limy"][by + 1]
            for (v, lo, hi, what) in ((sx, lox, hix, "spreadCoordX"), (sy, loy, hiy, "spreadCoordY"),
                                      (mx, lox, hix, "simpleCoordX"), (my, loy, hiy, "simpleCoordY")):
                # tolerance 0 (spreadCells clamps into [minCoord, maxCoord] since the repair of F21; simpleCoord is the bin centre):
                # the binary32 value (recovered exactly from its %.9g print) against the bin limits as the code holds them, (float)limit
                # (= the integer limit itself whenever |limit| <= 2^24)
                if not (math.isfinite(v) and f32r(lo) <= f32r(v) <= f32r(hi)):
                    return "%s of cell %d at op %d is %r, outside its bin [%d,%d] (closed interval, no tolerance)" % (what, c, k, v, lo, hi)
                stats["spread_values_checked_tolerance_0"] = stats.get("spread_values_checked_tolerance_0", 0) + 1
            stats["spread_cells"] += 1
            if (k, c) in exact:
                ex, ey = exact[(k, c)]
                for (v, e, lo, hi) in ((sx, ex, lox, hix), (sy, ey, loy, hiy)):
                    err = abs(v - e) / max(spread_tol(lo, hi), 1e-30)
                    stats["spread_max_err_in_tol"] = max(stats["spread_max_err_in_tol"], err)
                    if err > 8 and not corr:
                        corr.append("spreadCoord of cell %d at op %d is %r, the exact model (Q) says %r" % (c, k, v, e))
            elif not corr:
                corr.append("spread: the exact model reports no coordinate for cell %d (in bin %d,%d) at op %d" % (c, bx, by, k))
    return None


def circuit_areas(sizes):
    return [0 if fx else w * h for (fx, w, h) in sizes]


def apply_sizes(case, sizes, args):
    """op 16: (cell, width, height) triples applied to the circuit (cell index modulo the number of cells)"""
    n = case["n"]
    sizes = list(sizes)
    for q in range(args[0]):
        c, w, h = args[1 + 3 * q:4 + 3 * q]
        if n > 0:
            sizes[c % n] = (sizes[c % n][0], w, h)
    return sizes


def demand_walk(case, tr):
    """-> (list over ops of the demand vector in force after the op, violation or None, classes of the updates).
    The demands in force are the areas the density object holds (its own cellDemand after a size update); an accepted
    update must hold exactly the circuit's areas, a refused one must leave the object as it was."""
    d = list(case["demands"])
    sizes = list(case["sizes"])
    out, bad, classes = [], None, []
    prev_state = tr["states"][0]
    for k, ((code, args), rec) in enumerate(zip(case["ops"], tr["ops"])):
        if code == 13:
            d = [v * args[0] for v in d]
        elif code == 16 and rec["D"] is not None:
            sizes = apply_sizes(case, sizes, args)
            new = circuit_areas(sizes)
            tozero = any(a != 0 and b == 0 for a, b in zip(d, new))
            fromzero = any(a == 0 and b != 0 for a, b in zip(d, new))
            classes.append(("to-zero" if tozero else "") + ("from-zero" if fromzero else "") or
                           ("different" if new != d else "same"))
            classes.append("accepted" if rec["accepted"] else "refused")
            if rec["accepted"]:
                if rec["D"] != new and not bad:
                    bad = "after op %d (size update, accepted): the density object holds the demands %s, the areas of the " \
                          "circuit's movable cells are %s" % (k, rec["D"], new)
            else:
                if (rec["D"] != d or (rec["state"] is not None and rec["state"] != prev_state)) and not bad:
                    bad = "after op %d (size update, refused with an exception): the density object was modified " \
                          "(demands %s -> %s)" % (k, d, rec["D"])
            d = list(rec["D"])
        if rec["state"] is not None:
            prev_state = rec["state"]
        out.append(list(d))
    return out, bad, classes


def oracle(case, tr, side, qside, stats, corr):
    """returns None or a description of how the C++ output violates the statement of C16"""
    if not regions_disjoint(case["regions"]):
        return None   # outside the domain (never generated)
    w = check_geometry(case, tr)
    if w:
        return w
    w = check_partition(case, tr["states"][0], case["demands"])
    if w:
        return "after construction: " + w
    w = check_findbin(case, tr["states"][0])
    if w:
        return w
    dem, wd, classes = demand_walk(case, tr)
    for cl in classes:
        stats["update_" + cl] += 1
    for k, rec in enumerate(tr["ops"]):
        if rec["state"] is None:
            continue
        w = check_partition(case, rec["state"], dem[k]) or check_findbin(case, rec["state"])
        if w:
            what = OPNAMES.get(rec["code"], "?")
            if rec["code"] == 16:
                what += " accepted" if rec["accepted"] else " refused"
            return "after op %d (code %d, %s): %s" % (k, rec["code"], what, w)
    if wd:
        return wd
    return check_spread(case, tr, side, qside, stats, corr)


# ---------------------------------------------------------------- run

OPNAMES = {0: "refineX", 1: "refineY", 2: "coarsenX", 3: "coarsenY", 4: "improve", 5: "run", 6: "refine", 7: "rebisect",
           8: "reoptimize", 9: "improveXTransport", 10: "improveYTransport", 11: "setBinCells", 12: "spreadCoord",
           13: "updateCellDemand", 14: "coarsenFully", 15: "refineFully", 16: "sizeUpdate"}


def first_diff(a, b):
    k = 0
    while k < min(len(a), len(b)) and a[k] == b[k]:
        k += 1
    return k, " ".join(a[max(0, k - 12):k + 6]), " ".join(b[max(0, k - 12):k + 6])


def evaluate(lines, impl, model, stats, ctx=None):
    """-> (violations with input, correspondence differences, nontrivial set)"""
    bad_out, mism, nontriv = [], [], set()
    for l, i, m in zip(lines, impl, model):
        if l.startswith("SP"):
            stats["split_cases"] += 1
            res = i.split(" ## ")[0].strip()
            if res != m.strip():
                mism.append((l, res, m.strip(), "findConstrainedSplitPos differs"))
            else:
                toks = l.split()
                n = int(toks[1])
                k = int(toks[2 + n])
                if k >= 2:
                    nontriv.add(l)
            continue
        trace, _, side = i.partition(" ## ")
        stats["history_cases_submitted"] += 1
        if trace.startswith("GENERR"):
            stats["generr"] += 1
            stats["skipped_" + trace.split(" ## ")[0].strip()[:80]] += 1
            continue
        try:
            case = parse_case(l)
        except Exception as e:   # malformed corpus line
            stats["generr"] += 1
            stats["skipped_malformed_case_line"] += 1
            continue
        if not regions_disjoint(case["regions"]):
            stats["generr"] += 1
            stats["skipped_regions_not_disjoint"] += 1     # outside the domain; the generators never produce it
        if "DIED" in trace or trace.startswith("<missing>"):
            why = trace[trace.find("DIED"):][:200] if "DIED" in trace else trace[:200]
            nops_done = trace.count("| O ")
            bad_out.append((l, i[:3000], "the library aborted/crashed/threw inside the density API (%s) at op #%d of the history "
                            "(assertions of HierarchicalDensityPlacement::check() are on in this variant)" % (why.strip(), nops_done)))
            continue
        mtrace, _, rest = m.partition(" # ")
        verd, _, qside = rest.partition(" ## ")
        try:
            tr = parse_trace(trace, case)
        except Exception as e:
            bad_out.append((l, i[:3000], "unreadable trace from the harness: %s" % e))
            continue
        corr = []
        if case["tag"] == "HC" and not case["regions"]:
            stats["circuit_cases_without_free_space"] += 1
        w = oracle(case, tr, side, qside, stats, corr)
        if w and w.startswith("F28:") and ctx is not None and ctx.known_finding("F28"):
            # finding F28 on a tree without the repair (listed as `known` for this property): matched only for a circuit without free
            # space whose C++ grid is the origin bin; the model follows the repaired code, so its tie is not evaluated on this case
            stats["circuit_cases_without_free_space_matched_F28"] += 1
            continue
        if w:
            bad_out.append((l, i[:3000], w))
        a, b = trace.split(), mtrace.split()
        vbad = [v for v in verd.split() if v != "ok"]
        if a != b or vbad or "ERROR" in m or "MODELERR" in m:
            k, ia, ib = first_diff(a, b)
            mism.append((l, ia, ib, ("token %d" % k) + (" checker:" + vbad[0] if vbad else "")))
        elif corr:
            mism.append((l, "", "", corr[0]))
        # coverage
        stats["cases"] += 1
        stats["tag_" + case["tag"]] += 1
        multi = False
        relational = False
        for rec in tr["ops"]:
            nm = OPNAMES.get(rec["code"], "?")
            stats["op_" + nm + ("_na" if rec["na"] else "")] += 1
            st = rec["state"]
            if st is not None:
                occupied = sum(1 for col in st["bins"] for b in col if b)
                if occupied >= 2:
                    multi = True
                if rec["code"] in (0, 1, 4, 5, 6, 7, 8, 9, 10, 15):
                    relational = True
        stats["costmodel_%d" % case["params"][0]] += 1
        stats["maxbins"] = max(stats["maxbins"], max(s["nbx"] * s["nby"] for s in tr["states"]))
        if any(d == 0 for d in case["demands"]):
            stats["cases_with_zero_demand_cells"] += 1
        if len(case["regions"]) > len(set((r[2], r[3]) for r in case["regions"])):
            stats["cases_with_split_rows"] += 1
        # magnitudes (measured on the C++ output): largest fine bin / column of fine bins / whole grid
        g = tr["G"]
        mxbin = max([v for col in g["cap"] for v in col] or [0])
        mxcol = max([sum(col) for col in g["cap"]] or [0])
        stats["max_fine_bin_capacity"] = max(stats["max_fine_bin_capacity"], mxbin)
        stats["max_total_capacity"] = max(stats["max_total_capacity"], g["total"])
        if mxbin >= 2 ** 31:
            stats["cases_with_a_fine_bin_of_capacity_ge_2^31"] += 1
        elif mxcol >= 2 ** 31:
            stats["cases_with_a_bin_column_ge_2^31_and_every_fine_bin_below"] += 1
        elif g["total"] >= 2 ** 31:
            stats["cases_with_total_capacity_ge_2^31_and_every_column_below"] += 1
        if g["total"] >= 2 ** 40:
            stats["cases_with_total_capacity_ge_2^40"] += 1
        if multi and relational:
            nontriv.add(l)
    return bad_out, mism, nontriv


LARGE_QUICK = 100     # cases of the large-magnitude stream in the quick tier
ORDER_QUICK = 60      # groups (of four listings of the same set of rows / regions) of the order stream in the quick tier
ORDER_NAMES = ("bottom-up", "top-down", "even rows then odd rows", "shuffled")
NOFREE_QUICK = 120    # cases of the no-free-space stream in the quick tier
SKIP_LIMIT = 0.01     # fraction of the history cases that may be skipped (GENERR / malformed / out-of-domain regions) before the run fails


def grid_part(impl_line):
    """the part of a harness trace that describes the grid: fine grid + hierarchy (G ...) and the state after construction
    (every capacity of the coarsest view, the initial allocation), i.e. everything before the first op"""
    return impl_line.partition(" ## ")[0].partition("| O ")[0].split()


def order_oracle(groups, impl_of, stats):
    """metamorphic oracle, no model needed: the rows / regions of a grid are a SET, so every listing of the same set must give the
    grid of the bottom-up listing.  -> list of (case line, implementation line, why, extra replay fields)"""
    out = []
    for grp in groups:
        base = impl_of[grp[0]]
        gb = grid_part(base)
        if len(set(grp)) > 1:
            stats["order_groups_with_distinct_listings"] += 1
        for name, l in list(zip(ORDER_NAMES, grp))[1:]:
            stats["order_listings_compared_with_bottom_up"] += 1
            ga = grid_part(impl_of[l])
            if ga != gb:
                k, a, b = first_diff(ga, gb)
                out.append((l, impl_of[l][:3000],
                            "the grid depends on the ORDER in which the rows / regions are listed: the listing '%s' gives a different grid "
                            "than the bottom-up listing of the same set (token %d of the trace: '%s' vs bottom-up '%s')" % (name, k, a, b),
                            {"order": name, "base_case": grp[0]}))
    return out


class Stats(dict):
    def __missing__(self, k):
        return 0


def compose(lines, impl):
    out = []
    for l, i in zip(lines, impl):
        if l.startswith("SP"):
            out.append(l)
        else:
            out.append(l + " @ " + i.partition(" ## ")[0])
    return out


def run_variant(variant, lines, driver, stats):
    harness = common.build_harness("density", variant)
    impl, _, _ = common.run_both([harness, "run"], None, lines, timeout=1200, chunk=200)
    model, _, _ = common.run_both([driver], None, compose(lines, impl), timeout=1200, chunk=200)
    return impl, model


def run(ctx):
    proof_ok, proof = common.proof_status_all(ctx, "C16", ["gaps2_C16", "links"])
    harness = common.build_harness("density")
    driver = common.build_driver("density")
    lines = common.corpus("C16", ("HR ", "HC ", "SP "))
    ncorpus = len(lines)
    if ctx.quick:
        # "nofree": circuits without free space (every row covered by fixed obstructions: finding F28), first so that the NDEBUG prefix has them
        plan = [(ctx.seed + 9000, NOFREE_QUICK, "nofree"), (ctx.seed, 2200, None), (ctx.seed + 7000, 150, "heavy"), (ctx.seed, 2500, "split")]
    else:
        plan = []
        for s in (ctx.seed, ctx.seed + 1000, ctx.seed + 2000):
            plan += [(s + 9000, 1000, "nofree"), (s, 15000, None), (s + 7000, 1500, "heavy"), (s, 20000, "split")]
    for (s, n, mode) in plan:
        lines += common.harness_gen(harness, [s, n] + ([mode] if mode else []))
    # round 6: LARGE magnitudes (coordinates up to 2^22, bins up to ~2^42 units, grids up to ~2^46) and row / region ORDER (every set
    # listed bottom-up, top-down, even-then-odd, shuffled); ordinary HR/HC lines: model tie + oracles as for every other case
    large_lines, order_groups = [], []
    for (s, nl, no) in ([(ctx.seed, LARGE_QUICK, ORDER_QUICK)] if ctx.quick else
                        [(s, 1500, 800) for s in (ctx.seed, ctx.seed + 1000, ctx.seed + 2000)]):
        large_lines += common.harness_gen(harness, [s + 11000, nl, "large"])
        ol = common.harness_gen(harness, [s + 12000, no, "order"])
        order_groups += [ol[k:k + 4] for k in range(0, len(ol) - 3, 4)]
    new_lines = large_lines + [l for grp in order_groups for l in grp]
    lines += new_lines
    order_of = {}
    for grp in order_groups:
        for name, l in zip(ORDER_NAMES, grp):
            order_of.setdefault(l, {"order": name, "base_case": grp[0]})
    stats = Stats()
    stats["spread_max_err_in_tol"] = 0.0
    impl, model = run_variant("plain", lines, driver, stats)
    bad_out, mism, nontriv = evaluate(lines, impl, model, stats, ctx)
    stats["large_cases"], stats["order_groups"] = len(large_lines), len(order_groups)
    impl_of = dict(zip(lines, impl))
    for grp in order_groups:     # non-trivial group: at least two distinct listings and at least two bin rows in the fine grid
        try:
            tk = grid_part(impl_of[grp[0]])
            if len(set(grp)) > 1 and int(tk[int(tk[1]) + 4]) >= 2:
                stats["order_groups_nontrivial"] += 1
        except (IndexError, ValueError):
            pass
    meta = order_oracle(order_groups, impl_of, stats)
    stats["order_listings_differing_from_bottom_up"] = len(meta)
    for (l, i, w, x) in meta:
        hit = [k for k, b in enumerate(bad_out) if b[0] == l]
        if hit:
            bad_out[hit[0]] = (l, bad_out[hit[0]][1], bad_out[hit[0]][2] + "; ALSO " + w)
        else:
            bad_out.append((l, i, w))
    # the NDEBUG build (what the pinned build ships): the code's own check() compiled out.  Same cases (a prefix in the
    # quick tier) plus every case on which the assert-enabled build died, so that the report says what the state looks like
    h2 = common.build_harness("density", "ndebug")
    died = [l for (l, i, w) in bad_out if "aborted/crashed/threw" in w][:40]
    sub = (lines if not ctx.quick else lines[:ncorpus + NOFREE_QUICK + 1200])
    insub = set(sub)
    sub = sub + [l for l in new_lines + died if l not in insub]
    pos = {l: k for k, l in enumerate(lines)}
    impl2, _, _ = common.run_both([h2, "run"], None, sub, timeout=1200, chunk=200)
    differ = [k for k in range(len(sub)) if impl2[k] != impl[pos[sub[k]]]]
    stats["ndebug_cases"] = len(sub)
    stats["ndebug_traces_differing_from_assert_build"] = len(differ)
    nd_verdict = {}
    if differ:
        sl = [sub[k] for k in differ]
        il = [impl2[k] for k in differ]
        ml, _, _ = common.run_both([driver], None, compose(sl, il), timeout=1200, chunk=200)
        st2 = Stats()
        st2["spread_max_err_in_tol"] = 0.0
        b2, m2, _ = evaluate(sl, il, ml, st2, ctx)
        for (l, i, w) in b2:
            nd_verdict[l] = w
        for (l, a, b, w) in m2:
            nd_verdict.setdefault(l, "model/implementation differ at " + w)
        bad_out = [(l, i, w + ("; NDEBUG build on the same input: " + nd_verdict[l] if l in nd_verdict else "")) for (l, i, w) in bad_out]
        known = set(l for (l, _, _) in bad_out)
        bad_out += [(l, i, "[NDEBUG build] " + w) for (l, i, w) in b2 if l not in known]
        mism += [(l, a, b, "[NDEBUG build] " + w) for (l, a, b, w) in m2]
    # cases on which NOTHING is judged (GENERR of the harness: inexact float factors / parameter set refused; malformed line; regions
    # not disjoint): the generators are built so that this never happens (0 in every registered run).  More than SKIP_LIMIT of the
    # history cases skipped = the harness or the generator is broken and the run proves nothing: reported, not passed.
    nskip, nsub = stats["generr"], stats["history_cases_submitted"]
    if nsub == 0 or nskip > SKIP_LIMIT * nsub:
        ctx.violation("harness broken: %d of %d history cases of C16 were skipped without being judged (limit %.1f %%): %s"
                      % (nskip, nsub, 100 * SKIP_LIMIT, {k: v for k, v in stats.items() if k.startswith("skipped_")}),
                      {"broken": "harness/density.cpp case generation / checks/c16.py parse_case (cases skipped instead of judged)",
                       "skipped": nskip, "submitted": nsub, "limit_fraction": SKIP_LIMIT}, found_input=False)
    # the same metamorphic comparison on the NDEBUG traces (the assert-enabled build may have died before printing a grid)
    impl2_of = dict(zip(sub, impl2))
    if all(l in impl2_of for grp in order_groups for l in grp):
        known = set(l for (l, _, _) in bad_out)
        bad_out += [(l, i, "[NDEBUG build] " + w) for (l, i, w, x) in order_oracle(order_groups, impl2_of, Stats()) if l not in known]
    for (l, i, w) in bad_out[:3]:
        rp = {"case": l, "format": "see the header of harness/density.cpp", "implementation_trace": i, "why": w}
        rp.update(order_of.get(l, {}))    # order stream: which listing this is + the bottom-up listing of the same set
        ctx.violation("density grid / cell-to-bin allocation of /repo violates C16: " + w, rp)
    if not bad_out:
        if mism:
            l, a, b, w = mism[0]
            ctx.violation("correspondence Density.v <-> density_grid.cpp/density_legalizer.cpp broken (%d of %d cases differ; first: %s); "
                          "the outputs of /repo still satisfy the statement of C16 on every case of this run" % (len(mism), len(lines), w),
                          {"broken": "correspondence of coq/Density.v (theorems of Properties_C16.v)",
                           "first_difference": {"case": l, "implementation": a, "model": b, "where": w}}, found_input=False)
        if not proof_ok:
            ctx.violation("proof obligations of Properties_C16.v do not check", {"broken": "Properties_C16.v", "detail": proof},
                          found_input=False)
    hcases = [l for l in lines if not l.startswith("SP")]
    cov = dict(proof)
    cov.update({
        "trusted_base": common.TRUSTED_BASE + [
            "floats: the cost order, ideal split position and transportation assignments of the rough legalizer are not modelled "
            "(arguments of the model; the theorems hold for all of them); lemon/transportation solvers are outside the model",
            "spreadCells: proved over Q; the float evaluation is validated per run (inside the CLOSED bin interval with tolerance 0 -- the code clamps --, "
            "and within 8 tolerances 2^-20*|coord| + 2^-16*width of the exact rational value)",
            "float->int products sideMargin*minCellHeight, sizeFactor*minCellHeight are inputs of the model (exact in the generated cases)"],
        "evaluations": len(lines), "distinct_nontrivial": len(nontriv),
        "rule": "history cases (HR: DensityGrid from rectangles; HC: DensityLegalizer::fromIspdCircuit from rows + fixed obstructions + "
                "side margin): disjoint row segments with gaps/obstructions, bin sizes that do not divide the extent, 0..48 cells incl. "
                "zero-demand ones, float targets inside/outside/coincident/on limits, all 6 cost models, every parameter set accepted by "
                "RoughLegalizationParameters::check (line/diag sizes up to 64 in the heavy stream, squares up to 8), 3..24 random ops "
                "per history out of refineX/Y, coarsenX/Y, improve, run, refine, rebisect, reoptimize, improveX/YTransport, "
                "setBinCells, spreadCoord, updateCellDemand(vector, scaled), coarsenFully/refineFully and SIZE UPDATES "
                "(op 16: 0..3 cells of the circuit resized -- merely different / to zero area / from zero area / arbitrary, often "
                "followed by a repair of every cell whose zero status drifted -- then updateCellDemand(circuit); rate 6% of the "
                "ops, 10-30% in a third of the histories; counts per class in distribution.update_*).  After EVERY executed op "
                "the partition oracle (exactly one bin iff demand != 0, for the demands the object holds at that point), "
                "cellBinX/Y and findBin are evaluated; an accepted update must hold exactly the circuit's areas, a refused one "
                "must leave demands and allocation untouched.  non-trivial = at least one relational op (refine/run/improve/rebisect/reoptimize/transport) was "
                "executed and some state had cells in >= 2 bins; SP cases (findConstrainedSplitPos, exact): non-trivial = >= 2 cells. "
                "distinct = distinct case lines.  Histories on a placement area without extent skip the legalization passes "
                "(they divide by the extent)." + ("  LARGE stream (gen large, %d cases): region-built and circuit-built grids with coordinates "
                "inside |v| <= 2^22 (extents up to 2^23), rows 2^14..2^19 high, 2..12 rows, bin sizes ext/12..ext/4 -- a fine bin "
                "holds up to ~2^42 area units, a column / coarse view bin more, the grid up to ~2^46 (40 %% of the cases scaled down "
                "by 2^4..2^8: bins of 2^22..2^34, where a bin still fits 32 bits and a column or view bin does not); movable cell "
                "areas stay < 2^31 (int demands), fixed obstructions are as large as the rows; no demand scaling (op 13); same "
                "histories, every view compared with the model over Z and the exact-int Python oracle; measured magnitudes in "
                "distribution.max_* / cases_with_*_2^31.  ORDER stream (gen order, %d groups): 2..10 rows (HR: cut into 1..3 "
                "pieces; HC: whole rows through Circuit::setRows + fromIspdCircuit, cut by fixed obstructions), bin sizes that "
                "give several bin rows, each set listed bottom-up, top-down, even rows then odd rows, shuffled (pieces of a row "
                "interleaved with other rows); every listing is tied to the model and the oracles AND its grid part (fine grid, "
                "hierarchy, construction state) must equal the bottom-up listing's, token for token (metamorphic oracle, no "
                "model; also on the NDEBUG build); non-trivial group = >= 2 distinct listings and >= 2 bin rows "
                "(distribution.order_groups_nontrivial)." % (len(large_lines), len(order_groups))),
        "samples": ([hcases[0][:400], hcases[len(hcases) // 2][:400], lines[-1][:200]] if hcases else []) +
                   [l[:400] for l in large_lines[:1]] + [l[:300] for grp in order_groups[:1] for l in grp[:2]],
        "distribution": dict(stats),
        "skipped_cases": {"skipped": stats["generr"], "history_cases_submitted": stats["history_cases_submitted"], "limit_fraction": SKIP_LIMIT,
                          "rule": "a run with more skipped cases than the limit fails as 'harness broken'"},
        "corpus_cases": ncorpus,
        "model_vs_impl_differences": len(mism), "impl_outputs_violating_statement": len(bad_out)})
    return ctx.finish(LEVEL, cov, [
        "regions are proper (min <= max) and pairwise disjoint rectangles, demands are non-negative (areas), binSize >= 1, margin >= 0",
        "the legalization passes (improve/run/refine/transport) are exercised on placement areas with positive extent only",
        "'in exactly one bin through any sequence of passes' is proved for refine / coarsen / rebisect; for Redistribute it holds by definition of the step's guard, and run / improve* / transports / reoptimize are validated per run against it",
        "not in model or tie: cell areas >= 2^31 (narrowed to int demands by the C++), circuits without a cell of positive height (minCellHeight = INT_MAX), inexact float factors, negative / NaN side margins, NaN / inf targets; 'non-zero area' is read as non-zero demand",
        "the spread oracle accepts lo-t <= v <= hi+t (weaker than the property now that the code clamps); cases with non-disjoint regions return no verdict; GENERR / malformed corpus lines are only counted",
        "model tied to the code on the cases of this run: exact for geometry/capacities/parents/findBin/coarsen/setBinCells/"
        "findConstrainedSplitPos, relational (Redistribute + proved partition checker) for refine and the float-driven passes"])


def replay(ctx, path):
    r = json.load(open(path))["replay"]
    case = r.get("case") or r["first_difference"]["case"]
    driver = common.build_driver("density")
    rc = 0
    for variant in ("plain", "ndebug"):
        stats = Stats()
        stats["spread_max_err_in_tol"] = 0.0
        impl, model = run_variant(variant, [case], driver, stats)
        bad_out, mism, _ = evaluate([case], impl, model, stats, ctx)
        print("variant:", variant)
        print("case :", case[:2000])
        print("impl :", impl[0][:2000])
        print("model:", model[0][:2000])
        for (_, _, w) in bad_out:
            print("VIOLATES C16:", w)
        for (_, a, b, w) in mism:
            print("model/implementation differ at", w, "\n  impl :", a, "\n  model:", b)
        if r.get("base_case") and r["base_case"] != case:
            # order stream: the bottom-up listing of the same set of rows / regions must give the same grid
            impl0, _ = run_variant(variant, [r["base_case"]], driver, Stats())
            print("order:", r.get("order"), "\nbase :", r["base_case"][:2000], "\nimpl of base:", impl0[0][:2000])
            ga, gb = grid_part(impl[0]), grid_part(impl0[0])
            if ga != gb:
                k, a, b = first_diff(ga, gb)
                print("VIOLATES C16: the grid depends on the order of the rows / regions: token %d '%s' vs bottom-up '%s'" % (k, a, b))
                rc = 1
        if bad_out or mism:
            rc = 1
    return rc
