"""C18 -- cell expansion respects density caps and never touches fixed cells.

Proof: coq/Properties_C18.v over the exact rational model coq/Expand.v (every float operation exact,
every float->integer conversion a truncation toward zero).
Tie: the extracted model and the C++ (Circuit::expandCellsToDensity / expandCellsByFactor /
computeCellExpansion / computeRowPlacementArea compiled from /repo's working tree) run on the same
generated circuits; results are compared per cell.

Tolerance (stated, and why).  The model is exact arithmetic; the code is IEEE double/float.  An
independent exact re-implementation in this file (python Fractions) follows every floating-point
operation of the C++ and records whether its exact result is representable in the format the C++ uses
(53 bits for double, 24 for float).  IEEE operations are correctly rounded, so when every intermediate
result is representable the C++ computes exactly the model's values:
  * class `exact`  -> rowArea, every width (and the returned double / float factors) must be EQUAL.
  * otherwise
      - expandCellsToDensity: both sides keep `placed area + missing = sum of h*fracW` with 0 <= missing < h_i
        after every processed cell i (theorem c18_carry_invariant; the float version is off by ~1e-12), hence
        for every prefix ending in a processed cell |area_cpp - area_model| <= h_i.  This prefix criterion
        is the tolerance (it implies |delta| <= 1 per cell on single-height circuits); the observed maximum
        per-cell |delta| is reported in the evidence.
      - expandCellsByFactor: an error bound is propagated through the accumulation and the width
        products AS IF they were still evaluated in binary32 (oracle_ef was written before the F18 repair, after which
        the C++ uses double; the bound is therefore looser than necessary and more cases end up `loose`); a truncation whose exact argument is farther from an integer than the bound must agree
        exactly, the others may differ by 1 (|delta| <= 1).  If a truncation inside the accumulation of
        expandedArea or a branch comparison is itself within the bound the case is `loose`: only the
        statement is re-checked on the C++ output (with slack 2 per movable cell).
      - computeCellExpansion: relative tolerance 2^-21 on non-dyadic congestion values.
  * a margin whose product 2*m*h is not exactly representable can make rowArea differ (`ra-unstable`);
    then the C++ rowArea is used for the re-check of the statement and the widths are not diffed.
The statement itself (frame, never narrower, area bounds, maximum factor) is evaluated on the C++ output for
every case, independently of the Coq model: available area recomputed here from the rows, the fixed obstructions
and the margin; `within one cell height` is read inclusively with the tallest processed cell (the theorem gives
the sharper strict bound with the last processed cell); by-factor bound = maxDensity*available + one unit per
movable cell (theorem c18_factor_area_bound).
Finding F18 (fixed by bc9a2de on /repo main; developed as dfb6548 on agent/C18): before the fix expandCellsByFactor narrows movable cells wider than
2^24 (binary32 product); the generator contains such cells (3% of the EF cases) and the corpus its witness.

Floating point (theorems c18f_* of Properties_C18.v over the Flocq binary64/binary32 model coq/ExpandFloat.v): the
compiled code is compared with that model evaluated inside Coq by vm_compute, integer for integer / bit for bit, on
<= 100 non-dyadic cases per run (checks/c18_float.py, evidence key floating_point_tie); a difference is reported as a
broken correspondence.
"""
import hashlib
import json
import math
import struct
from fractions import Fraction as F

from tools import common

LEVEL = "proof"
TURN = (2, 3, 6, 7)   # W, E, FW, FE of enum CellOrientation {N,S,W,E,FN,FS,FW,FE}
U53 = F(1, 2 ** 52)
U24 = F(1, 2 ** 23)


# ------------------------------------------------------------------ exact helpers
def rep(q, bits):
    """is the rational q representable with a `bits`-bit significand (exponent range ignored)"""
    if q == 0:
        return True
    d = q.denominator
    if d & (d - 1):
        return False
    n = abs(q.numerator)
    n >>= (n & -n).bit_length() - 1
    return n.bit_length() <= bits


def r53(q):
    return rep(q, 53)


def r24(q):
    return rep(q, 24)


def dbl(x):
    """nearest double, as an exact rational"""
    return F(float(x))


def f32(x):
    return F(struct.unpack("f", struct.pack("f", float(x)))[0])


def tok(q):
    q = F(q)
    return "%d %d" % (q.numerator, q.denominator)


def placement(c):
    x, y, w, h, o, fx, ob = c
    pw, ph = (h, w) if o in TURN else (w, h)
    return (x, x + pw, y, y + ph)


def free_rows(rows, cells):
    """rows minus fixed obstruction cells (the contract proved in Properties_C15.v)"""
    obs = [placement(c) for c in cells if c[5] and c[6]]
    out = []
    for (a, b, c0, d0, o) in rows:
        if not (a < b and c0 < d0):
            continue
        ivs = [(a, b)]
        for (oa, ob_, oc, od) in obs:
            if oa < ob_ and oc < od and oc < d0 and c0 < od:
                new = []
                for (lo, hi) in ivs:
                    if lo < min(hi, oa):
                        new.append((lo, min(hi, oa)))
                    if max(lo, ob_) < hi:
                        new.append((max(lo, ob_), hi))
                ivs = new
        out += [(lo, hi, c0, d0) for lo, hi in ivs]
    return out


def row_area(fr, m):
    """computeRowPlacementArea in exact arithmetic; (area, every float op exact, truncations stable)"""
    ra, exact, stable = 0, True, True
    for (lo, hi, c0, d0) in fr:
        h, w = d0 - c0, hi - lo
        p = 2 * m * h
        v = w - p
        if not (r53(p) and r53(v)):
            exact = False
            eps = (abs(p) + abs(v)) * U53
            if math.trunc(v - eps) != math.trunc(v + eps):
                stable = False
        w2 = math.trunc(v)
        if w2 > 0:
            ra += w2 * h
    return ra, exact, stable


def movable_area(cells, widths=None):
    return sum((widths[i] if widths is not None else c[2]) * c[3] for i, c in enumerate(cells) if not c[5])


def case_circuit(rows, cells):
    s = ["%d" % len(rows)]
    for r in rows:
        s.append("%d %d %d %d %d" % r)
    s.append("%d" % len(cells))
    for c in cells:
        s.append("%d %d %d %d %d %d %d" % c)
    return " ".join(s)


def parse_circuit(v, p):
    nr = v[p]; p += 1
    rows = []
    for _ in range(nr):
        rows.append(tuple(v[p:p + 5])); p += 5
    nc = v[p]; p += 1
    cells = []
    for _ in range(nc):
        cells.append(tuple(v[p:p + 7])); p += 7
    return rows, cells, p


# ------------------------------------------------------------------ exact oracles (independent of the Coq model)
def oracle_ed(t, m, mew, rows, cells):
    """expandCellsToDensity, exact.  returns dict(widths, exact, branch, ...)"""
    fr = free_rows(rows, cells)
    ra, ra_exact, ra_stable = row_area(fr, m)
    ca = movable_area(cells)
    w0 = [c[2] for c in cells]
    res = {"ra": ra, "ca": ca, "ra_stable": ra_stable, "exact": ra_exact, "widths": w0, "branch": "noarea",
           "nocap": False, "last_h": 0, "hmax": 0, "prefix": [], "cap": None}
    if ca == 0 or ra == 0:
        return res
    d = F(ca, ra)
    if not r53(d):
        res["exact"] = False
    res["d"] = d
    if d >= t:
        res["branch"] = "dense"
        # float: density is the rounded quotient; the comparison is safe unless t is within an ulp of d
        if not r53(d) and abs(d - t) <= abs(d) * U53 * 2:
            res["branch_unstable"] = True
        return res
    if not r53(d) and abs(d - t) <= abs(d) * U53 * 2:
        res["branch_unstable"] = True
    res["branch"] = "expand"
    mrw = 0
    for r in rows:
        mrw = max(mrw, r[1] - r[0])
    cap = mrw * mew
    f = t / d
    if not (r53(cap) and r53(f)):
        res["exact"] = False
    res["cap"], res["f"] = cap, f
    missing = F(0)
    widths = list(w0)
    nocap, nocap_robust = True, True
    area = 0
    prefix = []   # (index, area of movable processed cells so far, h_i)
    for i, c in enumerate(cells):
        x, y, w, h, o, fx, ob = c
        if fx or h <= 0 or w <= 0:
            continue
        fw = w * f
        if not r53(fw):
            res["exact"] = False
        if fw * (1 + U53 * 4096) > cap:
            nocap_robust = False
        if fw > cap:
            fw = cap
            nocap = False
        nw = math.trunc(fw)
        pr = h * (fw - nw)
        missing += pr
        if not (r53(pr) and r53(missing)):
            res["exact"] = False
        while missing >= h:
            nw += 1
            missing -= h
            if not r53(missing):
                res["exact"] = False
        widths[i] = nw
        area += nw * h
        prefix.append((i, area, h))
        res["last_h"] = h
        res["hmax"] = max(res["hmax"], h)
    res.update(widths=widths, nocap=nocap, nocap_robust=nocap_robust, prefix=prefix, missing=missing)
    return res


def oracle_ef(es, maxd, m, rows, cells):
    """expandCellsByFactor, exact, with a forward error bound for the float32/double evaluation.
    returns dict(throw | widths, may[i] (C++ may differ by 1 at cell i), cls in exact/tol/loose, ...)"""
    res = {"throw": False}
    if len(es) != len(cells) or any(e < F(16760439, 16777216) for e in es):
        res["throw"] = True
        return res
    fr = free_rows(rows, cells)
    ra, ra_exact, ra_stable = row_area(fr, m)
    ca = movable_area(cells)
    w0 = [c[2] for c in cells]
    cls = "exact" if ra_exact else "tol"
    ea = 0
    kmov = 0
    for c, e in zip(cells, es):
        if c[5]:
            continue
        kmov += 1
        a = c[2] * c[3]
        p = e * a
        s = ea + p
        eps = F(0)
        if abs(a) >= 2 ** 24 or not r24(p):
            eps += abs(p) * U24
        if abs(ea) >= 2 ** 24:
            eps += abs(ea) * U24
        if eps != 0 or not r24(s):
            eps += abs(s) * U24
            if cls == "exact":
                cls = "tol"
            if math.trunc(s - eps) != math.trunc(s + eps):
                cls = "loose"
        ea = math.trunc(s)
    res.update(ra=ra, ca=ca, ea=ea, kmov=kmov, ra_stable=ra_stable, widths=w0, may=[0] * len(cells),
               branch="noarea", ret=F(1), cls=cls)
    if ca == 0 or ra == 0:
        return res
    d = F(ca, ra)
    ed = F(ea, ra)
    near = lambda a, b: (not (r53(a) and r53(b))) and abs(a - b) <= (abs(a) + abs(b)) * U53 * 4
    if near(d, maxd):
        res["cls"] = cls = "loose"
    if d >= maxd:
        res["branch"] = "dense"
        return res
    res["branch"] = "expand"
    if near(ed, maxd):
        res["cls"] = cls = "loose"
    dbl_exact = r53(d) and r53(ed)
    es2 = list(es)
    eerr = [F(0)] * len(es)
    if ed > maxd:
        num, den = maxd - d, ed - d
        ratio = num / den
        dbl_exact = dbl_exact and r53(num) and r53(den) and r53(ratio)
        k1 = (abs(d) + abs(maxd)) / abs(num)
        k2 = (abs(ed) + abs(d)) / abs(den)
        if max(k1, k2) > 2 ** 15 and not dbl_exact:
            res["cls"] = cls = "loose"
        for i, e in enumerate(es):
            e2 = 1 + (e - 1) * ratio
            es2[i] = e2
            if not (dbl_exact and r53((e - 1) * ratio) and r24(e2)):
                eerr[i] = abs(e2) * U24 + abs(e2) * (4 + k1 + k2) * F(1, 2 ** 45)
                if cls == "exact":
                    cls = "tol"
    widths = list(w0)
    may = [0] * len(cells)    # how far the C++ width may be from the exact one
    for i, c in enumerate(cells):
        if c[5]:
            continue
        w = c[2]
        v = w * es2[i]
        eps = F(0)
        if eerr[i] != 0 or abs(w) >= 2 ** 24 or not r24(v):
            eps = abs(w) * eerr[i] + abs(v) * U24 * 2
            if cls == "exact":
                cls = "tol"
            may[i] = math.trunc(v + eps) - math.trunc(v - eps)
        widths[i] = math.trunc(v)
    if res["cls"] != "loose":
        res["cls"] = cls
    res.update(widths=widths, may=may, ret=ed / d, es2=es2, ret_exact=r53(d) and r53(ed) and r53(ed / d) and res["cls"] == "exact")
    return res


def intersects(a, b):
    return a[0] < b[1] and b[0] < a[1] and a[2] < b[3] and b[2] < a[3]


def oracle_ce(fp, pf, rows, cells, regions):
    """computeCellExpansion, exact; per cell (value, list of candidate factors); exact flag"""
    if fp < 0 or pf < 1:
        return {"throw": True}
    exact = True
    emap = []
    for (r, cg) in regions:
        if cg > 1:
            a = cg - 1
            b = a * pf
            s = b + fp
            e = s + 1
            if not (r24(a) and r24(b) and r24(s) and r24(e)):
                exact = False
            emap.append((r, e))
    vals, cands = [], []
    for c in cells:
        if c[5]:
            vals.append(F(1)); cands.append(None)
            continue
        pl = placement(c)
        cs = [e for (r, e) in emap if intersects(r, pl)]
        vals.append(max([F(1)] + cs))
        cands.append(cs)
    return {"throw": False, "vals": vals, "cands": cands, "exact": exact}


# ------------------------------------------------------------------ generator
def gen_circuit(g):
    hr = g.choice([1, 2, 4, 8, 16]) if g.coin(75) else g.uni(1, 12)
    nrows = 0 if g.coin(3) else g.uni(1, 5)
    x0, y0 = g.uni(-16, 16), g.uni(-16, 16)
    rows = []
    y = y0
    for _ in range(nrows):
        if g.coin(15):
            y += hr * g.uni(1, 2)
        a = x0 + 4 * g.uni(0, 4)
        wd = g.choice([0, 8, 16, 32, 64, 24, 40, g.uni(1, 80), g.uni(1, 80)])
        rows.append((a, a + wd, y, y + hr, g.uni(0, 7)))
        if g.coin(12):
            a2 = a + wd + g.uni(1, 8)
            rows.append((a2, a2 + g.uni(1, 32), y, y + hr, g.uni(0, 7)))
        y += hr
    cells = []
    for _ in range(g.uni(0, 10)):
        if g.coin(72):
            w = 0 if g.coin(7) else g.uni(1, 40)
            k = g.uni(0, 9)
            h = hr * g.uni(1, 3) if k < 7 else (0 if k == 7 else g.uni(1, 3 * hr))
            cells.append((x0 + g.uni(-4, 90), y0 + g.uni(-4, 6 * hr), w, h, g.uni(0, 7), 0, int(g.coin(30))))
        else:
            w, h = g.uni(0, 30), g.uni(0, 3 * hr)
            cells.append((x0 + g.uni(-8, 80), y0 + g.uni(-2 * hr, 6 * hr), w, h, g.uni(0, 7), 1, int(g.coin(70))))
    return hr, rows, cells


def gen_margin(g):
    if g.coin(5):
        return dbl(g.choice([F(1, 10), F(3, 10), F(7, 10), F(11, 10), F(1, 3)]))
    return g.choice([F(0), F(0), F(0), F(0), F(1, 2), F(1), F(1, 4), F(2), F(3, 2), F(1, 8), F(3), F(40), F(5, 16)])


def tune_rows(g, hr, rows, cells, m):
    """append one unobstructed row so that the available area becomes hr * o * 2^v (dyadic densities)"""
    ra, _, _ = row_area(free_rows(rows, cells), m)
    q = 2 * m * hr
    if q.denominator != 1 or ra % hr:
        return
    base = ra // hr
    o = g.choice([1, 1, 1, 1, 3])
    v = 3
    # utilisation between ~10% and ~120%: the tuned area is compared with the movable area too
    want = max(base, movable_area(cells) * g.choice([1, 1, 2, 2, 3, 4, 8]) // (hr * g.choice([1, 1, 1, 2])))
    while o * 2 ** v <= want:
        v += 1
    wd = o * 2 ** v - base + int(q)
    if wd <= 0 or wd > 5000:
        return
    top = max([r[3] for r in rows] + [c[1] + max(c[2], c[3]) for c in cells] + [0]) + hr * g.uni(0, 2)
    a = g.uni(-16, 16)
    rows.append((a, a + wd, top, top + hr, g.uni(0, 7)))


def scale_circuit(rows, cells, sc):
    rows = [(a * sc, b * sc, c * sc, d * sc, o) for (a, b, c, d, o) in rows]
    cells = [(x * sc, y * sc, w * sc, h * sc, o, fx, ob) for (x, y, w, h, o, fx, ob) in cells]
    return rows, cells


def gen_wide(g):
    """a movable cell wider than 2^24 (not representable in float32) next to ordinary cells, in very wide rows"""
    hr = g.choice([1, 2, 4])
    rows = [(0, 2 ** 28 + 16 * g.uni(0, 64), i * hr, (i + 1) * hr, g.uni(0, 7)) for i in range(g.uni(1, 3))]
    cells = [(g.uni(0, 1000), 0, 2 ** 24 + g.uni(1, 2 ** 24), hr, g.uni(0, 7), 0, 0)]
    for _ in range(g.uni(0, 4)):
        cells.append((g.uni(0, 1000), 0, g.uni(1, 300), hr * g.uni(1, 2), g.uni(0, 7), int(g.coin(20)), int(g.coin(50))))
    if g.coin(50):
        cells.reverse()
    return hr, rows, cells


def gen_ed(g):
    wide = g.coin(2)
    hr, rows, cells = gen_wide(g) if wide else gen_circuit(g)
    m = F(0) if wide else gen_margin(g)
    if g.coin(75) and not wide:
        tune_rows(g, hr, rows, cells, m)
    if g.coin(12) and not wide:
        rows, cells = scale_circuit(rows, cells, g.choice([8, 64, 512]))
    ra, _, _ = row_area(free_rows(rows, cells), m)
    ca = movable_area(cells)
    t = None
    if ca > 0 and ra > 0:
        d = F(ca, ra)
        k = g.uni(0, 14)
        if k >= 10:
            k = 0
        if k <= 6:
            f = 1 + F(g.uni(1, 24), g.choice([2, 4, 8, 16]))
            t = d * f
            if t >= 1:
                t = d * (1 + F(g.uni(1, 8), 16))
            if t >= 1:
                t = None
        elif k == 7:
            t = d
        elif k == 8:
            t = d * F(g.uni(1, 7), 8)
        elif k == 9:
            t = F(g.uni(50, 990), 1000)
    if t is None or t <= 0:
        t = F(g.uni(1, 63), 64)
    t = dbl(t)
    mew = g.choice([F(1), F(1), F(1), F(1), F(1), F(2), F(1, 2), F(1, 4), F(1, 8), F(1, 16), F(0), F(3, 4), F(3, 2), dbl(F(3, 10))])
    return "ED %s %s %s %s" % (tok(t), tok(m), tok(mew), case_circuit(rows, cells))


def gen_ef(g):
    wide = g.coin(3)
    hr, rows, cells = gen_wide(g) if wide else gen_circuit(g)
    m = F(0) if wide else gen_margin(g)
    if g.coin(75) and not wide:
        tune_rows(g, hr, rows, cells, m)
    if g.coin(6) and not wide:
        rows, cells = scale_circuit(rows, cells, g.choice([8, 64]))
    es = []
    style = g.uni(0, 9)
    for c in cells:
        if g.coin(45) or (c[2] >= 2 ** 24 and g.coin(60)):
            es.append(F(1))
        elif style <= 6:
            es.append(1 + F(g.uni(1, 16), 8))
        elif style == 7:
            es.append(1 + F(g.uni(1, 64), 32))
        else:
            es.append(f32(1 + F(g.uni(1, 300), 100)))
    sp = g.uni(0, 99)
    if sp < 2 and es:
        es[g.uni(0, len(es) - 1)] = g.choice([F(1, 2), f32(F(998, 1000)), F(0), F(-1)])
    elif sp < 4 and es:
        es[g.uni(0, len(es) - 1)] = g.choice([f32(F(9995, 10000)), f32(F(999, 1000))])
    elif sp < 5:
        es = es[:-1] if (es and g.coin(50)) else es + [F(1)]
    o = oracle_ef(es, F(1), m, rows, cells)
    maxd = F(1)
    if not o["throw"] and o["ca"] > 0 and o["ra"] > 0:
        d, ed = F(o["ca"], o["ra"]), F(o["ea"], o["ra"])
        k = g.uni(0, 9)
        if k <= 2:
            maxd = F(1)
        elif k <= 5 and ed > d:
            maxd = d + F(g.uni(1, 7), 8) * (ed - d)
        elif k == 6:
            maxd = F(g.uni(1, 64), 64)
        elif k == 7:
            maxd = d * F(g.uni(4, 8), 8)
        elif k == 8 and ed > d:
            maxd = d + F(g.uni(1, 99), 100) * (ed - d)
        else:
            maxd = g.choice([ed, d, F(1)])
    maxd = dbl(maxd)
    return "EF %s %s %s %d %s" % (tok(maxd), tok(m), case_circuit(rows, cells), len(es), " ".join(tok(e) for e in es))


def gen_ce(g):
    hr, rows, cells = gen_circuit(g)
    if g.coin(10):
        rows, cells = scale_circuit(rows, cells, g.choice([8, 64, 4096]))
    xs = [c[0] for c in cells] + [c[0] + max(c[2], c[3]) for c in cells] + [0, 40]
    ys = [c[1] for c in cells] + [c[1] + max(c[2], c[3]) for c in cells] + [0, 40]
    lox, hix, loy, hiy = min(xs) - 3, max(xs) + 3, min(ys) - 3, max(ys) + 3
    style = g.uni(0, 9)
    regions = []
    for _ in range(g.uni(0, 7)):
        if g.coin(30) and cells:
            c = g.choice(cells)
            pl = placement(c)
            a, b = g.choice([pl[0], pl[1], pl[0] - 1, pl[0] + 1]), g.choice([pl[1], pl[0], pl[1] + 1, pl[1] - 1])
            cc, dd = g.choice([pl[2], pl[3], pl[2] - 1, pl[2] + 1]), g.choice([pl[3], pl[2], pl[3] + 1, pl[3] - 1])
        else:
            a, b = g.uni(lox, hix), g.uni(lox, hix)
            cc, dd = g.uni(loy, hiy), g.uni(loy, hiy)
        if a > b:
            a, b = b, a
        if cc > dd:
            cc, dd = dd, cc
        if style <= 7:
            cg = 1 + F(g.uni(-8, 24), 16)
        else:
            cg = f32(F(g.uni(50, 250), 100))
        regions.append(((a, b, cc, dd), cg))
    fp = g.choice([F(0), F(0), F(0), F(1, 8), F(1, 2), F(1), F(1, 4)]) if style <= 8 else f32(F(g.uni(0, 100), 100))
    pf = g.choice([F(1), F(1), F(1), F(2), F(3, 2), F(5, 4), F(3)]) if style <= 8 else f32(1 + F(g.uni(0, 100), 100))
    sp = g.uni(0, 99)
    if sp < 2:
        fp = g.choice([F(-1, 8), F(-1)])
    elif sp < 4:
        pf = g.choice([F(1, 2), f32(F(999, 1000)), F(0)])
    return "CE %s %s %s %d %s" % (tok(fp), tok(pf), case_circuit(rows, cells), len(regions),
                                  " ".join("%d %d %d %d %s" % (r + (tok(cg),)) for r, cg in regions))


# ------------------------------------------------------------------ sequences on ONE circuit object (SQ)
def setup_rows(a, b, c, d, rh, alt, init):
    """Circuit::setupRows"""
    rows, orient, y = [], bool(init), c
    while y + rh <= d:
        rows.append((a, b, y, y + rh, 0 if orient else 5))   # N / FS
        if alt:
            orient = not orient
        y += rh
    return rows


def _span(rows, cells):
    xs = [r[0] for r in rows] + [r[1] for r in rows]
    ys = [r[2] for r in rows] + [r[3] for r in rows]
    if not xs:
        xs = [c[0] for c in cells] + [0, 40]
        ys = [c[1] for c in cells] + [0, 8]
    return min(xs), max(xs), min(ys), max(ys)


def _spot(g, hr, sc, rows, cells, parked):
    """a position on the rows (covering free area) or beside them"""
    lox, hix, loy, hiy = _span(rows, cells)
    if parked or not rows:
        return hix + sc * g.uni(0, 50), loy + hr * g.uni(-1, 3)
    r = g.choice(rows)
    return r[0] + sc * g.uni(-6, max(0, (r[1] - r[0]) // sc)), r[2] - hr * g.uni(0, 2) + (sc * g.uni(0, 3) if g.coin(15) else 0)


def gen_setter(g, hr, sc, rows, cells):
    """one public setter (or a copy of the object): (operation text, rows, cells) after it"""
    n = len(cells)
    fixed = [i for i, c in enumerate(cells) if c[5]]
    fobs = [i for i, c in enumerate(cells) if c[5] and c[6]]
    cells = list(cells)
    k = g.uni(0, 99)
    if n == 0 and k < 86:
        k = 86 + k % 14
    if k < 45:
        # setSolution: fixed cells / obstructions moved onto the rows, away from them, turned; movable cells moved
        idx = set()
        if k < 35 and fixed:
            for _ in range(g.uni(1, 2)):
                idx.add(g.choice(fobs) if fobs and g.coin(80) else g.choice(fixed))
        for _ in range(g.uni(0 if idx else 1, 2)):
            idx.add(g.uni(0, n - 1))
        parts = []
        for i in sorted(idx):
            x, y, w, h, o, fx, ob = cells[i]
            nx_, ny = _spot(g, hr, sc, rows, cells, g.coin(30))
            no = g.uni(0, 7) if g.coin(30) else o
            if g.coin(10):
                nx_, ny = x, y
            cells[i] = (nx_, ny, w, h, no, fx, ob)
            parts.append("%d %d %d %d" % (i, nx_, ny, no))
        return "3 %d %s" % (len(parts), " ".join(parts)), rows, cells
    if k < 86:
        i = g.choice(fixed) if fixed and g.coin(70) else g.uni(0, n - 1)
        x, y, w, h, o, fx, ob = cells[i]
        if k < 53:
            op, v = 4, _spot(g, hr, sc, rows, cells, g.coin(30))[0]
            cells[i] = (v, y, w, h, o, fx, ob)
        elif k < 60:
            op, v = 5, _spot(g, hr, sc, rows, cells, False)[1]
            cells[i] = (x, v, w, h, o, fx, ob)
        elif k < 66:
            op, v = 6, g.uni(0, 7)
            cells[i] = (x, y, w, h, v, fx, ob)
        elif k < 72:
            op, v = 8, 1 - ob
            cells[i] = (x, y, w, h, o, fx, v)
        elif k < 77:
            i = g.uni(0, n - 1)
            x, y, w, h, o, fx, ob = cells[i]
            op, v = 7, 1 - fx
            cells[i] = (x, y, w, h, o, v, ob)
        elif k < 82:
            op, v = 9, sc * g.uni(0, 40)
            cells[i] = (x, y, v, h, o, fx, ob)
        else:
            op, v = 10, hr * g.uni(0, 3)
            cells[i] = (x, y, w, v, o, fx, ob)
        return "%d 1 %d %d" % (op, i, v), rows, cells
    if k < 92:
        rows = list(rows)
        j = g.uni(0, 4)
        if j == 0 and len(rows) > 1:
            del rows[g.uni(0, len(rows) - 1)]
        elif j <= 2 and rows:
            q = g.uni(0, len(rows) - 1)
            a, b, c, d, o = rows[q]
            a, b = a + sc * g.uni(-4, 4), b + sc * g.uni(-8, 8)
            # rows stay well-formed (minX <= maxX) and pairwise disjoint, as everywhere in this file (domain of the C15 contract)
            if a <= b and not any(j != q and intersects((a, b, c, d), r[:4]) for j, r in enumerate(rows)):
                rows[q] = (a, b, c, d, o)
        else:
            lox, hix, loy, hiy = _span(rows, cells)
            a = lox + sc * g.uni(0, 8)
            rows.append((a, max(a, hix + sc * g.uni(-8, 16)), hiy, hiy + hr, g.uni(0, 7)))
        return "11 %d %s" % (len(rows), " ".join("%d %d %d %d %d" % r for r in rows)), rows, cells
    if k < 95:
        lox, hix, loy, hiy = _span(rows, cells)
        a, c, d = lox + sc * g.uni(-2, 4), loy, hiy + hr * g.uni(0, 1)
        b = max(a, hix + sc * g.uni(-4, 8))
        alt, init = int(g.coin(50)), int(g.coin(50))
        return "12 %d %d %d %d %d %d %d" % (a, b, c, d, hr, alt, init), setup_rows(a, b, c, d, hr, alt, init), cells
    return "13", rows, cells


def gen_sq(g):
    """expansion, public setters, expansion with (mostly) the same margin, ...: the calls follow each other on one object"""
    hr, rows, cells = gen_circuit(g)
    sc = 1
    lox, hix, loy, hiy = _span(rows, cells)
    have = any(c[5] and c[6] for c in cells)
    for _ in range(g.uni(0 if have else 1, 2)):
        # a macro (fixed obstruction), parked beside the rows or standing on them
        w, h = g.uni(1, 40), hr * g.uni(1, 3)
        x, y = _spot(g, hr, 1, rows, cells, g.coin(60))
        cells.insert(g.uni(0, len(cells)), (x, y, w, h, g.uni(0, 7), 1, 1))
    m = gen_margin(g)
    if g.coin(50):
        tune_rows(g, hr, rows, cells, m)
    if g.coin(8):
        sc = g.choice([8, 64])
        rows, cells = scale_circuit(rows, cells, sc)
        hr *= sc
    head = case_circuit(rows, cells)
    ops = []
    for e in range(g.uni(2, 4)):
        if e:
            newm = g.coin(15)    # another margin now and then, also directly after the previous call
            for _ in range(g.uni(0, 1) if newm else g.uni(1, 3)):
                txt, rows, cells = gen_setter(g, hr, sc, rows, cells)
                ops.append(txt)
            if newm:
                m = gen_margin(g)
        ra, _, _ = row_area(free_rows(rows, cells), m)
        ca = movable_area(cells)
        if g.coin(60):
            t = None
            if ca > 0 and ra > 0:
                d = F(ca, ra)
                k = g.uni(0, 9)
                if k <= 7:
                    t = d * (1 + F(g.uni(1, 24), g.choice([4, 8, 16, 32])))
                    if t >= 1:
                        t = d * (1 + F(g.uni(1, 8), 64))
                    if t >= 1:
                        t = None
                elif k == 8:
                    t = d * F(g.uni(4, 8), 8)
            if t is None or t <= 0:
                t = F(g.uni(1, 63), 64)
            t = dbl(t)
            mew = g.choice([F(1), F(1), F(1), F(1), F(2), F(1, 2), F(1, 4), F(3, 2)])
            ops.append("1 %s %s %s" % (tok(t), tok(m), tok(mew)))
            w = oracle_ed(t, m, mew, rows, cells)["widths"]
        else:
            es = [F(1) if g.coin(40) else 1 + F(g.uni(1, 16), 8) for _ in cells]
            if es and g.coin(2):
                es[g.uni(0, len(es) - 1)] = F(1, 2)
            o = oracle_ef(es, F(1), m, rows, cells)
            maxd = F(1)
            if not o["throw"] and ca > 0 and ra > 0:
                d, ed = F(ca, ra), F(o["ea"], ra)
                k = g.uni(0, 9)
                if k <= 4 and ed > d:
                    maxd = d + F(g.uni(1, 7), 8) * (ed - d)
                elif k == 5:
                    maxd = F(g.uni(1, 64), 64)
                elif k == 6:
                    maxd = g.choice([ed, d])
            maxd = dbl(maxd)
            ops.append("2 %s %s %d %s" % (tok(maxd), tok(m), len(es), " ".join(tok(x) for x in es)))
            o = oracle_ef(es, maxd, m, rows, cells)
            w = [c[2] for c in cells] if o["throw"] else o["widths"]
        cells = [c[:2] + (w[i],) + c[3:] for i, c in enumerate(cells)]
    return "SQ %s %d %s" % (head, len(ops), " ".join(ops))


GEN = {"ED": gen_ed, "EF": gen_ef, "CE": gen_ce, "SQ": gen_sq}
BLOCK = 1000


def _gen_block(args):
    seed, kind, b, count = args
    # common.Rng's state is seed*golden+c, so nearby seeds give shifted copies of one stream: spread the seed first
    g = common.Rng(int(hashlib.sha256(("C18-%d-%s-%d" % (seed, kind, b)).encode()).hexdigest()[:15], 16))
    return [GEN[kind](g) for _ in range(count)]


def gen_cases(seed, n_ed, n_ef, n_ce):
    """deterministic in (seed, counts): independent blocks of 1000 cases, generated in parallel"""
    from multiprocessing import Pool
    jobs = []
    for kind, n in (("ED", n_ed), ("EF", n_ef), ("CE", n_ce)):
        for b in range((n + BLOCK - 1) // BLOCK):
            jobs.append((seed, kind, b, min(BLOCK, n - b * BLOCK)))
    if not jobs:
        return []
    with Pool(min(common.NCPU, len(jobs))) as p:
        res = p.map(_gen_block, jobs)
    return [l for r in res for l in r]


# ------------------------------------------------------------------ evaluation of one case
def parse_case(line):
    v = [int(x) for x in line.split()[1:]]
    tag = line[:2]
    q = lambda i: F(v[i], v[i + 1])
    if tag == "ED":
        rows, cells, p = parse_circuit(v, 6)
        return tag, (q(0), q(2), q(4)), rows, cells, None
    if tag == "EF":
        rows, cells, p = parse_circuit(v, 4)
        ne = v[p]; p += 1
        es = [F(v[p + 2 * i], v[p + 2 * i + 1]) for i in range(ne)]
        return tag, (q(0), q(2)), rows, cells, es
    rows, cells, p = parse_circuit(v, 4)
    ng = v[p]; p += 1
    regs = []
    for i in range(ng):
        b = p + 6 * i
        regs.append((tuple(v[b:b + 4]), F(v[b + 4], v[b + 5])))
    return tag, (q(0), q(2)), rows, cells, regs


def ints(s):
    return [int(x) for x in s.split()]


class Ev:
    """verdict of one case"""
    def __init__(self):
        self.stmt = None        # violation of the statement by the C++ output (string)
        self.diff = None        # model and C++ differ beyond the stated tolerance (string)
        self.oracle = None      # python oracle and Coq model differ (checker bug)
        self.cls = "exact"
        self.nontrivial = False
        self.maxdelta = 0
        self.tags = []


def eval_ed(line, il, ml):
    ev = Ev()
    tag, (t, m, mew), rows, cells, _ = parse_case(line)
    o = oracle_ed(t, m, mew, rows, cells)
    if " # " not in il:
        ev.stmt = "no result (abort/throw/crash): " + il
        return ev
    body, verd = il.rsplit(" # ", 1)
    try:
        head, ws = body.split("|")
        ra_c, ca_c = ints(head)
        wc = ints(ws)
        mh, mw = ml.split("|")
        mra, mca, mbr = mh.split()
        mra, mca = int(mra), int(mca)
        wm = ints(mw)
    except ValueError:
        if ml.strip() == "NOFUEL":
            ev.diff = "model ran out of fuel (expand_to_density_total says it cannot)"
        else:
            ev.diff = "unparsable output: impl=%r model=%r" % (il, ml)
        return ev
    w0 = [c[2] for c in cells]
    n = len(cells)
    if len(wc) != n or len(wm) != n:
        ev.diff = "wrong number of widths"
        return ev
    # --- python oracle vs Coq model (both exact): must agree always
    if (mra, mca, wm, mbr) != (o["ra"], o["ca"], o["widths"], o["branch"]):
        ev.oracle = "python oracle %r vs model %r" % ((o["ra"], o["ca"], o["widths"], o["branch"]), (mra, mca, wm, mbr))
    ev.tags.append(o["branch"])
    exact = o["exact"]
    ev.cls = "exact" if exact else "tol"
    ra_ok = ra_c == mra
    if not ra_ok:
        if o["ra_stable"]:
            ev.diff = "rowArea differs: C++ %d, model %d" % (ra_c, mra)
        else:
            ev.cls = "ra-unstable"
    # --- the statement on the C++ output
    if verd != "OK":
        ev.stmt = "something else than the width of a movable cell changed: " + verd
        return ev
    fl = 0 if exact else 1
    cap = None
    mrw = max([r[1] - r[0] for r in rows] + [0])
    cap = mrw * mew
    for i, c in enumerate(cells):
        if not c[5] and c[2] >= 0 and c[3] >= 0 and cap >= c[2] and wc[i] < c[2]:
            ev.stmt = "movable cell %d became narrower (%d -> %d) although the cap %s is not below its width" % (i, c[2], wc[i], cap)
            return ev
    area_c = movable_area(cells, wc)
    # the statement is evaluated against the available area computed by this file (free rows minus margins), and
    # against the C++'s own rowArea only when a float product inside the margin computation is within an ulp of an integer
    ra_s = o["ra"] if o["ra_stable"] else ra_c
    if True:
        bound = max(F(ca_c), t * ra_s)
        slack = fl * (bound * F(1, 2 ** 40) + F(1, 2 ** 20))
        if area_c > bound + slack:
            ev.stmt = "movable area %d exceeds max(current area %d, target*available = %s)" % (area_c, ca_c, float(t * ra_s))
            return ev
        if o["ra_stable"] and o["branch"] == "expand" and not o.get("branch_unstable") and (o["nocap"] if exact else o["nocap_robust"]):
            # the statement says "one cell height": the tallest processed cell (the theorem gives the sharper
            # height of the last processed cell for the model's processing order)
            low = t * ra_s - o["hmax"]
            if not (area_c >= low - slack):   # inclusive: the statement says "within"; the theorem proves the strict bound
                ev.stmt = ("no cap binds but movable area %d is not within one cell height (%d) of target*available = %s"
                           % (area_c, o["hmax"], float(t * ra_s)))
                return ev
            ev.tags.append("nocap")
        elif o["branch"] == "expand":
            ev.tags.append("capped")
    # --- tie
    if ev.cls == "ra-unstable" or ev.diff:
        return ev
    if o.get("branch_unstable"):
        ev.cls = "branch-unstable"
        return ev
    ev.maxdelta = max([abs(a - b) for a, b in zip(wc, wm)] + [0])
    if exact:
        if wc != wm:
            ev.diff = "exact class: widths differ: C++ %s, model %s" % (wc, wm)
    else:
        # prefix-area criterion (see module docstring)
        proc = set(i for i, _, _ in o["prefix"])
        for i in range(n):
            if i not in proc and wc[i] != wm[i]:
                ev.diff = "cell %d is not processed by the loop but widths differ: C++ %d, model %d" % (i, wc[i], wm[i])
                return ev
        acc = 0
        for i, _, h in o["prefix"]:
            acc += (wc[i] - wm[i]) * cells[i][3]
            if abs(acc) > h:
                ev.diff = "prefix area up to cell %d differs by %d > cell height %d: C++ %s, model %s" % (i, acc, h, wc, wm)
                return ev
    ev.nontrivial = o["branch"] == "expand" and wm != w0
    return ev


def eval_ef(line, il, ml):
    ev = Ev()
    tag, (maxd, m), rows, cells, es = parse_case(line)
    o = oracle_ef(es, maxd, m, rows, cells)
    mthrow = ml.strip() == "THROW"
    cthrow = il.startswith("THROW")
    if o["throw"] != mthrow:
        ev.oracle = "python oracle throw=%s, model %r" % (o["throw"], ml)
    if mthrow or cthrow:
        ev.tags.append("throw")
        if mthrow != cthrow:
            ev.diff = "throw behaviour differs: C++ %r, model %r" % (il, ml)
        return ev
    if " # " not in il:
        ev.stmt = "no result (abort/crash): " + il
        return ev
    body, verd = il.rsplit(" # ", 1)
    try:
        head, ws, rets = body.split("|")
        ra_c, ca_c = ints(head)
        wc = ints(ws)
        ret_c = F(float.fromhex(rets.strip()))
        mh, mw, mr = ml.split("|")
        mra, mca, mea, mbr = mh.split()
        mra, mca, mea = int(mra), int(mca), int(mea)
        wm = ints(mw)
        rn, rd = mr.strip().split("/")
        ret_m = F(int(rn), int(rd))
    except ValueError:
        ev.diff = "unparsable output: impl=%r model=%r" % (il, ml)
        return ev
    n = len(cells)
    w0 = [c[2] for c in cells]
    if len(wc) != n or len(wm) != n:
        ev.diff = "wrong number of widths"
        return ev
    if (mra, mca, mea, wm, mbr, ret_m) != (o["ra"], o["ca"], o["ea"], o["widths"], o["branch"], o["ret"]):
        ev.oracle = "python oracle %r vs model %r" % ((o["ra"], o["ca"], o["ea"], o["widths"], o["branch"], o["ret"]),
                                                     (mra, mca, mea, wm, mbr, ret_m))
    ev.tags.append(o["branch"])
    ev.cls = o["cls"]
    ra_ok = ra_c == mra
    if not ra_ok:
        if o["ra_stable"]:
            ev.diff = "rowArea differs: C++ %d, model %d" % (ra_c, mra)
        else:
            ev.cls = "ra-unstable"
    if verd != "OK":
        ev.stmt = "something else than the width of a movable cell changed: " + verd
        return ev
    if all(e >= 1 for e in es):
        for i, c in enumerate(cells):
            if not c[5] and 0 <= c[2] and c[3] >= 0 and wc[i] < c[2]:
                ev.stmt = "movable cell %d became narrower (%d -> %d) with all factors >= 1" % (i, c[2], wc[i])
                return ev
    area_c = movable_area(cells, wc)
    k = o["kmov"]
    exact = ev.cls == "exact"
    ra_s = o["ra"] if o["ra_stable"] else ra_c
    bound = max(F(ca_c), maxd * ra_s + k)
    # outside the exact class: the factors are floats (relative rounding 2^-24 each) and a truncation of the
    # accumulation may fall on the other side of an integer
    slack = 0 if exact else (2 * k + bound * F(1, 2 ** 22))
    if area_c > bound + slack:
        ev.stmt = ("movable area %d exceeds max(current area %d, maxDensity*available + #movable = %s)"
                   % (area_c, ca_c, float(maxd * ra_s + k)))
        return ev
    if ev.cls in ("ra-unstable", "loose") or ev.diff:
        return ev
    ev.maxdelta = max([abs(a - b) for a, b in zip(wc, wm)] + [0])
    for i in range(n):
        dlt = abs(wc[i] - wm[i])
        if dlt > o["may"][i]:
            ev.diff = ("%s class: width of cell %d differs by %d (allowed %d): C++ %s, model %s"
                       % (ev.cls, i, dlt, o["may"][i], wc, wm))
            return ev
    if o.get("ret_exact", o["branch"] != "expand"):
        if ret_c != ret_m:
            ev.diff = "returned value differs: C++ %s, model %s" % (float(ret_c), ret_m)
    elif abs(ret_c - ret_m) > abs(ret_m) * F(1, 2 ** 20):
        ev.diff = "returned value differs: C++ %s, model %s" % (float(ret_c), float(ret_m))
    ev.nontrivial = o["branch"] == "expand" and wm != w0
    if o["branch"] == "expand":
        ev.tags.append("ratio" if F(o["ea"], o["ra"]) > maxd else "full")
    return ev


def eval_ce(line, il, ml):
    ev = Ev()
    tag, (fp, pf), rows, cells, regs = parse_case(line)
    o = oracle_ce(fp, pf, rows, cells, regs)
    mthrow = ml.strip() == "THROW"
    cthrow = il.startswith("THROW")
    if o["throw"] != mthrow:
        ev.oracle = "python oracle throw=%s, model %r" % (o["throw"], ml)
    if mthrow or cthrow:
        ev.tags.append("throw")
        if mthrow != cthrow:
            ev.diff = "throw behaviour differs: C++ %r, model %r" % (il, ml)
        return ev
    if " # " not in il:
        ev.stmt = "no result (abort/crash): " + il
        return ev
    body, verd = il.rsplit(" # ", 1)
    try:
        vc = [F(float.fromhex(x)) for x in body.split()]
        vm = []
        for x in ml.split():
            a, b = x.split("/")
            vm.append(F(int(a), int(b)))
    except ValueError:
        ev.diff = "unparsable output: impl=%r model=%r" % (il, ml)
        return ev
    n = len(cells)
    if len(vc) != n or len(vm) != n:
        ev.diff = "wrong number of factors: C++ %d, model %d, cells %d" % (len(vc), len(vm), n)
        return ev
    if vm != o["vals"]:
        ev.oracle = "python oracle %r vs model %r" % (o["vals"], vm)
    exact = o["exact"]
    ev.cls = "exact" if exact else "tol"
    if verd != "OK":
        ev.stmt = "computeCellExpansion modified the circuit: " + verd
        return ev
    tol = F(0) if exact else F(1, 2 ** 21)
    for i, c in enumerate(cells):
        cs = o["cands"][i]
        if c[5] or not cs:
            if vc[i] != 1:
                ev.stmt = "cell %d is %s but its factor is %s, not 1" % (i, "fixed" if c[5] else "in no congested region", float(vc[i]))
                return ev
        else:
            mx = max(cs)
            if vc[i] < mx * (1 - tol) or not any(abs(vc[i] - e) <= e * tol for e in cs):
                ev.stmt = ("cell %d: factor %s is not the largest factor %s of the congested regions it intersects (%s)"
                           % (i, float(vc[i]), float(mx), [float(e) for e in cs]))
                return ev
            if len(cs) > 1:
                ev.tags.append("overlap")
    for i in range(n):
        if abs(vc[i] - vm[i]) > vm[i] * tol:
            ev.diff = "factor of cell %d differs: C++ %s, model %s" % (i, float(vc[i]), float(vm[i]))
            return ev
    ev.nontrivial = any(v > 1 for v in vm)
    return ev


EVAL = {"ED": eval_ed, "EF": eval_ef, "CE": eval_ce}


def _eval_chunk(args):
    out = []
    for line, il, ml in args:
        try:
            if il.startswith("SKIPPED"):
                ev = Ev()
                ev.cls = "skipped"
            else:
                ev = EVAL[line[:2]](line, il, ml)
        except Exception as e:   # a bug of this file must not pass silently
            ev = Ev()
            ev.oracle = "checker exception %r" % (e,)
        out.append((ev.stmt, ev.diff, ev.oracle, ev.cls, ev.nontrivial, ev.maxdelta, ev.tags))
    return out


def evaluate(lines, impl, model):
    from multiprocessing import Pool
    items = list(zip(lines, impl, model))
    nch = max(1, min(common.NCPU, len(items) // 500 + 1))
    size = (len(items) + nch - 1) // nch
    chunks = [items[i:i + size] for i in range(0, len(items), size)]
    with Pool(nch) as p:
        res = p.map(_eval_chunk, chunks)
    return [x for r in res for x in r]


# ------------------------------------------------------------------ sequences on one object: run and judge
def gen_sq_cases(seed, n):
    from multiprocessing import Pool
    jobs = [(seed, "SQ", b, min(BLOCK, n - b * BLOCK)) for b in range((n + BLOCK - 1) // BLOCK)]
    if not jobs:
        return []
    with Pool(min(common.NCPU, len(jobs))) as p:
        res = p.map(_gen_block, jobs)
    return [l for r in res for l in r]


def split_sequence(out):
    """harness result line of an SQ case -> list of (single-call case line, result of the object with history, result of the fresh circuit)"""
    steps = []
    for part in out.split(" ;; "):
        if part.startswith("SETTER-THROW") or not part.strip():
            continue
        f = part.split(" => ")
        if len(f) != 3 or f[0][:3] not in ("ED ", "EF "):
            return None
        steps.append((f[0], f[1], f[2]))
    return steps


def run_sequences(harness, driver, sq_lines):
    """every expansion call of every sequence is judged as a single-call case on the public state just before it:
    statement oracle and tie with the model on the result of the OBJECT WITH HISTORY, which must also be
    identical (row area, widths, returned double bit for bit) to the result of a fresh circuit with the same public
    state -- built inside the sequence process and once more in another process.
    returns (stats, stmt, hist, diff, orc): lists of dicts describing concrete sequences"""
    stats = {"sequences": len(sq_lines), "expansion_calls": 0, "calls_that_change_a_width": 0, "sequences_with_two_changing_calls": 0,
             "setter_throws": 0, "calls_after_a_setter_that_changed_the_available_area": 0}
    stmt, hist, diff, orc = [], [], [], []
    if not sq_lines:
        return stats, stmt, hist, diff, orc, set()
    out, _, _ = common.run_both([harness, "run"], None, sq_lines, chunk=400)
    flat = []      # (sequence index, step index, case line, hist, fresh)
    for qi, (ql, o) in enumerate(zip(sq_lines, out)):
        if o.startswith("SKIPPED"):
            continue
        steps = split_sequence(o)
        if steps is None:
            stmt.append({"case": ql, "why": "no result (abort/crash/timeout) for the sequence: " + o[:300], "implementation_output": o[:600]})
            continue
        if "SETTER-THROW" in o:
            stats["setter_throws"] += 1
            diff.append({"case": ql, "why": "a public setter of the sequence threw: " + o[o.index("SETTER-THROW"):][:200]})
        for si, (dl, rh, rf) in enumerate(steps):
            flat.append((qi, si, dl, rh, rf))
    dlines = [f[2] for f in flat]
    impl2, model, _ = common.run_both([harness, "run"], [driver], dlines, chunk=1500)
    res = evaluate(dlines, [f[3] for f in flat], model)
    changing = {}
    prev_ra = {}
    nontriv = set()
    for (qi, si, dl, rh, rf), i2, ml, (s, d, o, cls, nt, mdl, tg) in zip(flat, impl2, model, res):
        stats["expansion_calls"] += 1
        info = {"case": sq_lines[qi], "format": "see harness/expand.cpp (runSequence)", "expansion_call_number": si + 1,
                "public_state_before_the_call_as_single_call_case": dl, "object_with_history": rh, "fresh_circuit_same_public_state": rf,
                "model_output": ml}
        if nt:
            stats["calls_that_change_a_width"] += 1
            changing[qi] = changing.get(qi, 0) + 1
            nontriv.add(sq_lines[qi])
        ra_now = ml.split()[0] if ml and ml[0].isdigit() else None
        if si and ra_now is not None and prev_ra.get(qi) not in (None, ra_now):
            stats["calls_after_a_setter_that_changed_the_available_area"] += 1
        prev_ra[qi] = ra_now
        if s:
            stmt.append(dict(info, why="expansion call %d of the sequence: %s" % (si + 1, s)))
        if rh != rf:
            hist.append(dict(info, why="expansion call %d of the sequence: the object that went through the earlier calls gives %r, a fresh "
                                       "circuit with the same public state gives %r" % (si + 1, rh[:200], rf[:200])))
        elif rf != i2 and not i2.startswith("SKIPPED"):
            diff.append(dict(info, why="the fresh circuit inside the sequence process gives %r, the same case in another process %r"
                                       % (rf[:200], i2[:200])))
        elif d:
            diff.append(dict(info, why=d))
        if o:
            orc.append(dict(info, why=o))
    stats["sequences_with_two_changing_calls"] = sum(1 for v in changing.values() if v >= 2)
    return stats, stmt, hist, diff, orc, nontriv


# ------------------------------------------------------------------ extraction cross-check inside Coq
ORI = ["oN", "oS", "oW", "oE", "oFN", "oFS", "oFW", "oFE", "oINVALID", "oUNKNOWN"]


def gq(q):
    return "((%d) # %d)" % (q.numerator, q.denominator)


def gcirc(rows, cells):
    rs = "; ".join("{| rr := {| minX := (%d); maxX := (%d); minY := (%d); maxY := (%d) |}; ro := %s |}"
                   % (r[0], r[1], r[2], r[3], ORI[r[4]]) for r in rows)
    cs = "; ".join("{| e_x := (%d); e_y := (%d); e_w := (%d); e_h := (%d); e_o := %s; e_fixed := %s; e_obs := %s |}"
                   % (c[0], c[1], c[2], c[3], ORI[c[4]], "true" if c[5] else "false", "true" if c[6] else "false") for c in cells)
    return "{| e_rows := [%s]; e_cells := [%s] |}" % (rs, cs)


def vm_crosscheck(lines, model):
    """the widths computed by the extracted OCaml code are recomputed by vm_compute inside Coq on a few cases"""
    import re
    sub = [(l, m) for l, m in zip(lines, model) if l[:2] in ("ED", "EF") and "expand |" in m and len(l) < 700][:24]
    exprs = []
    for l, m in sub:
        tag, par, rows, cells, es = parse_case(l)
        if tag == "ED":
            exprs.append("match expand_to_density_br %s %s %s %s with Some (c', _) => map e_w (e_cells c') | None => [] end"
                         % (gq(par[0]), gq(par[1]), gq(par[2]), gcirc(rows, cells)))
        else:
            exprs.append("match expand_by_factor_br [%s] %s %s %s with Some (c', _, _) => map e_w (e_cells c') | None => [] end"
                         % ("; ".join(gq(e) for e in es), gq(par[0]), gq(par[1]), gcirc(rows, cells)))
    if not exprs:
        return 0, []
    res = common.vm_eval("C18", "From Coq Require Import List ZArith QArith. Import ListNotations. "
                                "Require Import CV.Orient CV.FreeSpace CV.Expand.", exprs)
    if res is None:
        return 0, ["vm_compute evaluation failed"]
    bad = []
    for (l, m), r in zip(sub, res):
        got = [int(x) for x in re.findall(r"-?\d+", r.split(":")[0])]
        want = ints(m.split("|")[1])
        if got != want:
            bad.append("vm_compute %r vs extracted %r on %s" % (got, want, l))
    return len(sub), bad


# ------------------------------------------------------------------ entry points
def run(ctx):
    proof_ok, proof = common.proof_status_all(ctx, "C18", ["links"])
    harness = common.build_harness("expand")
    driver = common.build_driver("expand")
    lines = common.corpus("C18", ("ED ", "EF ", "CE "))
    ncorpus = len(lines)
    seeds = [ctx.seed] if ctx.quick else [ctx.seed, ctx.seed + 1000, ctx.seed + 2000, ctx.seed + 3000]
    per = (30000, 22000, 14000) if ctx.quick else (150000, 110000, 70000)
    for s in seeds:
        lines += gen_cases(s, *per)
    impl, model, errs = common.run_both([harness, "run"], [driver], lines, chunk=1500)
    res = evaluate(lines, impl, model)
    nvm, vmbad = vm_crosscheck(lines, model)
    # sequences of calls on ONE Circuit object (state surviving between calls): every expansion call against a fresh circuit
    sq_lines = common.corpus("C18", ("SQ ",))
    for s in seeds:
        sq_lines += gen_sq_cases(s, 4000 if ctx.quick else 20000)
    sq_stats, sq_stmt, sq_hist, sq_diff, sq_orc, sq_nontriv = run_sequences(harness, driver, sq_lines)
    # floating-point tie: the compiled code against the Flocq binary64/binary32 model ExpandFloat.v, evaluated inside Coq
    import sys
    from checks import c18_float
    ftie, fbad = c18_float.float_tie(ctx, sys.modules[__name__], harness,
                                     counts=(36, 36, 24) if ctx.quick else (40, 36, 20),
                                     extra_lines=[l for l in lines[:ncorpus] if l.startswith(("ED ", "EF ", "CE ")) and len(l) < 300][:4])
    stmt, diff, orc = [], [], []
    classes, tags, kinds = {}, {}, {"ED": 0, "EF": 0, "CE": 0}
    nontriv = set()
    maxdelta = {"ED": 0, "EF": 0}
    for line, il, ml, (s, d, o, cls, nt, mdl, tg) in zip(lines, impl, model, res):
        k = line[:2]
        kinds[k] += 1
        classes[k + ":" + cls] = classes.get(k + ":" + cls, 0) + 1
        for x in tg:
            tags[k + ":" + x] = tags.get(k + ":" + x, 0) + 1
        if nt:
            nontriv.add(line)
        if k in maxdelta and cls != "exact":
            maxdelta[k] = max(maxdelta[k], mdl)
        if s:
            stmt.append((line, il, ml, s))
        if d:
            diff.append((line, il, ml, d))
        if o:
            orc.append((line, il, ml, o))
    for line, il, ml, s in stmt[:3]:
        ctx.violation("cell expansion of /repo violates C18: " + s,
                      {"case": line, "format": "see harness/expand.cpp header", "implementation_output": il,
                       "model_output": ml, "why": s})
    for v in sq_stmt[:3]:
        ctx.violation("cell expansion of /repo violates C18 in a sequence of calls on one Circuit object: " + v["why"], v)
    if not stmt and not sq_stmt:
        if sq_hist:
            ctx.violation("expansion depends on the earlier calls made on the Circuit object, not only on its public state (%d of %d expansion "
                          "calls in sequences differ from a fresh circuit); no input violating C18 found; first: %s"
                          % (len(sq_hist), sq_stats["expansion_calls"], sq_hist[0]["why"][:300]),
                          {"broken": "correspondence of coq/Expand.v (the model is a function of the public state; theorems of Properties_C18.v)",
                           "first_difference": sq_hist[0], "differences": len(sq_hist)}, found_input=False)
        elif sq_diff or sq_orc:
            w = (sq_diff or sq_orc)[0]
            ctx.violation("sequences on one Circuit object: %d expansion calls differ from the model beyond the stated tolerance / %d oracle "
                          "disagreements; no input violating C18 found; first: %s" % (len(sq_diff), len(sq_orc), w["why"][:300]),
                          {"broken": "correspondence of coq/Expand.v (theorems of Properties_C18.v)" if sq_diff else "checks/c18.py oracle vs coq/Expand.v",
                           "first_difference": w, "differences": len(sq_diff) + len(sq_orc)}, found_input=False)
        if diff:
            ctx.violation("correspondence Expand.v <-> src/coloquinte.cpp broken (%d of %d cases differ beyond the stated tolerance); "
                          "no input violating C18 found; first: %s" % (len(diff), len(lines), diff[0][3][:200]),
                          {"broken": "correspondence of coq/Expand.v (theorems of Properties_C18.v)",
                           "first_difference": {"case": diff[0][0], "implementation": diff[0][1], "model": diff[0][2], "why": diff[0][3]},
                           "differences": len(diff)}, found_input=False)
        elif orc:
            ctx.violation("the independent exact oracle of checks/c18.py disagrees with the extracted model (%d cases): %s"
                          % (len(orc), orc[0][3][:300]),
                          {"broken": "checks/c18.py oracle vs coq/Expand.v", "first_difference": {"case": orc[0][0], "why": orc[0][3]}},
                          found_input=False)
        if vmbad:
            ctx.violation("extracted model differs from vm_compute inside Coq: " + vmbad[0][:300],
                          {"broken": "extraction of coq/Expand.v", "detail": vmbad[:3]}, found_input=False)
        if fbad:
            ctx.violation("the compiled expansion functions differ from the floating-point model ExpandFloat.v (%d of %d cases): %s"
                          % (len(fbad), ftie["cases"], fbad[0][0][:300]),
                          {"broken": "correspondence of coq/ExpandFloat.v (theorems c18f_* of Properties_C18.v)",
                           "first_difference": {"case": fbad[0][1], "implementation": fbad[0][2][:600], "model": fbad[0][3][:600],
                                                "why": fbad[0][0][:600]},
                           "differences": len(fbad)}, found_input=False)
        if not proof_ok:
            ctx.violation("proof obligations of Properties_C18.v do not check", {"broken": "Properties_C18.v", "detail": proof},
                          found_input=False)
    cov = dict(proof)
    ned, nef = per[0] * len(seeds), per[1] * len(seeds)
    cov.update({
        "trusted_base": common.TRUSTED_BASE + [
            "floating point: the model is exact rational arithmetic; the C++ is compared exactly only on the cases where the exact oracle of "
            "checks/c18.py shows every intermediate result representable (class exact), with the stated tolerance otherwise",
            "boost::polygon (computeRows) enters through the C15 contract FreeSpace.v"],
        "evaluations": len(lines) + sq_stats["expansion_calls"], "distinct_nontrivial": len(nontriv) + len(sq_nontriv),
        "rule": "non-trivial = the expansion branch is taken and at least one width changes (ED, EF) / at least one cell gets a factor > 1 (CE) / "
                "at least one expansion call of the sequence changes a width (SQ); distinct = distinct case lines; evaluations = single-call "
                "cases + expansion calls inside sequences",
        "sequences_on_one_object": dict(sq_stats, sample=(sq_lines[1] if len(sq_lines) > 1 else None),
            differ_from_fresh_circuit=len(sq_hist), violate_statement=len(sq_stmt), differ_from_model=len(sq_diff),
            what="SQ: 2-4 expansion calls (expandCellsToDensity 60% / expandCellsByFactor 40%, the margin redrawn before 15% of them) on ONE Circuit object with 1-3 (0-1 when the margin changes) "
                 "public setters between them (setSolution moving/turning fixed cells and obstructions onto or off the rows 45%, setCellX/Y, "
                 "setCellOrientation, setCellIsObstruction, setCellIsFixed, setCellWidth/Height, setRows, setupRows, copy of the object); before "
                 "each call the public state is read back and a fresh circuit built from it: results must be identical (widths, returned "
                 "double bit for bit), and the call is judged as a single-call case (statement oracle on the object with history, tie with "
                 "the extracted model)"),
        "samples": [lines[ncorpus + 1], lines[ncorpus + ned + 1], lines[ncorpus + ned + nef + 1]],
        "kinds": kinds, "classes": classes, "branches_and_features": tags,
        "max_per_cell_delta_outside_exact_class": maxdelta,
        "input_distribution": "1-6 rows (uniform height, gaps, split rows, zero-width rows, 3% no row), 0-10 cells: 72% movable (w 0..40, "
                              "h = 1-3 rows / arbitrary / 0, 8 orientations), 28% fixed (70% obstructions) overlapping the rows; margins "
                              "0..3 (dyadic, 5% decimal, one that swallows the rows); 75% of the circuits get a tuning row that makes the available "
                              "area o*2^v so that densities are dyadic; targets = density*(1+j/2^b), = density, below density, arbitrary; caps "
                              "0..2 x widest row; factors 1+j/8, 1+j/32, decimal floats, <0.999 (throw), length mismatch; maxDensity 1, "
                              "d+r(ed-d), below d, arbitrary; congestion maps of 0-7 rectangles snapped to cell corners or random, values "
                              "1+j/16 (j>=-8) or decimal; scale x8..x4096 on 6-12%",
        "extraction_crosschecked_by_vm_compute": nvm,
        "floating_point_tie": ftie,
        "model_vs_impl_differences": len(diff) + len(sq_diff) + len(sq_hist), "impl_outputs_violating_statement": len(stmt) + len(sq_stmt),
        "oracle_vs_model_differences": len(orc) + len(sq_orc)})
    return ctx.finish(LEVEL, cov, [
        "domain of the theorems: cell sizes >= 0 (the C++ does not reject negative sizes), caps >= 0",
        "the model Expand.v idealises floating point (exact rationals); ties are exact on the exact class and within the stated tolerance elsewhere",
        "the theorems c18f_* are about the Flocq binary64/binary32 model ExpandFloat.v (one IEEE operation per C++ operator, round to nearest "
        "even: x86-64 SSE2, no -ffast-math, no FMA contraction -- a build with -mfma / -ffp-contract=fast or x87 arithmetic is outside the "
        "model); domain: sizes in [0, 2^31), areas below 2^63, finite arguments, target <= 1, factors in [1, 2^100], congestion values and "
        "penalties <= 2^40; they use the axioms of Coq's classical real numbers (sig_forall_dec, sig_not_dec, functional_extensionality_dep, classic); "
        "it is tied to the compiled code integer for integer / bit for bit on <= 100 non-dyadic cases per run (floating_point_tie)",
        "expandCellsByFactor takes float factors: outside the exact class its area bound is re-checked with the slack 2 per movable cell + "
        "2^-22 relative (factor rounding); F18 (binary32 area accumulation / width products, fixed by bc9a2de on /repo main) is what the cases with "
        "a movable cell wider than 2^24 and corpus lines 11-12 look for",
        "int / long long are unbounded integers in both models: 'never narrower' is claimed only for results below 2^31 (a width of 2^30 with cap 2 becomes -2147483648 in the C++, +2^31 in the model); "
        "the lower area bound is judged only on branch-stable cases without a binding cap, the C++'s own rowArea is used on branch-unstable cases; generated circuits have no nets (pins, weights, polarity, update flags not compared); rows are non-reversed"])


def replay(ctx, path):
    r = json.load(open(path))["replay"]
    case = r.get("case") or r["first_difference"]["case"]
    harness = common.build_harness("expand")
    driver = common.build_driver("expand")
    if case.startswith("SQ "):
        out, _, _ = common.run_both([harness, "run"], None, [case])
        print("case :", case)
        steps = split_sequence(out[0])
        if steps is None:
            print("impl :", out[0])
            return 1
        bad = 0
        for i, (dl, rh, rf) in enumerate(steps):
            _, model, _ = common.run_both([harness, "run"], [driver], [dl])
            ev = EVAL[dl[:2]](dl, rh, model[0])
            print("expansion call %d on the public state: %s" % (i + 1, dl))
            print("  object with history:", rh)
            print("  fresh circuit      :", rf, "" if rh == rf else "   <-- DIFFERENT")
            print("  model              :", model[0])
            print("  class:", ev.cls, " statement:", ev.stmt or "holds", " tie:", ev.diff or "agrees", " oracle:", ev.oracle or "agrees")
            bad += 1 if (ev.stmt or ev.diff or ev.oracle or rh != rf) else 0
        return 1 if bad else 0
    impl, model, _ = common.run_both([harness, "run"], [driver], [case])
    print("case :", case)
    print("impl :", impl[0])
    print("model:", model[0])
    ev = EVAL[case[:2]](case, impl[0], model[0])
    print("class:", ev.cls, " statement:", ev.stmt or "holds", " tie:", ev.diff or "agrees", " oracle:", ev.oracle or "agrees")
    return 1 if (ev.stmt or ev.diff or ev.oracle) else 0
