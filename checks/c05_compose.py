"""C05, tie of the composition theorems (coq/Properties_C05.v: c05_exposed_hpwl_is_value,
c05_exposed_wirelength_never_increases): the STATEMENT of the theorems evaluated on the real code.

harness/dopt.cpp drives DetailedPlacer directly (best-move calls, swap / insert / shift / reordering passes with
arbitrary window arguments) and prints, after construction and after every op, DetailedPlacer::value() and the
circuit after exportPlacement (x y orientation of every cell, exported into a copy of the legalized circuit: what a
Detailed callback sees).  For every such exposed state this module computes "Circuit::hpwl()" of the exposed circuit
with its TRUE orientations -- NOT by calling the C++: it is the MODEL's wirelength of the exported coordinates (Hpwl.hpwl, tied to the real
Circuit::hpwl by C09's check; the messages below say "Circuit::hpwl()" for that model value) (proved model Hpwl.hpwl = DetailedValue.hpwl_circuit, tag HP of the main driver; the
existing check of checks/dopt_common.py uses the orientations FROZEN at construction instead) and decides the F8
scope hypothesis orient_frozen (no cell with a row polarity has another orientation than at construction).  Then
 * in-scope state:  Circuit::hpwl() == DetailedPlacer::value()                      (c05_exposed_hpwl_is_value)
 * in-scope states j < k of one run:  hpwl_k <= hpwl_j <= hpwl at construction       (c05_exposed_wirelength_never_increases)
 * out-of-scope states are only counted (known finding F8), with the number of those where Circuit::hpwl() rose.

PAIRED MODEL (run_paired): the extracted paired model itself (coq/Extract_value.v, ocaml/driver_value.ml, tag PV: from_circuit +
init_models, then DetailedValue.pbest for every leading best-move op of the run -- bestSwap, bestInsert, bestSwapUpdate, arguments
decoded from the raw op ints exactly as the harness does but from the MODEL's structure) against the C++: decision, value() and the
exported circuit (x y orientation of every cell) after construction and after every such op, EXACT.

Library: run_compose(ctx, count, seed) -> dict, run_paired(ctx, count, seed) -> dict.  Stand-alone: python3 -m checks.c05_compose [seed] [count]
(exit 1 when an in-scope state violates one of the two statements)."""
import sys
from tools import common
from checks import legal_common as lc
from checks import dopt_common as do


class _Ctx:
    prop = "C05"


def states_of(out):
    """[(op index or -1, value, placement ints)] of one dopt output line, up to the first op that did not complete"""
    segs = [s.strip() for s in out.split(" / ")]
    if not segs or not segs[0].startswith("INIT"):
        return None
    h = segs[0][4:].split(";")
    st = [(-1, int(h[0]), [int(x) for x in h[1].split()])]
    k = -1
    for s in segs[1:]:
        if s.startswith("L "):
            continue
        k += 1
        if s == "SKIP":
            continue
        if s.startswith("THROW") or s in ("ABORT", "SEGV", "FPE", "SIGNAL") or s.startswith("DIED"):
            break
        parts = [x.strip() for x in s.split(";")]
        if parts[0].startswith("B"):
            st.append((k, int(parts[2]), [int(x) for x in parts[3].split()]))
        else:
            st.append((k, int(parts[1]), [int(x) for x in parts[2].split()]))
    return st


def run_compose(ctx, count, seed, modes=(0, 16)):
    dres = do.run_dopt(ctx if ctx is not None else _Ctx(), count, seed, modes)
    driver = common.build_driver()
    lines, impl = dres["lines"], dres["impl"]
    res = {"runs": 0, "states": 0, "in_scope": 0, "out_of_scope": 0, "out_of_scope_rose": 0, "polarised_runs": 0,
           "improved_runs": 0, "row_change_states": 0,
           "value_mismatch": [], "mono_fail": [], "driver_fail": []}
    hinp, hmap = [], []
    per_run = {}
    for i, (l, out) in enumerate(zip(lines, impl)):
        if out.strip() == "NOLEG":
            continue
        st = states_of(out)
        if st is None:
            continue
        ctoks, ntoks = do.split_do(l)
        cells, _ = lc.cells_of(ctoks)
        res["runs"] += 1
        pol = [k for k, c in enumerate(cells) if c[5] != 0 and c[6] == 0]
        if pol:
            res["polarised_runs"] += 1
        pl0 = st[0][2]
        per_run[i] = []
        for (k, v, pl) in st:
            true_o = [pl[3 * j + 2] for j in range(len(cells))]
            scope = all(pl[3 * j + 2] == pl0[3 * j + 2] for j in pol)
            if any(pl[3 * j + 1] != pl0[3 * j + 1] for j in range(len(cells))):
                res["row_change_states"] += 1
            hinp.append("HP " + do.hp_case(cells, pl, true_o, ntoks))
            hmap.append((i, k, v, scope))
    hout, _, _ = common.run_both([driver], None, hinp)
    for (i, k, v, scope), o in zip(hmap, hout):
        try:
            h = int(o.strip())
        except ValueError:
            res["driver_fail"].append((lines[i], "op %d" % k, "the model driver could not evaluate Circuit::hpwl of the exposed circuit: " + o[:100]))
            continue
        res["states"] += 1
        per_run[i].append((k, v, h, scope))
        if scope:
            res["in_scope"] += 1
            if h != v:
                res["value_mismatch"].append((lines[i], "op %d: Circuit::hpwl() of the exposed circuit = %d, DetailedPlacer::value() = %d" % (k, h, v),
                                              "no polarised cell changed orientation, yet the wirelength of the exposed circuit differs from the optimised value (c05_exposed_hpwl_is_value)"))
        else:
            res["out_of_scope"] += 1
    for i, sts in per_run.items():
        last = None
        prev_any = None
        for (k, v, h, scope) in sts:
            if not scope and prev_any is not None and h > prev_any:
                res["out_of_scope_rose"] += 1
            prev_any = h
            if not scope:
                continue
            if last is not None and h > last[1]:
                res["mono_fail"].append((lines[i], "Circuit::hpwl() of the exposed circuit: %d after op %d, %d after op %d" % (last[1], last[0], h, k),
                                         "the wirelength of the exposed circuit rose between two exposed states in which no polarised cell has changed orientation (c05_exposed_wirelength_never_increases)"))
                break
            last = (k, h)
        ins = [h for (_, _, h, scope) in sts if scope]
        if len(ins) > 1 and ins[-1] < ins[0]:
            res["improved_runs"] += 1
    return res


def run_paired(ctx, count, seed, modes=(0, 16)):
    dres = do.run_dopt(ctx if ctx is not None else _Ctx(), count, seed, modes)
    driver = common.build_driver("value")
    lines, impl = dres["lines"], dres["impl"]
    res = {"runs": 0, "best_ops": 0, "accepted": 0, "row_changing": 0, "mismatch": [], "driver_fail": []}
    pinp, pmap = [], []
    for i, (l, out) in enumerate(zip(lines, impl)):
        segs = [x.strip() for x in out.split(" / ")]
        if not segs or not segs[0].startswith("INIT"):
            continue
        ctoks, ntoks = do.split_do(l)
        t = l.split()[1:]
        ops = t[len(ctoks) + len(ntoks):]
        pl0 = [int(x) for x in segs[0][4:].split(";")[1].split()]
        pinp.append("PV " + " ".join(lc.with_placement(ctoks, pl0)) + " " + " ".join(do.nets_for_hp(ntoks)) + " " + " ".join(ops))
        pmap.append((i, [x for x in segs if not x.startswith("L ")]))
    pout, _, _ = common.run_both([driver], None, pinp, chunk=300, timeout=600)
    for (i, segs), o in zip(pmap, pout):
        msegs = [x.strip() for x in o.split(" / ")]
        if not msegs or not msegs[0].startswith("INIT"):
            res["driver_fail"].append((lines[i], o[:200], "the paired model did not build a state for a circuit the C++ accepted"))
            continue
        res["runs"] += 1
        norm = lambda x: " ".join(x.split())
        if norm(msegs[0]) != norm(segs[0]):
            res["mismatch"].append((lines[i], segs[0][:300], msegs[0][:300], "state after construction (value, exported circuit)"))
            continue
        prev = segs[0].split(";")[1].split()
        for k, (a, m) in enumerate(zip(segs[1:], msegs[1:])):
            if m == "STOP":
                break
            if a == "SKIP" or m == "SKIP":
                if a != m:
                    res["mismatch"].append((lines[i], a[:300], m[:300], "op %d" % k))
                    break
                continue
            if not a.startswith("B "):
                res["mismatch"].append((lines[i], a[:300], m[:300], "op %d: the model ran a best-move op where the C++ did something else" % k))
                break
            pa = [x.strip() for x in a.split(";")]; pm = [x.strip() for x in m.split(";")]
            res["best_ops"] += 1
            got = (pa[0].split()[1], pa[2], norm(pa[3])); want = (pm[0].split()[1], pm[1], norm(pm[2]))
            if got != want:
                res["mismatch"].append((lines[i], "found %s value %s placement %s" % got, "found %s value %s placement %s" % want, "best-move op %d" % k))
                break
            cur = pa[3].split()
            if pa[0].split()[1] == "1":
                res["accepted"] += 1
                if any(cur[3 * j + 1] != prev[3 * j + 1] for j in range(len(cur) // 3)):
                    res["row_changing"] += 1
            prev = cur
    return res


def summary(res):
    return {k: (len(v) if isinstance(v, list) else v) for k, v in res.items()}


if __name__ == "__main__":
    seed = int(sys.argv[1]) if len(sys.argv) > 1 else 1
    count = int(sys.argv[2]) if len(sys.argv) > 2 else 3000
    r = run_compose(None, count, seed + 40)
    print(summary(r))
    bad = r["value_mismatch"] + r["mono_fail"] + r["driver_fail"]
    for l, what, why in bad[:3]:
        print("FAIL:", why, "|", what, "|", l[:300])
    q = run_paired(None, count, seed + 40)
    print("paired model:", summary(q))
    for x in (q["mismatch"] + q["driver_fail"])[:3]:
        print("FAIL (paired model differs from the C++):", " | ".join(str(y)[:400] for y in x[1:]), "|", x[0][:300])
    sys.exit(1 if bad or q["mismatch"] or q["driver_fail"] else 0)
