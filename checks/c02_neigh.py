"""C02/C07 -- RowNeighbourhood (which rows the detailed-placement passes look at).
Proof: coq/Properties_C02_neigh.v (index safety for all inputs, exact length bounds, geometric meaning, symmetry,
independence of the construction order).  Tie: the four lists of every row printed by harness/rowneigh.cpp
(RowNeighbourhood of /repo's working tree, plain and asan builds) compared EXACTLY with the extracted model
(coq/RowNeigh.v, neighbourhood); the safety statement is re-evaluated on the C++ output independently of the model.

    from checks import c02_neigh
    cov_n, bad = c02_neigh.run_neigh(ctx, count, seed)     # reports violations through ctx itself
"""
from tools import common


# fixed cases: the authors' unit tests (test/test_row_neighbourhood.cpp) and the witnesses of Properties_C02_neigh.v
FIXED = [
    "RN 1 2 0 100 0 12 10 90 12 24",                                              # TestBasic1
    "RN 3 4 0 100 0 12 10 90 12 24 -200 -10 0 12 -100 5 12 24",                   # TestBasic2 = ex_basic2
    "RN 5 5 0 100 0 12 10 90 12 24 -200 1 12 24 -100 5 24 36 99 105 10 22",       # TestAbove
    "RN 5 5 0 100 0 12 10 90 -12 0 -200 1 -12 0 -100 5 -36 0 99 105 -24 12",      # TestBelow
    "RN 5 5 0 100 0 12 -10 0 -12 0 -100 -10 -12 0 -90 -1 0 12 -20 -5 24 36",      # TestLeft
    "RN 5 5 0 100 0 12 100 140 0 12 130 300 -12 0 100 201 -36 -24 104 105 12 24", # TestRight
    "RN 0 2 0 100 0 12 10 90 12 24",                                              # ex_cutoff0_one
    "RN 0 3 0 10 0 1 20 30 1 2 0 10 2 3", "RN 1 3 0 10 0 1 20 30 1 2 0 10 2 3",   # ex_cutoff0_none
    "RN 2 3 0 5 0 1 0 5 0 1 10 20 0 1",                                           # ex_sides_tie_dependent (stable for n <= 16)
    "RN 1 3 0 10 0 1 0 5 1 2 5 10 1 2",                                           # symmetry_cutoff_refuted
    "RN 2 0", "RN 0 1 0 10 0 1", "RN 3 2 5 5 0 1 5 5 0 1", "RN 3 3 4 2 0 1 0 10 1 2 3 3 2 3",   # empty / single / degenerate rows
]


def parse_case(line):
    v = [int(t) for t in line.split()[1:]]
    k, n = v[0], v[1]
    rows = [tuple(v[2 + 4 * i:6 + 4 * i]) for i in range(n)]
    return k, rows


def parse_lists(text):
    out = []
    for part in text.strip().split(";"):
        if not part:
            continue
        four = part.split("|")
        if len(four) != 4 or [f[:1] for f in four] != ["b", "a", "l", "r"]:
            raise ValueError(part)
        out.append([[int(t) for t in f[1:].split()] for f in four])
    return out


def safety_verdict(k, rows, lists):
    """the proved statement (rn_*_safe, rn_*_length, rn_*_geometry of Properties_C02_neigh.v) on the C++ output"""
    n = len(rows)
    if len(lists) != n:
        return "the structure has %d rows, the input %d" % (len(lists), n)
    for r, four in enumerate(lists):
        for w, l in enumerate(four):
            name = ("rowsBelow", "rowsAbove", "rowsLeft", "rowsRight")[w]
            bound = max(k, 1) if w < 2 else max(k, 0)
            if len(l) > bound:
                return "%s(%d) has %d entries, the cut-off %d allows %d" % (name, r, len(l), k, bound)
            if len(set(l)) != len(l):
                return "%s(%d) lists a row twice" % (name, r)
            for j in l:
                if not 0 <= j < n:
                    return "%s(%d) contains %d, not a row index (nbRows = %d)" % (name, r, j, n)
                if j == r:
                    return "%s(%d) contains the row itself" % (name, r)
                a, b = rows[r], rows[j]
                overlap = b[0] < a[1] and a[0] < b[1]
                if w == 0 and not (b[2] < a[2] and overlap):
                    return "rowsBelow(%d) contains %d, which is not strictly below with a common abscissa" % (r, j)
                if w == 1 and not (b[2] > a[2] and overlap):
                    return "rowsAbove(%d) contains %d, which is not strictly above with a common abscissa" % (r, j)
                if w == 2 and not b[1] <= a[0]:
                    return "rowsLeft(%d) contains %d, which is not entirely on the left" % (r, j)
                if w == 3 and not a[1] <= b[0]:
                    return "rowsRight(%d) contains %d, which is not entirely on the right" % (r, j)
    return None


def run_neigh(ctx, count, seed, variants=("plain", "asan")):
    """count random row sets (+ count/10 sets of 17-40 rows) through every variant; returns (coverage dict, nb of problems)"""
    gen = common.build_harness("rowneigh")
    driver = common.build_driver("neigh")
    lines = FIXED + common.corpus("C02", ("RN ",))
    lines += common.harness_gen(gen, [seed, count])
    lines += common.harness_gen(gen, ["big", seed, max(1, count // 10)])
    lines = list(dict.fromkeys(lines))
    bad = 0
    mism, unsafe, nontriv = [], [], set()
    model = None
    for var in variants:
        h = common.build_harness("rowneigh", var)
        impl, m, errs = common.run_both([h, "run"], [driver] if model is None else None, lines)
        if model is None:
            model = m
        for l, i, mo in zip(lines, impl, model):
            k, rows = parse_case(l)
            res, _, verd = i.partition(" # ")
            try:
                lists = parse_lists(res) if verd else None
            except ValueError:
                lists = None
            if lists is None:
                unsafe.append((var, l, i, "no result (abort/throw/crash/sanitizer): " + i[:120]))
                continue
            why = safety_verdict(k, rows, lists)
            if why is None and verd.strip() != "OK":
                why = "harness verdict: " + verd.strip()
            if why:
                unsafe.append((var, l, i, why))
            if res.strip() != mo.strip():
                mism.append((var, l, res.strip(), mo.strip()))
            if sum(1 for four in lists if any(four)) >= 2 and any(four[2] or four[3] for four in lists):
                nontriv.add(l)
    for var, l, i, why in unsafe[:5]:
        bad += 1
        ctx.violation("RowNeighbourhood: " + why,
                      {"case": l, "format": "RN cutoff nbRows (minX maxX minY maxY)*", "build": var, "cpp": i[:400],
                       "replay": "harness rowneigh (%s) run < case" % var})
    for var, l, res, mo in mism[:5]:
        bad += 1
        # the safety statement holds on this output (else it is reported above): the correspondence is what broke
        ctx.violation("RowNeighbourhood: the lists of the C++ differ from the model RowNeigh.neighbourhood",
                      {"broken": "correspondence RN (coq/RowNeigh.v <-> row_neighbourhood.cpp)", "case": l, "build": var,
                       "cpp": res[:400], "model": mo[:400]}, found_input=False)
    cov = {"neigh_evaluations": len(lines) * len(variants), "neigh_cases": len(lines), "neigh_variants": list(variants),
           "neigh_distinct_nontrivial": len(nontriv),
           "neigh_rule": "at least two rows have a neighbour and some row has a left or right neighbour",
           "neigh_samples": lines[:2], "neigh_model_vs_impl_differences": len(mism),
           "neigh_impl_outputs_violating_statement": len(unsafe),
           "neigh_distribution": "1-12 rows on 1-5 levels, aligned or free x ranges, copies of other rows, a few % empty or inverted "
                                 "x ranges, shuffled, scale 1 or 2^3..2^16, cut-off 0..5; 17-40 rows with distinct (minY, minX)"}
    return cov, bad


def replay_neigh(line, variant="plain"):
    """one RN case through the C++ and the model: (cpp result line, model line, verdict of the safety statement or None)"""
    h = common.build_harness("rowneigh", variant)
    driver = common.build_driver("neigh")
    impl, model, _ = common.run_both([h, "run"], [driver], [line])
    k, rows = parse_case(line)
    res, _, verd = impl[0].partition(" # ")
    try:
        why = safety_verdict(k, rows, parse_lists(res)) if verd else "no result: " + impl[0][:120]
    except ValueError:
        why = "no result: " + impl[0][:120]
    return impl[0], model[0], why
