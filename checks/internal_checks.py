"""C01 / C02 -- the INTERNAL check() functions of the legalizer and of the detailed placer.
Proof: coq/Properties_C01_checks.v, coq/Properties_C02_checks.v (the tests pass on every state the closed models reach; hence the
only exceptions of Circuit::legalize / Circuit::placeDetailed on the C01 domain are the parameter check, NoRow / NotAllPlaced and
lemon's answer).  Tie (this file): the extracted models of the test functions (coq/InternalChecks.v abacus_check / export_chk,
coq/InternalChecksDetailed.v cplacer_check = DetailedPlacement::check line by line on the index arrays + IncrNetModel::check of both
models + the coupling loop) against the C++ functions, harness/ichecks.cpp:
  AB  the AbacusLegalizer of Legalizer::runAbacus kept by the harness: the model RECOMPUTES the state AbacusLegalizer::run ends with
      (cellToX_, rowToCells_ compared exactly) and answers check(); then 4 corrupted copies (one vector entry / one vector size
      overwritten on both sides): same answer, message by message;
  EX  Legalizer::exportPlacement's size test;
  DP  DetailedPlacer::check() on the placer built from the legalized circuit, before and after run(), and on 3 + 3 copies with one
      entry of a private vector overwritten: the model evaluates its test on the arrays the C++ dumps.
Statement side: on every state the library itself reached (AB first field, DP lines of kind -1) the C++ check() must pass.

    from checks import internal_checks
    res = internal_checks.run_ichecks(ctx, n_lg, n_dw, seed)
    bad = internal_checks.report(ctx, res)          # reports through ctx; cov.update(internal_checks.summary(res))
"""
import os
import re
from tools import common

EX_FIXED = ["EX 4 0 1 0 0 3", "EX 4 0 1 0 0 2", "EX 0 0", "EX 3 1 1 1 0", "EX 5 0 0 0 0 0 4", "EX 5 0 0 0 0 0 5", "EX 2 0 0 7"]


def _norm(s):
    return " ; ".join(" ".join(p.split()) for p in s.split(";"))


def _cases(seed, n_lg, n_dw):
    legal = common.build_harness("legal")
    drun = common.build_harness("drun")
    lines = common.corpus("C01", ("LG ",))[:200]
    for mode, share in ((0, 0.5), (8, 0.2), (64, 0.2), (4, 0.1)):
        lines += common.harness_gen(legal, ["rand", seed + mode, max(1, int(n_lg * share)), mode])
    dw = [l for l in common.harness_gen(drun, ["rand", seed + 3, max(1, int(n_dw * 2.6)), 0]) if l.startswith("DW ")][:n_dw]
    dw += [l for l in common.harness_gen(drun, ["rand", seed + 4, max(1, n_dw // 2), 16]) if l.startswith("DW ")][:n_dw // 4]
    return lines + EX_FIXED + dw


def run_lines(lines, seed):
    """-> list of records {case, kind ('AB'|'EX'|'DP'), sub (perturbation kind, -1 = reached state), input, cpp, model}, plus the skipped cases"""
    h = common.build_harness("ichecks")
    driver = common.build_driver("ichecks")
    rc, out, err = common.sh([h, "run", str(seed)], inp="\n".join(lines) + "\n", timeout=1500)
    recs, skipped, cur = [], [], None
    for l in out.splitlines():
        if l.startswith("@ "):
            cur = int(l[2:])
            continue
        if " => " not in l:
            skipped.append((lines[cur] if cur is not None and cur < len(lines) else "?", l))
            continue
        left, right = l.split(" => ", 1)
        sub = -1
        if " # " in right:
            right, k = right.rsplit(" # ", 1)
            sub = int(k)
        recs.append({"case": lines[cur], "kind": left[:2], "sub": sub, "input": left, "cpp": _norm(right)})
    if rc != 0:
        skipped.append(("harness", "exit code %s: %s" % (rc, err.strip()[-300:])))
    rc2, mout, merr = common.sh([driver], inp="\n".join(r["input"] for r in recs) + "\n", timeout=1500)
    ml = mout.splitlines()
    for i, r in enumerate(recs):
        r["model"] = _norm(ml[i]) if i < len(ml) else "<missing>"
    return recs, skipped


def run_ichecks(ctx, n_lg, n_dw, seed):
    lines = _cases(seed, n_lg, n_dw)
    recs, skipped = run_lines(lines, seed)
    differ, reached_fail, msgs = [], [], {}
    nontriv = set()
    for r in recs:
        if r["cpp"] != r["model"]:
            differ.append(r)
        parts = r["cpp"].split(" ; ")
        if r["kind"] == "AB":
            if parts[0] != "ok":
                reached_fail.append((r, "AbacusLegalizer::check() throws at the end of AbacusLegalizer::run: " + parts[0]))
            for m in parts[3:]:
                msgs[m] = msgs.get(m, 0) + 1
            if any(m != "ok" for m in parts[3:]) and len(parts[1].split()) >= 2:
                nontriv.add(r["input"])
        elif r["kind"] == "DP":
            if r["sub"] == -1 and parts[0] != "ok":
                reached_fail.append((r, "DetailedPlacer::check() throws on a state the library reached: " + parts[0]))
            if r["sub"] >= 0:
                msgs[parts[0]] = msgs.get(parts[0], 0) + 1
                if parts[0] != "ok":
                    nontriv.add(r["input"])
        else:
            msgs[parts[0]] = msgs.get(parts[0], 0) + 1
    died = [s for s in skipped if not s[1].startswith("SKIP")]
    return {"lines": lines, "records": recs, "differ": differ, "reached_fail": reached_fail, "skipped": skipped, "died": died,
            "messages": msgs, "nontrivial": nontriv}


def report(ctx, res):
    bad = 0
    for r, why in res["reached_fail"][:3]:
        bad += 1
        prop = "C01" if r["kind"] == "AB" else "C02"
        ctx.violation("%s: an internal consistency test of the library fails on a state the library itself reached -- %s" % (prop, why),
                      {"case": r["case"], "format": "LG / DW case of harness legal / drun (see their headers); replay: checks/internal_checks.py replay_case",
                       "state": r["input"][:600], "cpp": r["cpp"][:300]})
    if not bad:
        for r in res["differ"][:3]:
            bad += 1
            ctx.violation("internal check(): the model's test function and the C++ check() answer differently on the same state",
                          {"broken": "correspondence of coq/InternalChecks.v / InternalChecksDetailed.v (%s, %s)" %
                                     (r["kind"], "reached state" if r["sub"] < 0 else "corrupted copy, kind %d" % r["sub"]),
                           "case": r["case"], "state": r["input"][:600], "cpp": r["cpp"][:300], "model": r["model"][:300]}, found_input=False)
        for c, l in res["died"][:2]:
            bad += 1
            ctx.violation("internal check() harness: no result", {"broken": "harness/ichecks.cpp", "case": c, "output": l[:300]}, found_input=False)
    return bad


def summary(res):
    recs = res["records"]
    kinds = {}
    for r in recs:
        k = r["kind"] + ("" if r["kind"] != "DP" else (":reached" if r["sub"] < 0 else ":corrupted"))
        kinds[k] = kinds.get(k, 0) + 1
    return {"ichecks_evaluations": len(recs), "ichecks_by_kind": kinds, "ichecks_distinct_nontrivial": len(res["nontrivial"]),
            "ichecks_rule": "non-trivial = a corrupted copy on which check() throws (AB: with at least two cells); distinct = distinct state lines",
            "ichecks_messages_on_corrupted_copies": dict(sorted(res["messages"].items(), key=lambda kv: -kv[1])),
            "ichecks_model_vs_impl_differences": len(res["differ"]), "ichecks_reached_states_failing_check": len(res["reached_fail"]),
            "ichecks_skipped_cases": len([s for s in res["skipped"] if s[1].startswith("SKIP")]),
            "ichecks_samples": [r["input"][:300] for r in recs[:1]] + [r["input"][:300] for r in recs if r["kind"] == "DP"][:1],
            "ichecks_distribution": "AB: the LG streams of C01 (general, trivially feasible, seams, magnitude) + corpus; 4 corrupted copies each "
                                    "(cellToX_, cellWidth_, rowToCells_ entry, rows_ minX / maxX / maxY, one vector one entry longer); DP: the DW cases "
                                    "of checks/c02_run.py (whole runs, shift pass included), state before and after run(), 3 corrupted copies each "
                                    "(cellX_, cellWidth_, cellPred_, cellNext_, cellRow_, rowFirstCell_, rowLastCell_, cellOrientation_, cellY_, rows_, "
                                    "cellIndex_ size, cellPos_ / netMinMaxPos_ / value_ / netCells_ of the incremental models); perturbations never make the "
                                    "C++ read out of bounds or loop"}


def replay_case(case, seed=1):
    recs, skipped = run_lines([case], seed)
    rc = 0
    for r in recs:
        same = r["cpp"] == r["model"]
        reached_bad = (r["kind"] == "AB" and not r["cpp"].startswith("ok")) or (r["kind"] == "DP" and r["sub"] < 0 and r["cpp"] != "ok")
        print("%s sub=%d\n  cpp  : %s\n  model: %s\n  %s%s" % (r["kind"], r["sub"], r["cpp"][:400], r["model"][:400],
                                                         "same" if same else "DIFFERENT", "; a REACHED state fails check()" if reached_bad else ""))
        if not same or reached_bad:
            rc = 1
    for c, l in skipped:
        print("skipped:", l[:200])
    return rc


if __name__ == "__main__":
    import sys
    import time

    class _Ctx:
        def __init__(self):
            self.v = []
        def violation(self, what, detail, found_input=True):
            self.v.append((what, detail, found_input))
            print("VIOLATION", what, str(detail)[:600], "" if found_input else "no-failing-input-found")
    seed = int(os.environ.get("VERIF_SEED", "1"))
    t0 = time.time()
    ctx = _Ctx()
    res = run_ichecks(ctx, int(sys.argv[1]) if len(sys.argv) > 1 else 1200, int(sys.argv[2]) if len(sys.argv) > 2 else 250, seed)
    bad = report(ctx, res)
    import json
    print(json.dumps(summary(res), indent=1)[:3000])
    print("problems:", bad, "wall %.1f s" % (time.time() - t0))
    sys.exit(1 if bad else 0)
