"""C05 -- detailed placement never worsens wirelength.  Proof: coq/Properties_C05.v.
Tie: (a) direct drive of DetailedPlacer (harness/dopt.cpp): every bestSwap/bestInsert/bestSwapUpdate call
replayed EXACTLY (decision + value) on Optimiser.v with the implementation's candidates; after every
optimiser pass (swaps, inserts, shifts, reordering, with arbitrary window arguments) value() must equal
the from-scratch wirelength and must not have risen; for every call of runShiftsOnCells of a driven shift op (hook
coloquinte_verif_shift_hook) the network the C++ built is compared with ShiftLp.shift_net on the same state, lemon's
potentials and flows are run through the extracted proved certificate checker ShiftLp.shift_cert_ok
(c05_shift_certificate_optimal) and the positions written are compared with potential(cell) - potential(fixed); (b) Circuit::placeDetailed with a recording
callback: Circuit::hpwl() at successive Detailed callbacks and on return never increases and the final
value does not exceed the legalized one.
Known finding F8 (pin offsets frozen at construction, polarised cells change orientation) is matched
narrowly: the true wirelength rose, a polarised cell changed orientation since legalization, AND the
wirelength recomputed with the orientations frozen as the optimiser sees them did not rise."""
import json
from tools import common
from checks import legal_common as lc
from checks import detailed_common as dc
from checks import dopt_common as do

LEVEL = "proof"


def frozen_values(driver, l, st):
    """frozen-orientation wirelength of the legalized, callback and final states of one run"""
    ctoks, toks = dc.split_dp(l)
    cells, _ = lc.cells_of(ctoks)
    # nets: tokens after the circuit, up to the 9 parameter ints
    ntoks = toks[len(ctoks):-9]
    leg = st["leg"][1]
    frozen = [leg[3 * k + 2] for k in range(len(cells))]
    states = [("leg", leg)] + [("cb%d" % k, c[1]) for k, c in enumerate(st["cbs"])]
    if st["end"] and st["end"][0] == "OK":
        states.append(("end", st["end"][1]))
    inp = ["HP " + do.hp_case(cells, pl, frozen, ntoks) for _, pl in states]
    out, _, _ = common.run_both([driver], None, inp)
    return [(n, int(o)) for (n, _), o in zip(states, out)]


def run(ctx):
    proof_ok, proof = common.proof_status_all(ctx, "C05", ["gaps1", "C05_run", "links"])
    s = ctx.seed
    nd = 3000 if ctx.quick else 250000
    nc = 1200 if ctx.quick else 100000
    dres = do.run_dopt(ctx, nd, seed=s + 40)
    cres = dc.run_detailed(ctx, nc, seed=s + 20, prop="C05")
    driver = common.build_driver()
    ofail = []
    for l, what, why in dres["mono_fail"][:3]:
        ofail.append((l, what, "DetailedPlacer driven directly: " + why))
    known = 0
    for l, what, why, pol_changed, i, name in cres["hpwl_fail"]:
        fz = frozen_values(driver, l, cres["parsed"][i])
        upto = []
        for n, v in fz:
            upto.append(v)
            if n == name:
                break
        frozen_monotone = all(a >= b for a, b in zip(upto, upto[1:]))
        if pol_changed and frozen_monotone and ctx.known_finding("F8"):
            known += 1
            continue
        ofail.append((l, what, "Circuit::placeDetailed: " + why + ("" if frozen_monotone else " (the wirelength with orientations frozen as the optimiser sees them rose too)")))
    # last clause on its own: end <= legalized (not through the chain, whose baseline moves up after an F8-excused rise)
    known_end = 0
    for l, what, why, pol_changed, i, name in cres["hpwl_end_fail"]:
        fz = dict(frozen_values(driver, l, cres["parsed"][i]))
        frozen_end_ok = "end" in fz and fz["end"] <= fz["leg"]
        if pol_changed and frozen_end_ok and ctx.known_finding("F8"):
            known_end += 1
            continue
        ofail.append((l, what, "Circuit::placeDetailed: " + why + ("" if frozen_end_ok else " (with orientations frozen as the optimiser sees them it exceeds it too)")))
    lp = dres["lp"]
    for l, rec, why in lp["value_rose"][:2]:
        ofail.append((l, "SL " + rec[3:][:3000], "DetailedPlacer::runShiftsOnCells driven directly: the x wirelength rose: " + why))
    for l, what, why in cres["crash"][:2] + dres["crash"][:2]:
        ofail.append((l, what, why))
    # composition (DetailedValue.v): Circuit::hpwl of every EXPOSED circuit = value() and monotone inside the F8 scope; the paired
    # model (structure + both net models) against the C++ op by op (same, cached, dopt run)
    from checks import c05_compose as cc
    e1 = cc.run_compose(ctx, nd, seed=s + 40)
    e2 = cc.run_paired(ctx, nd, seed=s + 40)
    # the CLOSED reordering pass (coq/Reorder.v: regions, region choice, orderings, write-back) against runReorderingOnCells, exact
    from checks import c05_reorder as cr
    e3 = cr.run_reorder(ctx, 600 if ctx.quick else 12000, seed=s, extra=(dres["lines"], dres["impl"]))
    for x in e1["mono_fail"][:2]:
        ofail.append((x[0], str(x[1])[:2000], "DetailedPlacer driven directly: Circuit::hpwl of an exposed circuit rose between two exposed states although no polarised cell "
                                               "changed orientation (outside known finding F8): " + str(x[2] if len(x) > 2 else "")))
    for l, i, why in ofail[:3]:
        ctx.violation("/repo violates C05: " + why, {"case": l, "implementation_output": i, "why": why,
                                                     "format": "see harness/detailed.cpp (DP) / harness/dopt.cpp (DO)"})
    broken = []
    if dres["model_mismatch"]:
        broken.append(("correspondence Optimiser.v <-> DetailedPlacer::bestSwap/bestInsert/bestSwapUpdate broken (%d best-move runs differ)" % len(dres["model_mismatch"]),
                       {"broken": "correspondence of coq/Optimiser.v (theorems c05_accepted_move_decreases, c05_history_monotone)",
                        "first_difference": {"case": dres["model_mismatch"][0][0], "implementation": dres["model_mismatch"][0][1], "model": dres["model_mismatch"][0][2]}}))
    if dres["value_fail"]:
        broken.append(("DetailedPlacer::value() is no longer the from-scratch wirelength of the placement (%d states)" % len(dres["value_fail"]),
                       {"broken": "correspondence of coq/Hpwl.v incremental model inside DetailedPlacer (theorem c05_value_is_extent_sum)",
                        "first_difference": {"case": dres["value_fail"][0][0], "detail": dres["value_fail"][0][1]}}))
    if dres["throw_fail"] or dres["check_fail"]:
        x = (dres["throw_fail"] + dres["check_fail"])[0]
        broken.append(("a directly driven optimiser pass throws / fails DetailedPlacer::check (%d)" % (len(dres["throw_fail"]) + len(dres["check_fail"])),
                       {"broken": "direct-drive correspondence (harness/dopt.cpp)", "first_difference": {"case": x[0], "detail": x[1]}}))
    for key, what, thm in (("net_diff", "the min-cost-flow network built by DetailedPlacer::runShiftsOnCells differs from the model ShiftLp.shift_net on the same state",
                            "correspondence of coq/ShiftLp.v shift_net (theorems c05_shift_certificate_optimal, c05_certified_shift_never_worsens)"),
                           ("cert_rejected", "the proved certificate checker ShiftLp.shift_cert_ok rejects lemon's potentials/flows for a shift pass",
                            "certificate of the shift pass (hypothesis shift_cert_ok = true of c05_shift_certificate_optimal / c05_certified_shift_never_worsens)"),
                           ("pos_diff", "the positions written by runShiftsOnCells are not potential(cell) - potential(fixed)",
                            "correspondence of coq/ShiftLp.v positions_of (theorem c05_certified_shift_never_worsens)"),
                           ("state_hypotheses_fail", "the state a shift pass ran on does not satisfy the hypotheses of the theorem (x of a row cell differs from the x model, or a selected cell is not a cell of the x model)",
                            "hypotheses `consistent` / selected cells in range of c05_certified_shift_never_worsens"),
                           ("driver_fail", "a shift-pass record could not be evaluated by the model driver", "shift-LP correspondence (harness/dopt.cpp hook record <-> ocaml/driver_shift.ml)")):
        if lp[key]:
            broken.append((what + " (%d of %d calls)" % (len(lp[key]), lp["records"]),
                           {"broken": thm, "first_difference": {"case": lp[key][0][0], "record": lp[key][0][1][:3000], "detail": lp[key][0][2]}}))
    if e1["value_mismatch"]:
        x = e1["value_mismatch"][0]
        broken.append(("Circuit::hpwl of an exposed circuit differs from DetailedPlacer::value() inside the F8 scope (%d states)" % len(e1["value_mismatch"]),
                       {"broken": "c05_exposed_hpwl_is_value (coupling of the row structure and the two net models, coq/DetailedValue.v)",
                        "first_difference": {"case": x[0], "detail": str(x[1:])[:2000]}}))
    if e2["mismatch"]:
        x = e2["mismatch"][0]
        broken.append(("correspondence DetailedValue.v paired model <-> DetailedPlacer (structure + net models + export after every best-move op) broken (%d runs differ)" % len(e2["mismatch"]),
                       {"broken": "correspondence of coq/DetailedValue.v pbest / init_models / write_back (theorems c05_coupling_*, c05_exposed_wirelength_never_increases)",
                        "first_difference": {"case": x[0], "detail": str(x[1:])[:2000]}}))
    if e3["mismatch"] or e3["driver_fail"]:
        x = (e3["mismatch"] + e3["driver_fail"])[0]
        broken.append(("correspondence Reorder.v closed reordering pass <-> RowReordering / runReorderingOnCells broken (%d runs differ)" % (len(e3["mismatch"]) + len(e3["driver_fail"])),
                       {"broken": "correspondence of coq/Reorder.v run (theorems c05_closed_reordering_is_paired_step, c05_closed_reordering_never_worsens, c05_closed_reordering_returns_minimum)",
                        "first_difference": {"case": x[0], "detail": str(x[1:])[:2000]}}))
    if e1["driver_fail"] or e2["driver_fail"]:
        x = (e1["driver_fail"] + e2["driver_fail"])[0]
        broken.append(("the composition tie could not be evaluated (%d cases)" % (len(e1["driver_fail"]) + len(e2["driver_fail"])),
                       {"broken": "composition tie (checks/c05_compose.py, ocaml/driver_value.ml)", "first_difference": {"case": x[0], "detail": str(x[1:])[:1500]}}))
    if cres["hpwl_unparsable"]:
        x = cres["hpwl_unparsable"][0]
        broken.append(("a wirelength printed by the placeDetailed harness cannot be read (%d states): the monotonicity oracle cannot be evaluated there" % len(cres["hpwl_unparsable"]),
                       {"broken": "harness/detailed.cpp output <-> checks/detailed_common.py parse_state (wirelength oracle of C05)",
                        "first_difference": {"case": x[0], "implementation": x[1], "detail": x[2]}}))
    if not proof_ok:
        broken.append(("proof obligations of Properties_C05.v do not check", {"broken": "Properties_C05.v", "detail": proof}))
    if not ofail:
        for what, rep in broken:
            ctx.violation(what + "; no input on which the wirelength rises found", rep, found_input=False)
    # closed model of DetailedPlacer::run / runSwaps / runReordering (coq/DetailedRun.v): whole passes and whole runs, exact; the value
    # the C++ reports must never rise across a pass
    from checks import c02_run as crun
    runres = crun.run_closed(ctx, 3000 if ctx.quick else 60000, ctx.seed + 90)
    crun.report(ctx, runres, "C05")
    cov = dict(proof)
    cov["closed_run_tie"] = crun.summary(runres)
    cov.update({"trusted_base": common.TRUSTED_BASE + ["lemon NetworkSimplex (shift pass) is not modelled: its answer is certified per call by the proved checker ShiftLp.shift_cert_ok "
                                                        "(needs the hook coloquinte_verif_shift_hook in /repo; without it only 'value after <= value before' is observed)",
                                                        "candidate positions of the best-move calls are taken from the implementation (theorems hold for every candidate list)"],
                "composition_statements_on_exposed_states": cc.summary(e1), "composition_paired_model_tie": cc.summary(e2),
                "closed_reordering_pass_tie": cr.summary(e3),
                "evaluations": dres["runs"] + cres["runs"],
                "distinct_nontrivial": dres["nontrivial"] + cres["hpwl_improved_runs"],
                "rule": "DO: random circuits (C01 generator with nets), legalized, then 1-8 random optimiser ops on DetailedPlacer (best-move calls with random "
                        "candidate lists; runSwaps/runInserts/runShifts/runReordering with window arguments in the range the parameter check and run() allow; "
                        "runShiftsOnCells/runReorderingOnCells on random cell subsets); 4 % of the DO cases have a total wirelength >= 2^31 with every "
                        "coordinate inside |v| < 2^22 (600..1300 two-pin nets to fixed pads at x ~ +-3.9e6): half of them the random circuit, half a designed one "
                        "(1..3 rows of 2..6 legal row-high cells, per cell nL nets to the left pad and nR to the right pad with (nL - nR) / width strictly "
                        "decreasing along the row, so that the legalized order is the unique optimum of every window), and their op list starts with 1..3 "
                        "reordering passes (nbRows 1..2, maxNbCells 2..4) and a runReorderingOnCells on 2..4 consecutive cells (counts in direct_drive); DP: Circuit::placeDetailed with callback, random accepted parameters. "
                        "NET WEIGHTS: 2 circuits in 3 of both streams carry nets of weight 0 (25 % of their nets) and of tiny weight 2^-1..2^-60 / 2^-120..2^-140 "
                        "(10 %) among the weights 0.5..2 (all accepted by addNet); Circuit::hpwl and the from-scratch wirelength count every net (counts: net_weights). "
                        "STRESS STREAMS (checks/stress_streams.py; counts: stress_streams in direct_drive / placeDetailed_runs / closed_run_tie): (a) BIG OFFSET: 10 % more DO / DR / DW cases and 12 % more DP cases are circuits of the same generators TRANSLATED as a whole (rows, all cells) by 2^24 + odd, 2^25 + k (k not a multiple of 4), 2^26 + k, +-(2^30 - small) or -(2^24 + odd) in x and / or y (every coordinate strictly inside +-2^30, so pin coordinates and the sums of two coordinates the code forms fit an int; most of them do not fit a binary32 float); the shift pass is never run there (ops 5 / 7 dropped from DO lines, shiftMaxNbCells < 2 in DW / DP lines: lemon's int costs are limited to |v| < 2^22, an observation); every tie and every statement oracle applies to them unchanged (the models are over Z); (b) WIDE WINDOWS: >= 6 DO, >= 6 DR / DW and >= 6 DP cases per run are designed circuits whose row 0 holds 8..12 row-high cells next to each other (1..3 rows, 1..3 pads, n..2n+2 nets of 2..4 pins), driven with runReordering(nbRows 1..2, maxNbCells 6..8), runReorderingOnCells on 6..8 consecutive cells and Circuit::placeDetailed with reorderingMaxNbCells 6..8 (up to 8! = 40320 orderings per window; the extracted model needs 1-2 s per such window). "
                        "non-trivial = some op changed the placement (DO) / the run improved the wirelength (DP); distinct = distinct case lines",
                "direct_drive": do.summary(dres), "placeDetailed_runs": dc.summary(cres),
                "known_F8_matches": known, "known_F8_matches_end_vs_legalized": known_end,
                "end_vs_legalized": {"checked_runs": cres.get("end_vs_legalized_checked", 0), "exceeding": len(cres["hpwl_end_fail"]),
                                     "note": "judged separately from the monotone chain; a run exceeding the legalized value is a violation unless it matches F8 narrowly "
                                             "(a polarised cell changed orientation AND the frozen-orientation wirelength of the returned placement does not exceed the legalized one)"},
                "wirelength_values_unparsable": len(cres["hpwl_unparsable"]),
                "shift_lp_certificates": do.lp_summary(lp),
                "samples": [dres["lines"][0][:600], cres["lines"][0][:600]],
                "model_vs_impl_differences": len(dres["model_mismatch"]) + len(dres["value_fail"]) + len(lp["net_diff"]) + len(lp["cert_rejected"]) + len(lp["pos_diff"]) + len(e3["mismatch"]),
                "impl_outputs_violating_statement": len(ofail)})
    return ctx.finish(LEVEL, cov, ["the shift pass is certified per call (proved LP certificate checker on lemon's potentials and flows, %d calls this run); the network simplex itself is not modelled"
                                   % lp["records"] if lp["records"] else
                                   "the shift pass is only observed in this run (value after <= value before): /repo does not carry the hook coloquinte_verif_shift_hook, the LP certificate was not exercised",
                                   "model tied to the code by exact comparison on the cases of this run",
                                   "the exposed-wirelength theorems hold for histories of paired steps under orient_frozen at the compared states (a hypothesis on the reached states; discharged from the input only for circuits without polarised cells), int_pins / pins_fit (pin coordinates only: no per-net extent or cost bound is stated) and shift_cert_ok for shift steps; DetailedPlacer::run and the pass loops are not modelled; shift passes inside Circuit::placeDetailed carry no certificate"])


def replay(ctx, path):
    r = json.load(open(path))["replay"]
    case = r.get("case") or r["first_difference"]["case"]
    if case.startswith(("DR", "DW")):
        from checks import c02_run as crun
        res = crun.run_closed(ctx, 0, 0, lines=[case])
        print("case:", case); print(crun.summary(res))
        bad = res["mismatch"] + res["driver_fail"] + res["check_fail"] + res["crash"] + res["overflow_throws"] + res["value_increases"]
        for x in bad[:3]:
            print("  ", " | ".join(str(y)[:400] for y in x[1:]))
        return 1 if bad else 0
    if case.startswith("DO"):
        harness = common.build_harness("dopt")
    else:
        harness = common.build_harness("detailed")
    out, _, _ = common.run_both([harness, "run"], None, [case])
    print("case:", case)
    print("impl:", out[0])
    if case.startswith("DP"):
        hp = [int(x.split(";")[2]) for x in out[0].split(" || ") if x.count(";") >= 2 and x.split(";")[2].strip().lstrip("-").isdigit()]
        print("hpwl sequence (legalized, callbacks, final):", hp)
        return 1 if any(b > a for a, b in zip(hp, hp[1:])) else 0
    segs = out[0].split(" / ")
    vals = [int(segs[0].split(";")[0].split()[1])] if segs[0].startswith("INIT") else []
    vals += [int(x.split(";")[-3]) for x in segs[1:] if x.count(";") >= 3 and not x.startswith("L ")]
    print("value sequence:", vals)
    recs = ["SL " + x[2:] for x in segs[1:] if x.startswith("L ")]
    bad = 0
    if recs:
        sout, _, _ = common.run_both([common.build_driver("shift")], None, recs)
        for o in sout:
            print("shift LP:", o)
            if not o.startswith("net=1 sup=1 cert=1 dual=1 flow=1 cons=1 range=1 pos=1"):
                bad = 1
    return 1 if bad or any(b > a for a, b in zip(vals, vals[1:])) else 0
