"""C12 -- single-row legalizer.  Proof: coq/Properties_C12.v.  Tie: exact diff of
RowLegalizer (compiled from /repo) against the extracted model on exhaustive
small-bounds + random histories; the proved certificate checker (cert_ok) is
run on the C++ positions."""
import os
import subprocess
from multiprocessing import Pool

from tools import common

LEVEL = "proof"


def _strip_reads(line):
    """(line without the kind-2 ops, [number of insertions before each read], {p: model case line of the first p insertions})"""
    v = line.split()
    n = int(v[3])
    ops = [(v[4 + 3 * k], v[5 + 3 * k], v[6 + 3 * k]) for k in range(n)]
    if not any(o[0] == "2" for o in ops):
        return line, [], {}
    keep, ra, pushes = [], [], []
    for o in ops:
        if o[0] == "2":
            ra.append(len(pushes))
        else:
            keep.append(o)
            if o[0] == "0":
                pushes.append(o)
    sl = "RL %s %s %d %s" % (v[1], v[2], len(keep), " ".join(" ".join(o) for o in keep))
    prefs = {p: "RL %s %s %d %s" % (v[1], v[2], p, " ".join(" ".join(o) for o in pushes[:p])) for p in set(ra) if 0 < p < len(pushes)}
    return sl.strip(), ra, prefs


def _chunk_worker(args):
    harness, driver, full_lines = args
    inp = "\n".join(full_lines) + "\n"
    pi = subprocess.run([harness, "run"], input=inp, capture_output=True, text=True, timeout=3000)
    # reads of the placement (kind 2) are removed for the model, which gets in addition one line per distinct read point:
    # the insertions made so far (queries are pure in the model: c12_query_pure), i.e. the model's placement of that prefix
    lines, read_at, minp, pref_idx = [], [], [], []
    for fl in full_lines:
        sl, ra, prefs = _strip_reads(fl)
        lines.append(sl)
        read_at.append(ra)
        pref_idx.append(prefs)
    minp = list(lines)
    for prefs in pref_idx:
        for p_ in sorted(prefs):
            minp.append(prefs[p_])
            prefs[p_] = len(minp) - 1   # from now on: index of the model's answer for that prefix
    pm = subprocess.run([driver], input="\n".join(minp) + "\n", capture_output=True, text=True, timeout=3000)
    impl = pi.stdout.split("\n")
    model = pm.stdout.split("\n")
    st = {"n": len(lines), "mismatch": [], "oracle_fail": [], "unchecked": 0, "nontrivial": set(),
          "clamped": 0, "pushed_left": 0, "queries": 0, "pushes": 0, "incomplete": [], "harness_rc": pi.returncode,
          "passed_gt32": 0, "passed_gt64": 0, "passed_gt128": 0, "maxpassed": 0, "maxcells": 0, "repeated_queries": 0,
          "reads": 0, "double_reads": 0, "read_mismatch": 0}
    rlc = []
    rlc_idx = []
    parsed = {}
    for i, line in enumerate(lines):
        fl = full_lines[i]
        il = impl[i] if i < len(impl) else "<missing>"
        ml = model[i] if i < len(model) else "<missing>"
        mparts = ml.rsplit("|", 1)
        mres = mparts[0].strip() if len(mparts) == 2 else ml
        mchk = mparts[1].strip() if len(mparts) == 2 else "?"
        # the harness appends " | maxpassed badop" (its own reading of the C++ object's state around each getCost)
        iparts = [x.strip() for x in il.split("|")]
        ires = " | ".join(iparts[:2]) if len(iparts) >= 2 else il.strip()
        if " ".join(ires.split()) != " ".join(mres.split()):
            if len(st["mismatch"]) < 20:
                st["mismatch"].append((fl, il, mres))
            else:
                st["mismatch"].append(None)
        if mchk != "1":
            st["incomplete"].append(fl) if len(st["incomplete"]) < 5 else None
        # --- oracle on the implementation's own output
        v = line.split()[1:]
        b, e, n = int(v[0]), int(v[1]), int(v[2])
        ops = [(int(v[3 + 3 * k]), int(v[4 + 3 * k]), int(v[5 + 3 * k])) for k in range(n)]
        if "|" not in il:
            st["oracle_fail"].append((fl, il, "did not return a placement (abort/throw/crash)"))
            continue
        try:
            pls, cs = iparts[0], iparts[1]
            pl = [int(x) for x in pls.split()]
            costs = [int(x) for x in cs.split()]
            maxpassed, badop = [int(x) for x in iparts[2].split()] if len(iparts) > 2 else (0, -1)
        except ValueError:
            st["oracle_fail"].append((fl, il, "unparsable output"))
            continue
        pushes = [(w, t) for (k, w, t) in ops if k == 0]
        st["pushes"] += len(pushes)
        st["queries"] += n - len(pushes)
        if len(pl) != len(pushes) or len(costs) != n:
            st["oracle_fail"].append((fl, il, "wrong number of positions/costs"))
            continue
        tot = sum(w * abs(x - t) for (w, t), x in zip(pushes, pl))
        psum = sum(c for (k, w, t), c in zip(ops, costs) if k == 0)
        if psum != tot:
            st["oracle_fail"].append((fl, il, "reported push costs sum to %d, displacement of the placement is %d" % (psum, tot)))
            continue
        bad = None
        if badop >= 0:
            bad = "getCost (op %d: width %d target %d) changed the state of the legalizer (queue of bounds / cells differ before and after)" % (
                badop, ops[badop][1], ops[badop][2])
        st["maxpassed"] = max(st["maxpassed"], maxpassed)
        st["maxcells"] = max(st["maxcells"], len(pushes))
        st["passed_gt32"] += maxpassed > 32
        st["passed_gt64"] += maxpassed > 64
        st["passed_gt128"] += maxpassed > 128
        for k in range(n - 1):
            if ops[k][0] == 1 and ops[k + 1] == ops[k]:
                st["repeated_queries"] += 1
                if costs[k] != costs[k + 1] and not bad:
                    bad = "the same prediction asked twice in a row gives %d then %d (ops %d, %d)" % (costs[k], costs[k + 1], k, k + 1)
        # a prediction repeated later with no insertion in between must not change either
        last = {}
        for k in range(n):
            if ops[k][0] == 0:
                last = {}
            elif ops[k] in last and last[ops[k]] != costs[k] and not bad:
                bad = "the same prediction, no insertion in between, gives %d then %d (op %d)" % (last[ops[k]], costs[k], k)
            else:
                last[ops[k]] = costs[k]
        for k in range(n - 1):
            if ops[k][0] == 1 and ops[k + 1][0] == 0 and ops[k][1:] == ops[k + 1][1:] and costs[k] != costs[k + 1] and not bad:
                bad = "predicted cost %d differs from performed cost %d (op %d)" % (costs[k], costs[k + 1], k)
        # --- reads of the placement between the insertions: each one against the model's placement of the same prefix,
        #     and (below) through the proved certificate checker as the placement of the cells inserted so far
        ra = read_at[i]
        rds = []
        if ra:
            try:
                rds = [[int(x) for x in r.split()[1:]] for r in iparts[3].split(";")] if len(iparts) > 3 else []
            except ValueError:
                rds = []
            if len(rds) != len(ra) and not bad:
                bad = "%d reads of getPlacement() asked, %d answered" % (len(ra), len(rds))
            st["reads"] += len(rds)
            for j, (p_, r) in enumerate(zip(ra, rds)):
                if j and ra[j - 1] == p_:
                    st["double_reads"] += 1
                if 0 < p_ < len(pushes):
                    mi = pref_idx[i][p_]
                    mpl = model[mi].split("|")[0].split() if mi < len(model) else ["<missing>"]
                else:
                    mpl = [] if p_ == 0 else mres.split("|")[0].split()
                if [str(x) for x in r] != mpl:
                    st["read_mismatch"] += 1
                    if len(st["mismatch"]) < 20:
                        st["mismatch"].append((fl, il, "read %d (after %d insertions): model placement %s" % (j, p_, " ".join(mpl))))
                    else:
                        st["mismatch"].append(None)
                if len(r) != p_ and not bad:
                    bad = "getPlacement() read after %d insertions returns %d positions" % (p_, len(r))
        if bad:
            st["oracle_fail"].append((fl, il, bad))
            continue
        for j, (p_, r) in enumerate(zip(ra, rds)):
            if p_ > 0:
                rlc.append("RLC %d %d %d %s" % (b, e, p_, " ".join("%d %d %d" % (w, t, x) for (w, t), x in zip(pushes[:p_], r))))
                rlc_idx.append((i, "getPlacement() read %d of the history (after %d insertions, before the next push) returns %s: the proved "
                                   "certificate checker rejects it as the placement of the cells inserted so far (overlap / out of order / "
                                   "outside the segment / not optimal)" % (j, p_, r)))
        if tot > 0:
            st["nontrivial"].add(fl)
        if any(x + w == e and t > x for (w, t), x in zip(pushes, pl)):
            st["clamped"] += 1
        if any(x < t for (w, t), x in zip(pushes, pl)):
            st["pushed_left"] += 1
        rlc.append("RLC %d %d %d %s" % (b, e, len(pl), " ".join("%d %d %d" % (w, t, x) for (w, t), x in zip(pushes, pl))))
        rlc_idx.append((i, "proved certificate checker rejects the C++ positions: illegal or not optimal"))
    if rlc:
        pc = subprocess.run([driver], input="\n".join(rlc) + "\n", capture_output=True, text=True, timeout=3000)
        out = pc.stdout.split("\n")
        for j, (i, why) in enumerate(rlc_idx):
            if j >= len(out) or out[j].strip() != "1":
                st["oracle_fail"].append((full_lines[i], impl[i], why))
    st["nontrivial"] = len(st["nontrivial"])
    st["oracle_fail"] = st["oracle_fail"][:20]
    return st


def gen_cases(ctx, harness):
    if ctx.quick:
        enum = ["5", "3", "3", "2"]
        nrand = 30000
        nlong = 1200
    else:
        nlong = 40000
        enum = ["7", "4", "3", "3"]
        nrand = 1500000
    r1 = subprocess.run([harness, "gen", "enum"] + enum, capture_output=True, text=True, timeout=600)
    lines = r1.stdout.strip().split("\n")
    nenum = len(lines)
    seeds = [ctx.seed] if ctx.quick else [ctx.seed, ctx.seed + 1000, ctx.seed + 2000]
    for s in seeds:
        r2 = subprocess.run([harness, "gen", "rand", str(s), str(nrand // len(seeds))], capture_output=True, text=True, timeout=600)
        lines += r2.stdout.strip().split("\n")
    for s in seeds:
        rz = subprocess.run([harness, "gen", "zerow", str(s + 31), str(max(2000, nrand // (10 * len(seeds))))], capture_output=True, text=True, timeout=600)
        lines += rz.stdout.strip().split("\n")
    nlong_got = 0
    for s in seeds:
        r3 = subprocess.run([harness, "gen", "long", str(s + 77), str(nlong // len(seeds))], capture_output=True, text=True, timeout=600)
        ll = r3.stdout.strip().split("\n")
        lines += ll
        nlong_got += len(ll)
    return lines, nenum, enum, nlong_got


def corpus_lines():
    p = os.path.join(common.ROOT, "corpus", "C12", "cases.txt")
    if os.path.exists(p):
        return [l.strip() for l in open(p) if l.startswith("RL ")]
    return []


def run_cases(ctx, harness, driver, lines):
    # strided chunks: the long-row cases (heavier on the model side) are spread over all workers
    nchunks = max(1, min(common.NCPU, len(lines) // 2000 + 1))
    chunks = [(harness, driver, lines[i::nchunks]) for i in range(nchunks)]
    with Pool(nchunks) as p:
        return p.map(_chunk_worker, chunks)


def vm_crosscheck(ctx, driver, lines):
    """evaluate a fixed subset inside Coq (vm_compute) and compare with the extracted code"""
    sub = [_strip_reads(l)[0] for l in lines[:: max(1, len(lines) // 150)][:150]]

    def gal(line):
        v = line.split()[1:]
        n = int(v[2])
        ops = []
        for k in range(n):
            kk, w, t = int(v[3 + 3 * k]), int(v[4 + 3 * k]), int(v[5 + 3 * k])
            ops.append("%s (%d) (%d)" % ("Push" if kk == 0 else "Query", w, t))
        return "run (%s) (%s) [%s]" % (v[0], v[1], "; ".join(ops))
    res = common.vm_eval("C12", "From Coq Require Import List ZArith. Import ListNotations. Require Import CV.RowLeg. Local Open Scope Z_scope.",
                         [gal(l) for l in sub])
    if res is None:
        return 0, ["vm_compute evaluation failed"]
    pm = subprocess.run([driver], input="\n".join(sub) + "\n", capture_output=True, text=True)
    bad = []
    for l, r, m in zip(sub, res, pm.stdout.split("\n")):
        # r looks like "([0; 2; 3], [0; 8; 8; 7])"
        rr = r.replace("(", " ").replace(")", " ").replace("[", " ").replace("]", " | ").replace(";", " ").replace(",", " ")
        rr = " ".join(rr.split()).rstrip("|").strip()
        mm = " ".join(m.rsplit("|", 1)[0].split())
        if " ".join(rr.split()) != mm:
            bad.append("vm_compute %r vs extracted %r on %s" % (rr, mm, l))
    return len(sub), bad


# ---- histories with clear() and lastAvailablePos() (coq/ReviewGaps2C12Model.v, Properties_gaps2_C12.v) ----
def clear_suffix(line):
    """the operations after the last clear() of an RC line, as an RC line of a fresh object (c12_history_state)"""
    f = line.split()
    b, e, n = f[1], f[2], int(f[3])
    ops = [f[4 + 3 * i: 7 + 3 * i] for i in range(n)]
    last = max([i for i, o in enumerate(ops) if o[0] == "2"], default=-1)
    tail = ops[last + 1:]
    return "RC %s %s %d%s" % (b, e, len(tail), "".join(" " + " ".join(o) for o in tail)), sum(1 for o in ops[:last + 1] if o[0] in ("1", "3", "0"))


def run_clear_tie(ctx):
    h = common.build_harness("rowleg_clear")
    d = common.build_driver("gaps2")
    count = 6000 if ctx.quick else 120000
    lines = common.harness_gen(h, ["rand", ctx.seed, count])
    lines += ["RC 0 6 8 0 2 5 3 0 0 2 0 0 3 0 0 0 2 5 1 1 -3 0 1 -3 3 0 0"]   # the Example c12_history_nonvacuous
    impl, model, errs = common.run_both([h, "run"], [d], lines)
    diffs = [(l, a, b) for l, a, b in zip(lines, impl, model) if a != b]
    # statement-level oracle (c12_clear_forgets / c12_history_state): an object with a history ending in a clear() behaves as a
    # fresh object on the operations that follow -- compared implementation against implementation
    withc = [l for l in lines if " 2 0 0" in l]
    suff = [clear_suffix(l)[0] for l in withc]
    simpl = common.run_both([h, "run"], None, suff)[0]
    byline = dict(zip(lines, impl))
    forget = []
    for l, sl, so in zip(withc, suff, simpl):
        a = byline[l]
        apl, _, aouts = a.partition(" | ")
        spl, _, souts = so.partition(" | ")
        # the final placement is the whole-object observation; the outputs of the suffix are the last ones of the history
        st, at = souts.split(), aouts.split()
        if apl.strip() != spl.strip() or (st and at[-len(st):] != st):
            forget.append((l, a, sl, so))
    info = {"histories": len(lines), "distinct": len(set(lines)), "with_clear": len(withc),
            "with_lastAvailablePos": sum(1 for a in impl if "L " in a), "lastAvailablePos_on_empty_legalizer": sum(1 for a in impl if "L none" in a),
            "model_differences": len(diffs), "history_remembered_after_clear": len(forget), "harness_errors": len(errs or [])}
    return info, diffs, forget


def run(ctx):
    proof_ok, proof = common.proof_status_all(ctx, "C12", ["gaps2_C12"])
    harness = common.build_harness("rowleg")
    driver = common.build_driver()
    lines, nenum, enum, nlong = gen_cases(ctx, harness)
    lines = corpus_lines() + lines
    stats = run_cases(ctx, harness, driver, lines)
    total = sum(s["n"] for s in stats)
    mism = [m for s in stats for m in s["mismatch"]]
    ofail = [m for s in stats for m in s["oracle_fail"]]
    incompl = [m for s in stats for m in s["incomplete"]]
    nvm, vmbad = vm_crosscheck(ctx, driver, lines)
    cinfo, cdiffs, cforget = run_clear_tie(ctx)
    for l, a, sl, so in cforget[:3]:
        ctx.violation("RowLegalizer violates C12 on a history with clear(): the cells inserted after clear() are not placed / priced as on a "
                      "fresh legalizer of the same segment (the placement is not the optimum for the cells inserted since the clear)",
                      {"case": l, "format": "RC b e n (k w t)*, k=0 push 1 getCost 2 clear() 3 lastAvailablePos()", "implementation_output": a,
                       "same_operations_on_a_fresh_object": sl, "fresh_object_output": so, "how": "./check C12 --replay <this file>"})
    if cdiffs and not cforget:
        l, a, b = cdiffs[0]
        ctx.violation("correspondence ReviewGaps2C12Model.v <-> RowLegalizer (histories with clear() / lastAvailablePos()) no longer holds "
                      "(%d of %d histories differ), but no history violating C12 was found" % (len(cdiffs), cinfo["histories"]),
                      {"broken": "correspondence of coq/ReviewGaps2C12Model.v (theorems of Properties_gaps2_C12.v) with RowLegalizer",
                       "first_difference": {"case": l, "implementation": a, "model": b}}, found_input=False)

    for line, il, why in ofail[:3]:
        ctx.violation("RowLegalizer violates C12 on a concrete history: %s" % why,
                      {"case": line, "format": "RL begin end n (kind width target)*, kind 0=push 1=getCost 2=read getPlacement() (width=target=0)",
                       "implementation_output": il, "why": why,
                       "how": "./check C12 --replay <this file>"})
    if not ofail:
        if mism:
            m = next(x for x in mism if x)
            ctx.violation("correspondence RowLeg.v <-> row_legalizer.cpp no longer holds (%d of %d cases differ), "
                          "but no history violating C12 was found" % (len(mism), total),
                          {"broken": "correspondence of coq/RowLeg.v (theorems of Properties_C12.v) with RowLegalizer",
                           "first_difference": {"case": m[0], "implementation": m[1], "model": m[2]}}, found_input=False)
        if not proof_ok:
            ctx.violation("proof obligations of Properties_C12.v do not check", {"broken": "Properties_C12.v", "detail": proof}, found_input=False)
        if incompl and not mism:
            ctx.violation("checked_run (proved certificate) does not certify the model's own result",
                          {"broken": "completeness of checked_run on the explored cases", "case": incompl[0]}, found_input=False)
        if vmbad:
            ctx.violation("extracted model disagrees with vm_compute", {"broken": "extraction cross-check", "detail": vmbad[:3]}, found_input=False)

    cov = dict(proof)
    cov.update({
        "trusted_base": common.TRUSTED_BASE,
        "evaluations": total,
        "distinct_nontrivial": sum(s["nontrivial"] for s in stats),
        "rule": "exhaustive: all histories with segment [b,b+len), b in {0,1}, len<=%s, <=%s cells of width 1..%s that fit, targets in "
                "[b-%s, e+%s], each push preceded by the query predicting it; random: %d histories (seeded splitmix64) with "
                "coordinates up to 2^22, interleaved foreign queries, targets inside/near/at both limits/far; long rows: %d histories of "
                "31..200 insertions in one segment (sizes 31-34, 63-65, 127-130, 200 and uniform 50..200; one cluster per cell / all targets "
                "in a small window / random / sorted with ties; widths 1..3 x scale 1 or 2^2..2^10) with probes (getCost not followed by the "
                "insertion, asked 2-4 times identically, from the far left, the far right, as wide as the free space) after 33/65/129 "
                "insertions and at the end, a different cell inserted after the probes, the probes asked again; the harness compares the "
                "object's state (cells + multiset of bounds) before and after EVERY getCost and counts the bounds each one passes. READS of "
                "getPlacement() are interleaved with the insertions in all three streams (exhaustive: after every insertion, twice after the "
                "first, for odd codes before the first and for 1 code in 3 between the prediction and the insertion; random: after 40%% of the "
                "insertions, 30%% of those twice in a row, and after some predictions; long rows: after 3%% of the insertions and around the "
                "late small cell / before the probed cell is inserted); every read is compared with the extracted model's placement of the same "
                "prefix of insertions and checked by the proved certificate checker as the placement of the cells inserted so far. non-trivial = some cell "
                "is displaced from its target (cost>0); distinct = distinct case lines" % (enum[0], enum[1], enum[2], enum[3], enum[3], total - nenum - nlong, nlong),
        "exhaustive": True,
        "exhaustive_cases": nenum,
        "random_cases": total - nenum - nlong,
        "long_row_cases": nlong,
        "samples": lines[:2] + lines[nenum + 5:nenum + 8] + [lines[-1][:400] + " ..."],
        "distribution": {"pushes": sum(s["pushes"] for s in stats), "queries": sum(s["queries"] for s in stats),
                         "cases_with_cell_clamped_at_right_limit": sum(s["clamped"] for s in stats),
                         "cases_with_cell_pushed_left_of_target": sum(s["pushed_left"] for s in stats),
                         "cases_with_a_getCost_passing_more_than_32_bounds": sum(s["passed_gt32"] for s in stats),
                         "cases_with_a_getCost_passing_more_than_64_bounds": sum(s["passed_gt64"] for s in stats),
                         "cases_with_a_getCost_passing_more_than_128_bounds": sum(s["passed_gt128"] for s in stats),
                         "max_bounds_passed_by_one_getCost": max(s["maxpassed"] for s in stats),
                         "max_cells_in_one_segment": max(s["maxcells"] for s in stats),
                         "identical_predictions_asked_twice_in_a_row": sum(s["repeated_queries"] for s in stats),
                         "reads_of_getPlacement_between_insertions": sum(s["reads"] for s in stats),
                         "of_which_second_of_two_consecutive_reads": sum(s["double_reads"] for s in stats),
                         "reads_differing_from_the_model_prefix_placement": sum(s["read_mismatch"] for s in stats)},
        "model_vs_impl_differences": len(mism),
        "impl_outputs_rejected_by_proved_checker_or_cost_oracle": len(ofail),
        "vm_compute_crosschecked_cases": nvm,
        "histories_with_clear_and_lastAvailablePos": cinfo,
        "clauses": {"legality": "proved for all histories (c12_placement_legal)",
                    "query purity / prediction": "proved for all reachable states (c12_query_pure)",
                    "optimality + cost sum": "proved for all segments and all histories of fitting insertions and queries (c12_optimal_unbounded, "
                                             "c12_costs_sum_to_minimum_unbounded); additionally the certificate checker is proved sound for all inputs and run on every "
                                             "C++ output of this run (checked_run, cert_ok), and c12_optimal_bounded cross-checks by computation"},
    })
    return ctx.finish(LEVEL, cov, [
        "model RowLeg.v is hand-written; tied to row_legalizer.cpp by exact comparison on the cases of this run",
        "optimality of the cascading-descent algorithm is proved without size bound (c12_optimal_unbounded) for the model over ideal Z; the proved checker is additionally run on every C++ result",
        "the exhaustive stream enumerates the property's own small bounds (7,4,3,3) in the THOROUGH tier only; the quick tier enumerates (5,3,3,2)",
        "RowLegalizer::clear() and lastAvailablePos() are modelled (coq/ReviewGaps2C12Model.v), proved (Properties_gaps2_C12.v) and tied (histories with clear(), exact; 'after clear() the object behaves as a fresh one' judged on the C++ alone)",
        "machine-integer overflow is outside this model (ideal Z); see C07"])


def replay(ctx, path):
    import json
    r = json.load(open(path))
    case = r["replay"].get("case") or r["replay"].get("first_difference", {}).get("case")
    if case.startswith("RC"):
        h = common.build_harness("rowleg_clear"); d = common.build_driver("gaps2")
        sl, _ = clear_suffix(case)
        impl, model, _ = common.run_both([h, "run"], [d], [case, sl])
        print("case :", case); print("impl :", impl[0]); print("model:", model[0])
        print("after the last clear(), on a fresh object:", sl); print("impl :", impl[1])
        apl, _, aouts = impl[0].partition(" | "); spl, _, souts = impl[1].partition(" | ")
        st, at = souts.split(), aouts.split()
        forgot = apl.strip() == spl.strip() and (not st or at[-len(st):] == st)
        return 0 if (impl[0] == model[0] and forgot) else 1
    harness = common.build_harness("rowleg")
    driver = common.build_driver()
    st = _chunk_worker((harness, driver, [case]))
    print("case:", case)
    print("mismatch:", st["mismatch"])
    print("oracle:", st["oracle_fail"])
    return 1 if (st["mismatch"] or st["oracle_fail"]) else 0
