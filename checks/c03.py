"""C03 -- placement only moves movable cells; everything else is untouched.
PROVED (coq/Properties_C03.v over coq/Api.v): the three export functions -- the only code through which a stage writes
to the Circuit -- keep the frame for ALL internal vectors, hence any sequence of exports cut anywhere; the same through
the modelled control flow of the three entry points for every oracle and outcome (true by the shape of the stage model,
whose stages can only export: it says nothing about the real algorithms); global export keeps orientations;
frame_okb decides the specification.  frame_ok excludes hasCellSizeUpdate_, hasNetUpdate_ and isInUse_ explicitly.
TRANSLATOR-DERIVED TABLE + RULE: tools/circuit_access.py lists the uses of a mutable Circuit it recognises in clang's AST,
c03_algorithms_write_only_through_exports evaluates the rule on that table; escapes of other forms are not seen.
Tie: (1) the three real export functions (GlobalPlacer::exportPlacement, Legalizer::exportPlacement,
DetailedPlacement::exportPlacement, reached with #define private public) are run on random internal vectors and compared
EXACTLY with the extracted models; (2) VALIDATED, not proved: frame_okb / orient_keptb are evaluated on the real Circuit
before vs. at every callback and after every stage run (global, legalize, detailed and compositions; with/without
callbacks; runs ending in exceptions thrown by callbacks, by infeasible legalization, by rejected parameters): this is
what would catch a write to the circuit from inside an algorithm, which the export theorems cannot see."""
import json
import os
from tools import common, circuit_access

GEN = os.path.join(common.COQ, "CircuitAccess_gen.v")
STUB = """(* GENERATED: tools/circuit_access.py could NOT translate the tree under check: %s *)
From Coq Require Import List String ZArith.
Import ListNotations.
Require Import CV.CircuitAccess.
Local Open Scope string_scope.
Definition circuit_uses : list cuse := [ mkU "translator" UUnknown "TRANSLATOR FAILED" 0 ].
Definition circuit_methods : list cmethod := [ mkM "TRANSLATOR FAILED" true false 1 [("rows_", 0)] [] ].
"""
PLACEMENT = ("cellX_", "cellY_", "cellOrientation_")
FLAGS = ("hasCellSizeUpdate_", "hasNetUpdate_")
MODELLED = {("GlobalPlacer::exportPlacement", "cellX_"), ("GlobalPlacer::exportPlacement", "cellY_"),
            ("Legalizer::exportPlacement", "cellX_"), ("Legalizer::exportPlacement", "cellY_"), ("Legalizer::exportPlacement", "cellOrientation_"),
            ("DetailedPlacement::exportPlacement", "cellX_"), ("DetailedPlacement::exportPlacement", "cellY_"),
            ("DetailedPlacement::exportPlacement", "cellOrientation_")}


DEAD_WRITERS = ("NetModel::exportPlacementX", "NetModel::exportPlacementY", "IncrNetModel::exportPlacementX", "IncrNetModel::exportPlacementY")


def regenerate_access():
    """route-1 translator: table of the uses of a mutable Circuit that the translator recognises in the algorithms, before the proof build"""
    try:
        uses, nfun, nsrc = circuit_access.translate(common.REPO)
        circuit_access.write_gen(GEN, circuit_access.coq_text(uses, nfun, nsrc))
        regenerate_access.methods = list(circuit_access.translate.methods)
        return uses, nfun, None
    except circuit_access.TranslateError as e:
        circuit_access.write_gen(GEN, STUB % str(e).replace("*)", "* )")[:1500])
        return None, 0, str(e)


def offending_uses(uses):
    """independent replica of CircuitAccess.circuit_uses_okb, used only to NAME what the Coq theorem rejects"""
    def cls(f):
        return f.split("::")[0] if "::" in f else ""
    def reach(start):
        seen = list(start)
        changed = True
        while changed:
            changed = False
            for g in list(seen):
                for fn, kind, name, line in uses:
                    if fn != g:
                        continue
                    nxt = [name] if kind == "UPass" else [u[0] for u in uses if cls(u[0]) == cls(g)] if kind == "UStore" else []
                    for h in nxt:
                        if h not in seen:
                            seen.append(h); changed = True
        return seen
    r_all = reach(["GlobalPlacer::place", "DetailedPlacer::place", "DetailedPlacer::legalize"])
    r_glob = reach(["GlobalPlacer::place"])
    bad = []
    for fn, kind, name, line in uses:
        if kind == "UPass" and not any(u[0] == name for u in uses):
            bad.append("%s line %d: hands the mutable circuit to %s, a function the table does not describe" % (fn, line, name))
        if kind in ("UOther", "UCallNC", "UUnknown"):
            bad.append("%s line %d: %s %s (not a read, a hand-over or a modelled write)" % (fn, line, kind, name))
        elif kind == "UWrite" and name not in FLAGS:
            if name not in PLACEMENT:
                bad.append("%s line %d: writes Circuit::%s, which no placement stage may change" % (fn, line, name))
            elif (fn, name) not in MODELLED and (fn in r_all or fn not in DEAD_WRITERS):
                bad.append("%s line %d: writes Circuit::%s outside the three modelled export functions (%s)" % (fn, line, name, "reachable from a stage entry point" if fn in r_all else "not one of the known unreachable writers"))
            elif name == "cellOrientation_" and fn in r_glob:
                bad.append("%s line %d: writes an orientation and is reachable from GlobalPlacer::place" % (fn, line))
    for fn, f in sorted(MODELLED):
        if fn not in r_all or not any(u[0] == fn and u[1] == "UWrite" and u[2] == f for u in uses):
            bad.append("modelled write %s -> %s is not in the table / not reachable: the model of Api.v no longer describes the source" % (fn, f))
    return bad

LEVEL = "proof"
EX_FORMAT = "EX kind(0 global,1 legalizer,2 detailed) nrows (minX maxX minY maxY orient)* ncells (x y w h orient pol fixed obs)* m entries (global: x2 y2 in half units; legalizer: placed x y o; detailed: cellIndex x y o)"
FR_FORMAT = "FR nrows (minX maxX minY maxY orient)* ncells (x y w h orient pol fixed obs)* nnets (npins (cell xo yo)* w2)* nruns (stage hascb pvar effort throwk)*  [pvar 0 valid capped, 1-6 invalid, 7 library defaults, 8-17 accepted boundary values (nbPasses 0, maxNbSteps 1, windows 1, ...: mkParams in harness/api.cpp)]"
STAGE = {0: "global", 1: "legalize", 2: "detailed"}


def ex_tail(line):
    """tokens after the circuit of an EX case"""
    t = line.split()
    nr = int(t[2]); p = 3 + 5 * nr
    nc = int(t[p]); p += 1 + 8 * nc
    return t[1], t[p:], nc, [int(t[3 + 5 * nr + 1 + 8 * i + 6]) for i in range(nc)]


def run_ex(ctx, harness, driver, lines):
    impl, _, _ = common.run_both([harness, "run"], None, lines, chunk=2000)
    minp, finp, idx = [], [], []
    for i, (l, r) in enumerate(zip(lines, impl)):
        if " # " not in r:
            continue
        before, after = r.split(" # ")
        kind, tail, _, _ = ex_tail(l)
        minp.append("EX %s %s %s" % (kind, before, " ".join(tail)))
        finp.append("FK %s %s" % (before, " ".join(after.split()[:-1])))
        idx.append(i)
    mout, _, _ = common.run_both([driver], None, minp, chunk=2000) if minp else ([], None, None)
    fout, _, _ = common.run_both([driver], None, finp, chunk=2000) if finp else ([], None, None)
    mism, ofail, nontriv, kinds = [], [], set(), {}
    crashed = [(lines[i], impl[i][:200]) for i in range(len(lines)) if " # " not in impl[i]]
    for i, m, f in zip(idx, mout, fout):
        l = lines[i]
        before, after = impl[i].split(" # ")
        kind, tail, nc, fixed = ex_tail(l)
        kinds[kind] = kinds.get(kind, 0) + 1
        if m.strip() != after.strip():
            mism.append((l, after, m))
        ft = f.split()
        if len(ft) != 2 or ft[0] != "1":
            ofail.append((l, "an export function changed something other than x/y/orientation of movable cells (frame_okb = false on its result)", before, after))
        elif kind == "0" and ft[1] != "1":
            ofail.append((l, "GlobalPlacer::exportPlacement changed an orientation", before, after))
        # non-trivial: the export wrote something AND there is a fixed cell it had to skip
        if before.strip() != " ".join(after.split()[:-1]) and any(fixed):
            nontriv.add(l)
    return mism, ofail, crashed, nontriv, kinds


def parse_fr(res):
    """-> list of runs: (stage, cls, ninv, [dump strings: before, at callbacks..., after])"""
    runs = []
    for part in res.split(" R ")[1:]:
        segs = [s.strip() for s in part.split(" | ")]
        h = segs[0].split()
        runs.append((int(h[0]), int(h[1]), int(h[2]), segs[1:]))
    return runs


def run_fr(ctx, harness, driver, lines):
    impl, _, _ = common.run_both([harness, "run"], None, lines, chunk=60, timeout=3000)
    finp, fmap = [], []
    dist = {"runs": {}, "outcome": {}, "exposed_states": 0, "with_fixed_cells": 0, "fixed_with_nets": 0, "fixed_outside_rows": 0, "compositions": {}}
    crashed, nontriv = [], set()
    for i, (l, r) in enumerate(zip(lines, impl)):
        if " R " not in r or "SIGNAL" in r or "THROW-OUTER" in r or "DIED" in r:
            crashed.append((l, r[-200:]))
            if " R " not in r:
                continue
        runs = parse_fr(r)
        dist["compositions"][str(len(runs))] = dist["compositions"].get(str(len(runs)), 0) + 1
        moved = False
        for k, (stage, cls, ninv, dumps) in enumerate(runs):
            if len(dumps) < 2:
                continue
            dist["runs"][STAGE[stage]] = dist["runs"].get(STAGE[stage], 0) + 1
            ck = "callback threw" if cls >= 100 else {0: "returned", 1: "parameters rejected", 2: "legalization infeasible", 3: "other exception", 4: "export mismatch", 6: "size update refused"}.get(cls, str(cls))
            dist["outcome"][ck] = dist["outcome"].get(ck, 0) + 1
            for j, d in enumerate(dumps[1:]):
                finp.append("FK %s %s" % (dumps[0], d))
                fmap.append((i, k, stage, cls, j, len(dumps) - 1))
                dist["exposed_states"] += 1
                moved = moved or d != dumps[0]
        feats = circuit_features(l)
        dist["with_fixed_cells"] += feats[0]; dist["fixed_with_nets"] += feats[1]; dist["fixed_outside_rows"] += feats[2]
        if moved and feats[0]:
            nontriv.add(l)
    fout, _, _ = common.run_both([driver], None, finp, chunk=2000) if finp else ([], None, None)
    ofail = []
    for (i, k, stage, cls, j, nd), f in zip(fmap, fout):
        ft = f.split()
        where = "after the call" if j == nd - 1 else "at callback %d" % j
        if len(ft) != 2 or ft[0] != "1":
            ofail.append((lines[i], "run %d (%s, outcome class %d): the circuit %s differs from the circuit before the call in something other than x/y/orientation of movable cells (frame_okb = false)"
                          % (k, STAGE[stage], cls, where)))
        elif stage == 0 and ft[1] != "1":
            ofail.append((lines[i], "run %d (global placement, outcome class %d): an orientation changed (%s)" % (k, cls, where)))
    return ofail, crashed, nontriv, dist


def circuit_features(line):
    """(has fixed cell, a fixed cell carries a pin, a fixed cell lies outside every row)"""
    t = [int(x) for x in line.split()[1:]]
    nr = t[0]; rows = [t[1 + 5 * i:6 + 5 * i] for i in range(nr)]
    p = 1 + 5 * nr; nc = t[p]; cells = [t[p + 1 + 8 * i:p + 9 + 8 * i] for i in range(nc)]
    p += 1 + 8 * nc; nn = t[p]; p += 1
    pinned = set()
    for _ in range(nn):
        d = t[p]; p += 1
        for j in range(d):
            pinned.add(t[p]); p += 3
        p += 1
    fixed = [i for i, c in enumerate(cells) if c[6]]
    outside = [i for i in fixed if not any(r[0] <= cells[i][0] < r[1] and r[2] <= cells[i][1] < r[3] for r in rows)]
    return (1 if fixed else 0, 1 if any(i in pinned for i in fixed) else 0, 1 if outside else 0)


def run(ctx):
    uses, nfun, terr = regenerate_access()
    proof_ok, proof = common.proof_status(ctx, "C03")
    harness = common.build_harness("api")
    driver = common.build_driver("api")
    nex = 100000 if ctx.quick else 1500000
    nfr = 6000 if ctx.quick else 90000
    seeds = [ctx.seed] if ctx.quick else [ctx.seed, ctx.seed + 1000, ctx.seed + 2000]
    ex = common.corpus("C03", ("EX ",))
    fr = common.corpus("C03", ("FR ",))
    for s in seeds:
        ex += common.harness_gen(harness, ["ex", s, nex // len(seeds)])
        fr += common.harness_gen(harness, ["fr", s, nfr // len(seeds)])
    mism, ofail_ex, crashed_ex, nontriv_ex, kinds = run_ex(ctx, harness, driver, ex)
    ofail_fr, crashed_fr, nontriv_fr, dist = run_fr(ctx, harness, driver, fr)
    # stage-run cases without an outcome, by cause (each is run again alone to read its assertion text); a cause that is not one of the KNOWN
    # out-of-domain assertions (checks/c10.py KNOWN_OUT_OF_DOMAIN_ASSERTS) is reported as broken correspondence below
    from checks import c10 as _c10
    fr_causes, fr_known, fr_unknown = _c10.no_outcome_causes(
        harness, crashed_fr, has_outcome=lambda o: " R " in o and not any(t in o for t in ("SIGNAL", "THROW-OUTER", "DIED")))
    for l, why, before, after in ofail_ex[:2]:
        ctx.violation("export function of /repo violates C03: " + why, {"case": l, "format": EX_FORMAT, "why": why, "circuit_before": before, "circuit_after": after})
    for l, why in ofail_fr[:3]:
        ctx.violation("placement stage of /repo violates C03: " + why, {"case": l, "format": FR_FORMAT, "why": why})
    if not ofail_ex and not ofail_fr:
        if mism:
            ctx.violation("correspondence Api.v export models <-> GlobalPlacer/Legalizer/DetailedPlacement::exportPlacement broken (%d of %d cases differ); "
                          "no input violating C03 found" % (len(mism), len(ex)),
                          {"broken": "correspondence of coq/Api.v export_glob/export_leg/export_det (theorems of Properties_C03.v)",
                           "first_difference": {"case": mism[0][0], "format": EX_FORMAT, "implementation": mism[0][1], "model": mism[0][2]}}, found_input=False)
        if crashed_ex:
            ctx.violation("the export harness got no result for %d cases" % len(crashed_ex),
                          {"broken": "harness runs (export functions)", "first": {"case": crashed_ex[0][0], "output": crashed_ex[0][1]}}, found_input=False)
        if terr is not None:
            ctx.violation("tools/circuit_access.py cannot translate the tree under check (%s): the static part of C03 is not established; the dynamic frame check "
                          "found no violating input" % terr[:300],
                          {"broken": "tools/circuit_access.py -> coq/CircuitAccess_gen.v -> c03_algorithms_write_only_through_exports", "detail": terr}, found_input=False)
        elif not proof_ok:
            bad = offending_uses(uses)
            if bad:
                ctx.violation("theorem c03_algorithms_write_only_through_exports does not hold for the table generated from this tree: %s; the dynamic frame check of %d "
                              "exposed states found no violating input" % (bad[0], dist["exposed_states"]),
                              {"broken": "c03_algorithms_write_only_through_exports (Properties_C03.v) over coq/CircuitAccess_gen.v", "offending_uses": bad[:20], "detail": proof},
                              found_input=False)
            else:
                ctx.violation("proof obligations of Properties_C03.v do not check", {"broken": "Properties_C03.v", "detail": proof}, found_input=False)
        if fr_unknown:
            ctx.violation("%d of %d stage-run cases ended without an outcome (abort / crash inside a placement call) for a cause that is NOT one of the known "
                          "out-of-domain assertions (%s); first cause: %s" % (len(fr_unknown), len(fr), "; ".join(_c10.KNOWN_OUT_OF_DOMAIN_ASSERTS), fr_unknown[0][1]),
                          {"broken": "harness runs (stage runs): a case without outcome gives no before/after pair for the frame check (crash freedom itself is property C07)",
                           "first": {"case": fr_unknown[0][0], "format": FR_FORMAT, "cause": fr_unknown[0][1]}, "causes": fr_causes}, found_input=False)
        if len(crashed_fr) * 20 > max(1, len(fr)):
            ctx.violation("no outcome (abort/crash inside a placement call) for %d of %d stage-run cases: the dynamic frame check cannot be established"
                          % (len(crashed_fr), len(fr)), {"broken": "harness runs (stage runs)", "first": {"case": crashed_fr[0][0], "output": crashed_fr[0][1]}}, found_input=False)
    cov = dict(proof)
    cov.update({"trusted_base": common.TRUSTED_BASE + [
                    "tools/circuit_access.py (translator, clang++ 14 -ast-dump=json): the table of uses of a mutable Circuit in src/place_global, src/place_detailed and src/*.cpp; "
                    "C++ const-correctness is trusted for uses through const Circuit& (const_cast/mutable are reported by the translator); theorem "
                    "c03_algorithms_write_only_through_exports is about that table, regenerated on this run",
                    "that the algorithms write to the Circuit only through the three modelled export functions is established statically over that table and, independently, validated "
                    "by the dynamic frame check of every stage run of this check"],
                "evaluations": len(ex) + dist["exposed_states"], "distinct_nontrivial": len(nontriv_ex) + len(nontriv_fr),
                "export_cases": len(ex), "export_kinds": kinds, "stage_run_cases": len(fr), "stage_runs": dist,
                "labels": {"export-function frame theorem": "proved", "exact tie of the export models": "correspondence on the cases of this run",
                           "algorithms write only through the export functions": "theorem over the access table regenerated from the source of this run (translator trusted)",
                           "dynamic frame check of stage runs": "validated (proved checker frame_okb evaluated per exposed state)"},
                "rule": "export cases: random circuits (1-10 cells, ~40% fixed incl. first/last/consecutive, all orientations) and random internal vectors (legalizer lists shorter/longer "
                        "than the movable cells so that the mismatch exception is reached, detailed cellIndex in [-1, n-1] with repeats, global coordinates in half units); non-trivial = "
                        "the export changed the circuit and had a fixed cell to skip. stage runs: random circuits (1-12, 30% up to 30 cells; nets incl. pins on fixed cells; fixed cells "
                        "inside and outside rows; utilisation 15-110%), stage sequences {G, L, D, G-L-D, L-D, G-D}, 70% with callback, callback throwing at a random index, 12% invalid "
                        "parameter sets, 12% parameter sets at the boundary of what check() accepts (nbPasses 0, maxNbSteps 1, windows 1, ...), 20% library-default parameters (hundreds of callbacks), efforts 1-9; every callback state and the final state compared with the state before the call; "
                        "non-trivial = a cell moved and the circuit has a fixed cell; distinct = distinct case lines",
                "no_outcome_stage_cases": len(crashed_fr),
                "no_outcome": {"cases": len(crashed_fr), "of": len(fr), "limit_fraction": 0.05, "by_cause": fr_causes,
                               "known_out_of_domain_assertions": _c10.KNOWN_OUT_OF_DOMAIN_ASSERTS, "of_known_cause": sum(fr_known.values()),
                               "of_unknown_cause": len(fr_unknown), "first_cases": [c[0][:300] for c in crashed_fr[:3]],
                               "rule": "every stage-run case without an outcome is run again alone to read its assertion text; a cause outside the known "
                                       "out-of-domain assertions is reported as broken correspondence; more than limit_fraction of the cases without outcome fails the run"},
                "static_access_table": {"uses": len(uses or []), "function_definitions_scanned": nfun,
                                        "by_kind": {k: sum(1 for u in (uses or []) if u[1] == k) for k in sorted(set(u[1] for u in (uses or [])))},
                                        "writers": sorted(set("%s -> %s" % (u[0], u[2]) for u in (uses or []) if u[1] == "UWrite")),
                                        "translator_error": terr},
                "samples": [ex[0][:300], ex[len(ex) // 2][:300], fr[0][:400], fr[-1][:400]],
                "model_vs_impl_differences": len(mism), "impl_outputs_violating_statement": len(ofail_ex) + len(ofail_fr)})
    return ctx.finish(LEVEL, cov, ["export models tied to the three export functions by exact comparison on the cases of this run",
                                   "frame of whole stage runs: validated per run with the proved checker, not proved for the algorithms",
                                   "stage runs that end in abort()/assert (degenerate circuits, C07's subject) give no before/after pair and are counted in no_outcome_stage_cases (tolerated up to 5 % of the stage-run cases; a SIGSEGV is not separated from the known assert)",
                                   "static closure = translator-derived table + rule: the analysis (python over clang's AST) is trusted, unrecognised forms of access are not seen",
                                   "net weights are compared as llround(2x); exception kinds EInternal / EExport / EUpdating are not exercised dynamically"])


def replay(ctx, path):
    r = json.load(open(path))["replay"]
    case = r.get("case") or r["first_difference"]["case"]
    harness = common.build_harness("api")
    driver = common.build_driver("api")
    if case.startswith("EX"):
        mism, ofail, crashed, _, _ = run_ex(ctx, harness, driver, [case])
        print("case :", case)
        for m in mism:
            print("impl :", m[1]); print("model:", m[2])
        for o in ofail:
            print("statement violated:", o[1]); print("before:", o[2]); print("after :", o[3])
        return 1 if (mism or ofail or crashed) else 0
    ofail, crashed, _, dist = run_fr(ctx, harness, driver, [case])
    print("case :", case)
    print("runs :", dist["runs"], dist["outcome"])
    for o in ofail:
        print("statement violated:", o[1])
    return 1 if (ofail or crashed) else 0
