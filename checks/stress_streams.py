"""Case streams shared by C02 / C04 / C05 / C07 / C09, made here (seeded python generators over the case formats of
harness/dopt.cpp DO, harness/drun.cpp DR / DW, harness/detailed.cpp DP, harness/hpwl.cpp HP / IN):

 * BIG OFFSET: the whole circuit (rows, every cell, fixed ones included) TRANSLATED by a large offset in x and / or y: 2^24 + odd
   (first coordinates a binary32 float cannot hold), 2^26 + k, +-(2^30 - small).  Every coordinate stays strictly inside +-2^30, so
   every pin coordinate (cell + pin offset) and every sum of two coordinates the code forms (`(boundaryBefore + boundaryAfter - width) / 2`
   in positionsOnSwap / positionOnInsert) fits an int.  Pin offsets are relative to the cell and are not changed: the translated
   circuit has the same nets, the same wirelength and the same optimal moves as the small one -- in exact integer arithmetic.  A
   detour of a coordinate through float (24 bits) rounds it to a multiple of 2 / 8 / 64 there.  The shift pass (lemon network
   simplex) is NEVER driven on these circuits: ops 5 / 7 are dropped from DO lines, DP / DW lines get shiftMaxNbCells < 2 (the
   magnitude limit |v| < 2^22 of the shift streams is an observation about lemon's int costs, DESIGN.md 10.4).
 * WIDE WINDOWS: designed circuits whose rows really hold 8..12 row-high cells next to each other, driven with reordering windows of
   6..8 cells (reorderingMaxNbCells 6..8: up to 8! = 40320 orderings per window; the library's parameter check has no upper bound).

All functions are pure text -> text: no harness change."""
import random

P24, P26, P30 = 1 << 24, 1 << 26, 1 << 30


def circuit_span(t):
    """t: int tokens of '<rows> <cells> ...' -> (end index of rows+cells, min x, max x, min y, max y) over rows and cells (with sizes)"""
    nr = t[0]; p = 1
    xs, ys = [], []
    for _ in range(nr):
        xs += [t[p], t[p + 1]]; ys += [t[p + 2], t[p + 3]]; p += 5
    nc = t[p]; p += 1
    for _ in range(nc):
        m = max(abs(t[p + 2]), abs(t[p + 3]))          # turned cells: width and height exchange
        xs += [t[p], t[p] + m]; ys += [t[p + 1], t[p + 1] + m]; p += 8
    if not xs:
        xs, ys = [0], [0]
    return p, min(xs), max(xs), min(ys), max(ys)


def nets_span(t, p):
    """largest |pin offset| of the nets starting at token p ('nn (d (cell xo yo)*d w2)*'), end index"""
    nn = t[p]; p += 1; m = 0
    for _ in range(nn):
        d = t[p]; p += 1
        for _ in range(d):
            m = max(m, abs(t[p + 1]), abs(t[p + 2])); p += 3
        p += 1
    return m, p


def translate_tokens(t, dx, dy):
    """rows and cells of '<rows> <cells> ...' moved by (dx, dy); everything behind the cells unchanged"""
    t = list(t); nr = t[0]; p = 1
    for _ in range(nr):
        t[p] += dx; t[p + 1] += dx; t[p + 2] += dy; t[p + 3] += dy; p += 5
    nc = t[p]; p += 1
    for _ in range(nc):
        t[p] += dx; t[p + 1] += dy; p += 8
    return t


def pick_offset(rng, lo, hi, margin):
    """an offset d such that [lo + d, hi + d] (+- margin for pin offsets) stays strictly inside (-2^30, 2^30): one of the classes
    2^24 + odd, 2^25 + (not a multiple of 4), 2^26 + k, +-(2^30 - small), -(2^24 + odd); or None when the circuit is too wide"""
    span = hi - lo + 2 * margin + 8
    if span >= P24:
        return None, None
    k = rng.randint(0, 9)
    if k < 3:
        d, name = P24 - lo + margin + 2 * rng.randint(0, 40) + 1, "2^24+odd"
    elif k < 4:
        d, name = 2 * P24 - lo + margin + 4 * rng.randint(0, 40) + rng.choice((1, 2, 3)), "2^25+k"
    elif k < 6:
        d, name = P26 - lo + margin + rng.randint(0, 200), "2^26+k"
    elif k < 8:
        d, name = P30 - 1 - rng.randint(0, 64) - hi - margin, "2^30-small"
    elif k < 9:
        d, name = -(P30 - 1 - rng.randint(0, 64)) - lo + margin, "-(2^30-small)"
    else:
        d, name = -(P24 + 2 * rng.randint(0, 40) + 1) - hi - margin, "-(2^24+odd)"
    assert -P30 < lo + d - margin and hi + d + margin < P30
    return d, name


def do_ops(t, q):
    """ops of a DO line from token q ('nops (op)*') as lists of ints (see harness/dopt.cpp)"""
    nops = t[q]; q += 1; ops = []
    for _ in range(nops):
        ty = t[q]
        ln = 3 + t[q + 2] if ty == 0 else 4 + t[q + 3] if ty == 1 else 4 if ty == 2 else 3 if ty <= 6 else 2 + t[q + 1]
        ops.append(t[q:q + ln]); q += ln
    return ops


def big_translate(rng, line, axes=None):
    """one DO / DR / DW / DP line translated (see the module text); returns (line, class name) or (None, None).
    DO: shift ops (5, 7) dropped.  DW / DP: shiftMaxNbCells forced below 2 (DP: custom parameter set forced)."""
    tag = line[:2]
    t = [int(x) for x in line.split()[1:]]
    p, lox, hix, loy, hiy = circuit_span(t)
    margin, q = nets_span(t, p)
    if q - p > 1500:                       # the 2^31-total streams (hundreds of nets): not here
        return None, None
    axes = axes if axes is not None else rng.choice(("x", "x", "y", "xy", "xy"))
    dx = dy = 0; names = []
    if "x" in axes:
        dx, n = pick_offset(rng, lox, hix, margin); names.append("x:" + str(n))
    if "y" in axes:
        dy, n = pick_offset(rng, loy, hiy, margin); names.append("y:" + str(n))
    if dx is None or dy is None:
        return None, None
    t = translate_tokens(t, dx, dy)
    rest = t[q:]
    if tag == "DO":
        ops = [o for o in do_ops(t, q) if o[0] not in (5, 7)]
        rest = [len(ops)] + [v for o in ops for v in o]
    elif tag == "DW":                      # nbPasses lsNeigh lsRows shiftRows shiftMax reordRows reordMax how
        rest[4] = min(rest[4], 1)
    elif tag == "DP":                      # effort custom nbPasses lsNeigh lsRows shiftRows shiftMax reordRows reordMax
        rest[1] = 1; rest[6] = rng.randint(0, 1)
    return tag + " " + " ".join(str(v) for v in t[:q] + rest), " ".join(names)


def big_lines(rng, base_lines, want):
    """up to `want` translated lines out of base_lines; returns (lines, {class: count})"""
    out, classes = [], {}
    for l in base_lines:
        if len(out) >= want:
            break
        tl, name = big_translate(rng, l)
        if tl is None:
            continue
        out.append(tl)
        for n in name.split():
            classes[n] = classes.get(n, 0) + 1
    return out, classes


# ---------------------------------------------------------------------------------------------------------------- wide windows

def wide_circuit(rng, big=False):
    """(circuit tokens, net tokens, number of movable cells, cells per row): 1..3 rows; row 0 holds 8..12 row-high cells placed legally
    left to right (gaps of 0..2 in 40 % of the places), the other rows 1..4 cells; 1..3 fixed 1x1 pads; n..2n+2 nets of 2..4 pins."""
    nrows = rng.choice((1, 1, 2, 3)); rh = 2 * rng.randint(1, 3)
    x0, y0 = rng.randint(-15, 15), rng.randint(-15, 15)
    rows, cells, per_row = [], [], []
    for r in range(nrows):
        ro = 0 if r % 2 == 0 else 5
        m = rng.randint(8, 12) if r == 0 else rng.randint(1, 4)
        x = x0 + (rng.randint(0, 3) if r else 0); xs = x
        for _ in range(m):
            w = rng.randint(1, 4)
            if rng.random() < 0.4:
                x += rng.randint(1, 2)
            pol = 1 if rng.random() < 0.15 else 0            # SAME: orientation of the row
            cells.append([x, y0 + r * rh, w, rh, ro, pol, 0, 1]); x += w
        rows.append([xs, x + rng.randint(0, 4), y0 + r * rh, y0 + (r + 1) * rh, ro]); per_row.append(m)
    n = len(cells)
    npads = rng.randint(1, 3)
    for _ in range(npads):
        cells.append([x0 + rng.randint(-12, 50), y0 + rng.randint(-6, nrows * rh + 6), 1, 1, 0, 0, 1, 0])
    nets = []
    for _ in range(rng.randint(n, 2 * n + 2)):
        d = rng.randint(2, 4); net = []
        for _ in range(d):
            c = n + rng.randrange(npads) if rng.random() < 0.2 else rng.randrange(n)
            net += [c, rng.randint(0, cells[c][2]), rng.randint(0, cells[c][3])]
        nets.append([d] + net + [rng.choice((2, 2, 2, 1, 3, 4))])
    ctoks = [nrows] + [v for r in rows for v in r] + [len(cells)] + [v for c in cells for v in c]
    ntoks = [len(nets)] + [v for nt in nets for v in nt]
    return ctoks, ntoks, n, per_row


def _txt(*parts):
    return " ".join(str(v) for p in parts for v in p)


def wide_do_line(rng):
    """DO line: 1..3 ops on a wide circuit: runReordering(nbRows 1..2, maxNbCells 6..8) and runReorderingOnCells on 6..8 consecutive cells
    of row 0, sometimes a swap pass in between"""
    c, nt, n, per_row = wide_circuit(rng)
    ops = []
    for _ in range(rng.randint(1, 2)):
        k = rng.random()
        if k < 0.5:
            ops.append([6, 1 if len(per_row) == 1 or rng.random() < 0.7 else 2, rng.randint(6, 8)])
        else:
            kk = rng.randint(6, 8); a = rng.randint(0, per_row[0] - kk)
            ops.append([8, kk] + list(range(a, a + kk)))
        if rng.random() < 0.3:
            ops.append([3, rng.randint(0, 2), rng.randint(1, 4)])
    return "DO " + _txt(c, nt, [len(ops)], [v for o in ops for v in o])


def wide_dr_line(rng):
    """DR line (harness/drun.cpp): runReordering(nbRows, 6..8) after / before a swap pass"""
    c, nt, n, per_row = wide_circuit(rng)
    ops = [[6, 1 if len(per_row) == 1 or rng.random() < 0.7 else 2, rng.randint(6, 8)]]
    if rng.random() < 0.5:
        ops.insert(rng.randint(0, 1), [3, rng.randint(0, 2), rng.randint(1, 4)])
    return "DR " + _txt(c, nt, [len(ops)], [v for o in ops for v in o])


def wide_dw_line(rng):
    """DW line: whole run without shift pass, reordering windows of 6..8 cells; how = 0 (pass by pass) or 1 (Circuit::placeDetailed)"""
    c, nt, n, per_row = wide_circuit(rng)
    return "DW " + _txt(c, nt, [1, rng.randint(0, 3), rng.randint(0, 2), rng.randint(1, 3), rng.randint(0, 1),
                                1 if len(per_row) == 1 or rng.random() < 0.7 else 2, rng.randint(6, 8), rng.randint(0, 1)])


def wide_dp_line(rng):
    """DP line (harness/detailed.cpp): Circuit::placeDetailed, custom parameter set, reorderingMaxNbCells 6..8, shift pass on or off"""
    c, nt, n, per_row = wide_circuit(rng)
    return "DP " + _txt(c, nt, [3, 1, rng.randint(1, 2), rng.randint(0, 3), rng.randint(0, 2), rng.randint(1, 3),
                                rng.choice((0, 0, 1, 6, 15)), 1 if len(per_row) == 1 or rng.random() < 0.7 else 2, rng.randint(6, 8)])


# ---------------------------------------------------------------------------------------------------------------- entry points

def _info(big_classes, nbig, nwide):
    return {"big_offset_cases": nbig, "big_offset_classes": big_classes, "wide_window_cases": nwide}


def extra_lines(harness, tag, seed, nbig, nwide, gen_args):
    """`nbig` translated lines (base: `harness gen <gen_args>` with 2 * nbig cases; NOLEG ones cost nothing) and `nwide` wide-window
    lines of the given tag (DO / DR / DW / DP; for DR the base lines of drun's generator are DR and DW mixed: both are kept)"""
    from tools import common
    rng = random.Random(7919 * seed + 31)
    big, classes = [], {}
    if nbig > 0:
        base = common.harness_gen(harness, gen_args)
        big, classes = big_lines(rng, base, nbig)
    mk = {"DO": wide_do_line, "DR": lambda r: wide_dr_line(r) if r.random() < 0.5 else wide_dw_line(r), "DP": wide_dp_line}[tag]
    wide = [mk(rng) for _ in range(nwide)]
    return big, wide, _info(classes, len(big), len(wide))


def big_hpwl_line(rng, line):
    """one HP / IN line of harness/hpwl.cpp ('ncells (x y w h orient)* nnets (npins (cell xo yo)*)*'; IN: dir in front, then
    'nsub cells.. nupd (cell pos)*' with ABSOLUTE new positions along dir) translated; (line, classes) or (None, None)"""
    tag = line[:2]
    if tag not in ("HP", "IN"):
        return None, None
    t = [int(x) for x in line.split()[1:]]
    p = 1 if tag == "IN" else 0
    d = t[0] if tag == "IN" else None
    nc = t[p]; c0 = p + 1; p = c0 + 5 * nc
    if nc == 0:
        return None, None
    nn = t[p]; p += 1
    if nn > 40:
        return None, None
    size = max(max(abs(t[c0 + 5 * i + 2]), abs(t[c0 + 5 * i + 3])) for i in range(nc))
    off = 0
    for _ in range(nn):
        k = t[p]; p += 1
        for _ in range(k):
            off = max(off, abs(t[p + 1]), abs(t[p + 2])); p += 3
    xs = [t[c0 + 5 * i] for i in range(nc)]; ys = [t[c0 + 5 * i + 1] for i in range(nc)]
    ups = []
    if tag == "IN":
        ns = t[p]; p += 1 + ns
        nu = t[p]; p += 1
        ups = [p + 1 + 2 * j for j in range(nu)]
        (xs if d == 0 else ys).extend(t[j] for j in ups)
    margin = size + off
    if rng.random() < 0.25 and margin < (1 << 20) and max(xs) - min(xs) < (1 << 20) and max(ys) - min(ys) < (1 << 20):
        # IN-BOX class: inside the box of c09_incremental_exact_machine (cell and update positions within +-2^23, oriented pin offsets
        # within +-2^24): positions pushed up to just below 2^23 and every raw pin offset moved by K ~ 2^24 - small along x and / or y,
        # so that pin coordinates reach 1.5 * 2^24 (not float-representable when odd) with every listed intermediate inside int
        ax = rng.choice(("x", "y", "xy")) if tag == "HP" else ("x" if d == 0 else "y")
        dx = (1 << 23) - 1 - rng.randint(0, 64) - max(xs); dy = (1 << 23) - 1 - rng.randint(0, 64) - max(ys)
        kx = ((1 << 24) - margin - 1 - rng.randint(0, 200)) if "x" in ax else 0
        ky = ((1 << 24) - margin - 1 - rng.randint(0, 200)) if "y" in ax else 0
        for i in range(nc):
            t[c0 + 5 * i] += dx; t[c0 + 5 * i + 1] += dy
        for j in ups:
            t[j] += dx if d == 0 else dy
        q = c0 + 5 * nc + 1
        for _ in range(nn):
            k = t[q]; q += 1
            for _ in range(k):
                t[q + 1] += kx; t[q + 2] += ky; q += 3
        return tag + " " + " ".join(str(v) for v in t), " ".join(a + ":in-box(pos<2^23,offset~2^24)" for a in ax)
    axes = rng.choice(("x", "y", "xy", "xy")) if tag == "HP" else ("x" if d == 0 else "y") + rng.choice(("", "", "o"))
    dx = dy = 0; names = []
    if "x" in axes or (tag == "IN" and "o" in axes and d == 1):
        dx, n = pick_offset(rng, min(xs), max(xs), margin); names.append("x:" + str(n))
    if "y" in axes or (tag == "IN" and "o" in axes and d == 0):
        dy, n = pick_offset(rng, min(ys), max(ys), margin); names.append("y:" + str(n))
    if dx is None or dy is None:
        return None, None
    for i in range(nc):
        t[c0 + 5 * i] += dx; t[c0 + 5 * i + 1] += dy
    for j in ups:
        t[j] += dx if d == 0 else dy
    return tag + " " + " ".join(str(v) for v in t), " ".join(names)


def big_hpwl_lines(seed, base_lines, want):
    rng = random.Random(7919 * seed + 57)
    out, classes = [], {}
    for l in base_lines:
        if len(out) >= want:
            break
        tl, name = big_hpwl_line(rng, l)
        if tl is None:
            continue
        out.append(tl)
        for n in name.split():
            classes[n] = classes.get(n, 0) + 1
    return out, classes
