"""C15 -- free row space.  Proof: coq/Properties_C15.v (exactness, structure, ignored
cells, obstacle order) -- theorems about a SPECIFICATION function (FreeSpace.v is the contract of
Row::freespace, not a model of its boost::polygon code path), which is tested equal to the code.
Tie: exact equality of the segment lists of Row::freespace and
Circuit::computeRows with the extracted specification, exhaustive on a small grid + random; the
statement itself is re-checked column by column on the C++ output."""
import json
from tools import common
from checks import circuit_sequences

LEVEL = "proof"
TURN = (2, 3, 6, 7)     # W, E, FW, FE: the placed outline has width and height exchanged


def parse_cr(line):
    v = [int(t) for t in line.split()[1:]]
    p = 0
    nr = v[p]; p += 1
    rows = [tuple(v[p + 5 * i:p + 5 * i + 5]) for i in range(nr)]; p += 5 * nr
    ne = v[p]; p += 1
    extra = [tuple(v[p + 4 * i:p + 4 * i + 4]) for i in range(ne)]; p += 4 * ne
    nc = v[p]; p += 1
    cells = [tuple(v[p + 7 * i:p + 7 * i + 7]) for i in range(nc)]
    return rows, extra, cells


def row_verdict(row, obs, segs):
    """the statement of C15 for one row, column by column (same as verdict() of harness/freespace.cpp)"""
    for s in segs:
        if s[2] != row[2] or s[3] != row[3]:
            return "segment not full height"
        if s[4] != row[4]:
            return "orientation changed"
        if s[0] >= s[1]:
            return "empty segment"
        if s[0] < row[0] or s[1] > row[1]:
            return "segment outside the row"
    bp = {row[0], row[1]}
    for s in segs:
        bp.update(s[:2])
    for o in obs:
        bp.update(o[:2])
    for x in sorted(bp):
        if x < row[0] or x >= row[1]:
            continue
        cover = sum(1 for s in segs if s[0] <= x < s[1])
        if cover > 1:
            return "segments overlap at column %d" % x
        free = row[2] < row[3] and not any(o[0] < o[1] and o[2] < o[3] and o[0] <= x < o[1] and o[2] < row[3] and row[2] < o[3] for o in obs)
        if free and not cover:
            return "obstruction-free column %d of row %s is not covered" % (x, list(row[:4]))
        if not free and cover:
            return "a segment of row %s contains column %d, which an obstruction (fixed obstruction cell or extra obstacle) occupies" % (list(row[:4]), x)
    return None


def state_verdict(cr, rows_text):
    """the statement of C15 evaluated on a dumped circuit state (CR line) and the segments computeRows returned for it"""
    rows, extra, cells = parse_cr(cr)
    obs = list(extra)
    for (x, y, w, h, o, fx, ob) in cells:
        if fx and ob:
            pw, ph = (h, w) if o in TURN else (w, h)
            obs.append((x, x + pw, y, y + ph))
    try:
        segs = [tuple(int(t) for t in s.split()) for s in rows_text.split(";") if s.strip()]
        if any(len(s) != 5 for s in segs):
            raise ValueError
    except ValueError:
        return "no usable result: " + rows_text[:80]
    pos = 0
    for row in rows:          # computeRows returns the segments row by row, left to right
        mine = []
        while pos < len(segs) and segs[pos][2:4] == row[2:4] and segs[pos][0] >= row[0] and segs[pos][1] <= row[1] and \
                (not mine or segs[pos][0] >= mine[-1][1]):
            mine.append(segs[pos]); pos += 1
        why = row_verdict(row, obs, mine)
        if why:
            return why
    if pos != len(segs):
        return "segment %s does not belong to the rows in order" % (list(segs[pos]),)
    return None


def run(ctx):
    proof_ok, proof = common.proof_status_all(ctx, "C15", ["gaps2_C15"])
    harness = common.build_harness("freespace")
    driver = common.build_driver()
    grid = (3, 2, 2) if ctx.quick else (4, 2, 2)
    lines = common.corpus("C15", ("FS ", "CR "))
    g1 = common.harness_gen(harness, ["grid"] + list(grid))
    ngrid = len(g1)
    lines += g1
    if not ctx.quick:
        g3 = common.harness_gen(harness, ["grid", 2, 1, 3])
        ngrid += len(g3)
        lines += g3
    nrand = 40000 if ctx.quick else 2000000
    seeds = [ctx.seed] if ctx.quick else [ctx.seed, ctx.seed + 1000, ctx.seed + 2000]
    for s in seeds:
        lines += common.harness_gen(harness, ["rand", s, nrand // len(seeds)])
    # rows given in pieces of one y that abut exactly / with a gap / overlapping, each piece with its own orientation, in either order in rows(),
    # the seam free or under a movable cell / a fixed non-obstruction / a fixed obstruction (over it, ending or starting exactly at it) / an extra
    # obstacle: through Circuit::computeRows; every returned segment is attributed to ONE row and judged against it (harness verdict, per row)
    nseam = 20000 if ctx.quick else 600000
    seam_lines = []
    for s in seeds:
        seam_lines += common.harness_gen(harness, ["seam", s, nseam // len(seeds)])
    lines += seam_lines
    seam_set = set(seam_lines)
    # sequence stream: one Circuit edited by the public setters and queried after every step; every (public state at that
    # moment, answer) pair becomes an ordinary one-shot CR case (the model is a pure function of the state)
    nseq = 1500 if ctx.quick else 60000
    recs, anomalies, seqstats = [], [], {}
    for s in seeds:
        r, a, st = circuit_sequences.run_sequences(s, nseq // len(seeds), common.corpus("C15", ("SQ ",)) if s == seeds[0] else ())
        recs += r; anomalies += a
        for k, v in st.items():
            seqstats[k] = seqstats.get(k, 0) + v
    noneshot = len(lines)
    lines += sorted(set(r.cr for r in recs))
    impl, model, errs = common.run_both([harness, "run"], [driver], lines)
    mism, ofail, nontriv = [], [], set()
    kinds = {"FS": 0, "CR": 0}
    blocked = 0
    for l, i, m in zip(lines, impl, model):
        kinds[l[:2]] += 1
        if " # " in i:
            res, verd = i.rsplit(" # ", 1)
        else:
            res, verd = i, "BAD no result (abort/throw/crash): " + i
        if verd != "OK":
            if l.startswith("CR") and " # " in i:
                verd += " (per row: %s)" % state_verdict(l, res.strip())
            ofail.append((l, i, verd))
        if res.strip() != m.strip():
            mism.append((l, res, m))
        # non-trivial: some obstacle actually changes the row (result differs from the bare row / rows)
        toks = l.split()
        if l.startswith("FS"):
            bare = " ".join(toks[1:6])
            if res.strip() != bare and int(toks[2]) > int(toks[1]):
                nontriv.add(l)
        elif l in seam_set:
            rws = parse_cr(l)[0]
            # non-trivial: two pieces of one y abut exactly with different orientations and something is returned
            if res.strip() and any(a[2:4] == b[2:4] and a[1] == b[0] and a[4] != b[4] and a[0] < a[1] and b[0] < b[1] for a in rws for b in rws):
                nontriv.add(l)
    # the answers given inside the sequences, judged on the state they were given for
    fresh = dict(zip(lines[noneshot:], zip(impl[noneshot:], model[noneshot:])))
    seq_bad, seq_mism, seq_nontriv, seen = [], [], set(), set()
    for r in recs:
        if (r.cr, r.rows) in seen:
            continue
        seen.add((r.cr, r.rows))
        fi, fm = fresh[r.cr]
        why = state_verdict(r.cr, r.rows)
        if why:
            seq_bad.append((r, why, fi, fm))
        if r.rows != fm.strip():
            seq_mism.append((r, fi, fm))
        if r.rows != ";".join("%d %d %d %d %d" % rw for rw in parse_cr(r.cr)[0] if rw[0] < rw[1] and rw[2] < rw[3]):
            seq_nontriv.add(r.cr)

    def seq_detail(r, fi, fm):
        return {"case": r.case, "format": "see harness/circseq.cpp header", "after_step": r.step,
                "steps_so_far": circuit_sequences.steps_text(r.case, r.step),
                "query": {"q": "computeRows()", "x": "computeRows(extra obstacles)", "c": "computeRows() on a copy of the circuit",
                          "m": "computeRows() on a copy that was edited on its own"}.get(r.kind, r.kind),
                "public_state_at_that_moment": r.cr, "implementation_output": r.rows, "model_for_that_state": fm,
                "fresh_circuit_with_the_same_state": fi}
    for r, why, fi, fm in seq_bad[:3]:
        d = seq_detail(r, fi, fm); d["why"] = why
        ctx.violation("free row space computed by /repo after a sequence of public edits violates C15 for the circuit's state at that "
                      "moment: " + why, d)
    for case, text in anomalies[:3]:
        ctx.violation("a sequence of public edits and computeRows/hpwl/report queries did not run through: " + text[:200],
                      {"case": case, "format": "see harness/circseq.cpp header", "implementation_output": text[:400], "why": text[:200]})
    if seq_mism and not seq_bad and not ofail:
        r, fi, fm = seq_mism[0]
        d = seq_detail(r, fi, fm); d["broken"] = "correspondence of coq/FreeSpace.v (theorems of Properties_C15.v), sequence stream"
        ctx.violation("correspondence FreeSpace.v <-> Circuit::computeRows broken inside edit sequences (%d of %d answers differ from the "
                      "model of the state they were given for); no input violating C15 found" % (len(seq_mism), len(seen)), d, found_input=False)
    for l, i, verd in ofail[:3]:
        ctx.violation("free row space computed by /repo violates C15: " + verd,
                      {"case": l, "format": "see harness/freespace.cpp header", "implementation_output": i, "why": verd})
    if not ofail and not seq_bad and not anomalies:
        if mism:
            ctx.violation("correspondence FreeSpace.v <-> Row::freespace/Circuit::computeRows broken (%d of %d cases differ); "
                          "no input violating C15 found" % (len(mism), len(lines)),
                          {"broken": "correspondence of coq/FreeSpace.v (theorems of Properties_C15.v)",
                           "first_difference": {"case": mism[0][0], "implementation": mism[0][1], "model": mism[0][2]}}, found_input=False)
        if not proof_ok:
            ctx.violation("proof obligations of Properties_C15.v do not check", {"broken": "Properties_C15.v", "detail": proof}, found_input=False)
    cov = dict(proof)
    cov.update({"trusted_base": common.TRUSTED_BASE + ["boost::polygon is not modelled: FreeSpace.v is its contract"],
                "evaluations": len(lines) + len(seen), "distinct_nontrivial": len(nontriv) + len(seq_nontriv),
                "rule": "exhaustive grid: rows [0,w)x[0,h), w<=%d, h<=%d, every ordered selection of up to %d obstacles with corners on the grid "
                        "[-1,w+1]x[-1,h+1] (degenerate ones included); random: Row::freespace and Circuit::computeRows (extra obstacles, cells with all "
                        "fixed/obstruction flag combinations, 8 orientations) up to scale 2^18. seams (tag CR, Circuit::computeRows with and without extra obstacles): 1-3 "
                        "bands each given as 1-3 rows of the SAME y that abut exactly (75 %%: one ends at X, the next starts at X), leave a gap of 1 / one site or "
                        "overlap by one site (5 %%), every piece with an orientation of its own (different from its neighbour's in >= 70 %%), listed in rows() left to right, right to left or "
                        "shuffled; each seam X is free, or lies under a movable cell, a fixed cell that is no obstruction, a fixed obstruction (over X, ending "
                        "exactly at X, starting exactly at X; row-high or two rows high; 8 orientations) or an extra obstacle, + 0-3 random cells and 0-1 random "
                        "extra obstacles, scale up to 2^18; every returned segment is attributed to ONE row of rows() in order and judged against THAT row (inside "
                        "it, full height, its orientation, no obstruction, every free column of the row covered). sequences: ONE Circuit (1-4 stacked rows, 30 %% of "
                        "them given as two pieces of one y that abut exactly / with a gap, own orientations, either order; 1-6 cells, 0-3 nets, "
                        "0-2 extra obstacles, scale up to 2^18) edited by 3-12 steps drawn from the real public setters setCellX/Y/Width/Height/"
                        "Orientation (one cell or all), setCellIsFixed/setCellIsObstruction (one cell or all; set, clear, toggle), setSolution, setRows "
                        "(edit/drop/add a row), setupRows, addNet, setNets, copy assignment, in random order with repetition; after every step (15 %% of "
                        "the steps deliberately without a query) computeRows(), hpwl(), optionally report() before and computeRows(extra), every query "
                        "asked twice on the same state (idempotence), optionally on a copy of the circuit and on a copy edited on its own; each answer "
                        "is paired with the public state read through the getters at that moment and judged as a one-shot CR case: equality with the "
                        "model of that state, the column-by-column statement on that state, and a freshly built circuit with that state. non-trivial "
                        "= the obstacles change the row(s); distinct = distinct case lines (sequences: distinct (state, answer) pairs)" % grid,
                "exhaustive": True, "grid_cases": ngrid, "kinds": kinds, "seam_cases": len(seam_set),
                "samples": [lines[ngrid // 2], lines[ngrid + 3], lines[noneshot - 1]] + ([recs[-1].case] if recs else []),
                "sequence_stream": dict(seqstats, distinct_state_answer_pairs=len(seen), nontrivial_states=len(seq_nontriv),
                                        answers_differing_from_model=len(seq_mism), answers_violating_statement=len(seq_bad),
                                        steps_not_run_through=len(anomalies)),
                "model_vs_impl_differences": len(mism) + len(seq_mism), "impl_outputs_violating_statement": len(ofail) + len(seq_bad) + len(anomalies)})
    return ctx.finish(LEVEL, cov, ["inverted rectangles (minX>maxX) are outside the domain (a placement of non-negative size is never inverted)",
                                   "FreeSpace.v is a specification tested equal to the code (boost::polygon's slicing is not modelled); the theorems are about freespace_iv on one row, nothing is proved at compute_rows / Circuit level; 'ignored cells' restates a definition and rests on the tie",
                                   "specification tied to the code by exact comparison on the cases of this run",
                                   "sequence stream: the circuit's state is what its public getters return (nets: what the harness itself set, "
                                   "cross-checked with nbNets/nbPinsNet/pinCell); rows of a sequence are stacked, some given as two pieces of one y (abutting / with a gap; row edits may make two pieces overlap)",
                                   "segments are attributed to rows greedily in the order of rows() (a segment belongs to the current row while it lies inside it, right of the previous one); a segment that fits no row in order is a violation"])


def replay(ctx, path):
    r = json.load(open(path))["replay"]
    case = r.get("case") or r["first_difference"]["case"]
    harness = common.build_harness("freespace")
    driver = common.build_driver()
    if case.startswith("SQ "):
        recs, anomalies, _ = circuit_sequences.run_sequences(0, 0, [case])
        crs = sorted(set(x.cr for x in recs))
        impl, model, _ = common.run_both([harness, "run"], [driver], crs)
        fresh = dict(zip(crs, zip(impl, model)))
        print("case :", case)
        for t in circuit_sequences.steps_text(case):
            print("  step", t)
        bad = bool(anomalies)
        for c, text in anomalies:
            print("NOT RUN THROUGH:", text[:300])
        for x in recs:
            why = state_verdict(x.cr, x.rows)
            fi, fm = fresh[x.cr]
            if why or x.rows != fm.strip():
                bad = True
                print("after step %d (%s): state %s" % (x.step, x.kind, x.cr))
                print("  impl :", x.rows)
                print("  model:", fm)
                print("  fresh:", fi)
                print("  statement:", why)
        return 1 if bad else 0
    impl, model, _ = common.run_both([harness, "run"], [driver], [case])
    print("case :", case)
    print("impl :", impl[0])
    print("model:", model[0])
    bad = (" # OK" not in impl[0]) or impl[0].rsplit(" # ", 1)[0].strip() != model[0].strip()
    return 1 if bad else 0
