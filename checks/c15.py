"""C15 -- free row space.  Proof: coq/Properties_C15.v (exactness, structure, ignored
cells, obstacle order).  Tie: exact equality of the segment lists of Row::freespace and
Circuit::computeRows with the extracted model, exhaustive on a small grid + random; the
statement itself is re-checked column by column on the C++ output."""
import json
from tools import common

LEVEL = "proof"


def run(ctx):
    proof_ok, proof = common.proof_status(ctx, "C15")
    harness = common.build_harness("freespace")
    driver = common.build_driver()
    grid = (3, 2, 2) if ctx.quick else (4, 2, 2)
    lines = common.corpus("C15", ("FS ", "CR "))
    g1 = common.harness_gen(harness, ["grid"] + list(grid))
    ngrid = len(g1)
    lines += g1
    if not ctx.quick:
        g3 = common.harness_gen(harness, ["grid", 2, 1, 3])
        ngrid += len(g3)
        lines += g3
    nrand = 40000 if ctx.quick else 2000000
    seeds = [ctx.seed] if ctx.quick else [ctx.seed, ctx.seed + 1000, ctx.seed + 2000]
    for s in seeds:
        lines += common.harness_gen(harness, ["rand", s, nrand // len(seeds)])
    impl, model, errs = common.run_both([harness, "run"], [driver], lines)
    mism, ofail, nontriv = [], [], set()
    kinds = {"FS": 0, "CR": 0}
    blocked = 0
    for l, i, m in zip(lines, impl, model):
        kinds[l[:2]] += 1
        if " # " in i:
            res, verd = i.rsplit(" # ", 1)
        else:
            res, verd = i, "BAD no result (abort/throw/crash): " + i
        if verd != "OK":
            ofail.append((l, i, verd))
        if res.strip() != m.strip():
            mism.append((l, res, m))
        # non-trivial: some obstacle actually changes the row (result differs from the bare row / rows)
        toks = l.split()
        if l.startswith("FS"):
            bare = " ".join(toks[1:6])
            if res.strip() != bare and int(toks[2]) > int(toks[1]):
                nontriv.add(l)
    for l, i, verd in ofail[:3]:
        ctx.violation("free row space computed by /repo violates C15: " + verd,
                      {"case": l, "format": "see harness/freespace.cpp header", "implementation_output": i, "why": verd})
    if not ofail:
        if mism:
            ctx.violation("correspondence FreeSpace.v <-> Row::freespace/Circuit::computeRows broken (%d of %d cases differ); "
                          "no input violating C15 found" % (len(mism), len(lines)),
                          {"broken": "correspondence of coq/FreeSpace.v (theorems of Properties_C15.v)",
                           "first_difference": {"case": mism[0][0], "implementation": mism[0][1], "model": mism[0][2]}}, found_input=False)
        if not proof_ok:
            ctx.violation("proof obligations of Properties_C15.v do not check", {"broken": "Properties_C15.v", "detail": proof}, found_input=False)
    cov = dict(proof)
    cov.update({"trusted_base": common.TRUSTED_BASE + ["boost::polygon is not modelled: FreeSpace.v is its contract"],
                "evaluations": len(lines), "distinct_nontrivial": len(nontriv),
                "rule": "exhaustive grid: rows [0,w)x[0,h), w<=%d, h<=%d, every ordered selection of up to %d obstacles with corners on the grid "
                        "[-1,w+1]x[-1,h+1] (degenerate ones included); random: Row::freespace and Circuit::computeRows (extra obstacles, cells with all "
                        "fixed/obstruction flag combinations, 8 orientations) up to scale 2^18. non-trivial = the obstacles change the row; distinct "
                        "= distinct case lines" % grid,
                "exhaustive": True, "grid_cases": ngrid, "kinds": kinds,
                "samples": [lines[ngrid // 2], lines[ngrid + 3], lines[-1]],
                "model_vs_impl_differences": len(mism), "impl_outputs_violating_statement": len(ofail)})
    return ctx.finish(LEVEL, cov, ["inverted rectangles (minX>maxX) are outside the domain (a placement of non-negative size is never inverted)",
                                   "model tied to the code by exact comparison on the cases of this run"])


def replay(ctx, path):
    r = json.load(open(path))["replay"]
    case = r.get("case") or r["first_difference"]["case"]
    harness = common.build_harness("freespace")
    driver = common.build_driver()
    impl, model, _ = common.run_both([harness, "run"], [driver], [case])
    print("case :", case)
    print("impl :", impl[0])
    print("model:", model[0])
    bad = (" # OK" not in impl[0]) or impl[0].rsplit(" # ", 1)[0].strip() != model[0].strip()
    return 1 if bad else 0
