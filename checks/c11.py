"""C11 -- legalization does not move an already legal single-row placement.
Proof: coq/Properties_C11.v (row fixpoint, zero cost at the own position, order key preserved for
ordering width in [0,1]).  Tie: Circuit::legalize applied twice on circuits whose movable cells are all
row-high (obstructions, split rows, polarities, efforts 1-9, ordering parameters over the accepted box,
scale up to 2^16): the second result must equal the first; both runs are compared exactly with the
extracted legalizer model fed with the implementation's cell order.
Known finding F10 (orderingWidth outside [0,1] is accepted and inverts cells of a row) is matched
narrowly: custom ordering width outside [0,1] AND the implementation's own order of the second run
inverts two movable cells that the first result placed in the same row segment."""
import json
from tools import common
from checks import legal_common as lc
from checks import c11_order

LEVEL = "proof"


def order_inverts_row(ctoks, pl, order):
    """does the cell order (indices into the movable cells) put a cell before another one that lies to its
    left in the same row (same y) of the legal placement pl?"""
    cells, _ = lc.cells_of(ctoks)
    mov = [i for i, c in enumerate(cells) if not c[6]]
    pos = {}
    for rank, ci in enumerate(int(x) for x in order[1:]):
        pos[ci] = rank
    for a in range(len(mov)):
        for b in range(len(mov)):
            ia, ib = mov[a], mov[b]
            if pl[3 * ia + 1] == pl[3 * ib + 1] and pl[3 * ia] < pl[3 * ib] and pos.get(a, 0) > pos.get(b, 0):
                return True
    return False


def evaluate(ctx, run):
    mism, ofail, nontriv, known = [], [], set(), 0
    for i, l in enumerate(run.lines):
        ctoks, params = lc.split_case(l)
        pr = run.parsed[i]
        for k in range(len(pr)):
            same, istr, mstr = run.model_cmp(i, k)
            if not same:
                mism.append((l, "run %d: %s" % (k + 1, istr), mstr))
        if len(pr) < 2 or pr[0][0] != "OK":
            continue
        nontriv.add(l)
        k1, pl1, _ = pr[0]
        k2, pl2, order2 = pr[1]
        moved = (k2 != "OK") or (pl2 != pl1)
        if moved:
            custom, ow10 = params[0], params[1]
            if custom and (ow10 < 0 or ow10 > 10) and order_inverts_row(ctoks, pl1, order2) and ctx.known_finding("F10"):   # the second run may also FAIL (full row, inverted cells no longer fit): same cause
                known += 1
                continue
            ofail.append((l, run.impl[i], "legalizing an already legal single-row placement moved a cell (second run: %s)" % k2))
    return mism, ofail, nontriv, known


def run(ctx):
    proof_ok, proof = common.proof_status(ctx, "C11")
    n = 4000 if ctx.quick else 400000
    s = ctx.seed
    # mode bits: 1 = row-high only + twice, 2 = no turned, 4 = magnitude, 8 = sparse
    plan = [(1, n // 2, s + 50), (1 | 4, n // 4, s + 51), (1 | 8, n // 8, s + 52), (1 | 2, n // 8, s + 53), (1 | 32, n // 4, s + 54), (1 | 32 | 4, n // 8, s + 55)]
    if not ctx.quick:
        plan += [(1, n // 2, s + 1050), (1 | 4, n // 2, s + 2050)]
    run = lc.LegalRun(ctx, plan).execute()
    mism, ofail, nontriv, known = evaluate(ctx, run)
    # tie of the CLOSED model (coq/CellOrder.v: computeCellOrder over Q + Legalizer::run with the computed order), see checks/c11_order.py
    ores = c11_order.run_order(ctx, 3000 if ctx.quick else 100000, s + 56)
    # tie of the BINARY32 model (coq/CellOrderFloat.v: cell_order_f / legalize_float evaluated inside Coq by vm_compute, non-dyadic parameters)
    fres = c11_order.float_tie(ctx, 100, s + 58)
    if not ctx.quick:
        for extra in (1, 2, 3):
            more = c11_order.float_tie(ctx, 100, s + 58 + 1000 * extra)
            for k, v in more.items():
                if isinstance(v, (int, list)) and not isinstance(v, bool):
                    fres[k] = fres[k] + v
    for l, i, why in ofail[:3]:
        ctx.violation("Circuit::legalize violates C11: " + why,
                      {"case": l, "format": "LG nrows (minX maxX minY maxY orient)* ncells (x y w h orient pol fixed obs)* custom ow10 oy10 oh10 effort twice",
                       "implementation_output": i, "why": why})
    if not ofail:
        if mism:
            ctx.violation("correspondence Legalizer.v <-> C++ broken (%d runs differ); no legal placement that legalization moves found" % len(mism),
                          {"broken": "correspondence of coq/Legalizer.v / RowLeg.v (theorems of Properties_C11.v)",
                           "first_difference": {"case": mism[0][0], "implementation": mism[0][1], "model": mism[0][2]}}, found_input=False)
        if not proof_ok:
            ctx.violation("proof obligations of Properties_C11.v do not check", {"broken": "Properties_C11.v", "detail": proof}, found_input=False)
        c11_order.report(ctx, ores)
        c11_order.report_float(ctx, fres)
    if fres.get("witness_tie_reproduced_on_cpp"):
        # the circuit-level witness of c11_float_order_refuted (orderingHeight = 8, row 2^20 - 1 high): the real computeCellOrder
        # breaks the tie of the two equal binary32 keys by index and Circuit::legalize moves the legal placement
        ctx.known_finding("F23")
    cov = dict(proof)
    cov.update({"trusted_base": common.TRUSTED_BASE + ["computeCellOrder is modelled twice: over exact rationals (coq/CellOrder.v) and in binary32 with Flocq (coq/CellOrderFloat.v: one correctly rounded IEEE-754 operation per C++ operator, double -> float and int -> float conversions; theorems c11_float_* / c11_legalize_float_order_* on |orderingHeight| <= 4, coordinates <= 2^20). Trusted for the binary32 model: the compiler emits one binary32 SSE operation per float operator (x86-64, no -ffast-math, no -mfma; compared bit-exactly through the resulting order on non-dyadic cases by float_tie), Flocq's formalisation of IEEE-754, the real-number axioms of Coq's standard library"],
                "evaluations": len(run.lines) + ores["runs"], "distinct_nontrivial": len(nontriv) + len(ores["nontrivial_lines"]),
                "closed_model_order_tie": c11_order.summary(ores),
                "binary32_model_tie": c11_order.float_summary(fres),
                "rule": "C01 generator restricted to row-high movable cells (polarities, obstructions, split rows, y gaps), utilisation 30-110% and a sparse "
                        "stream, scale up to 2^16, efforts 1-9, custom ordering parameters over the accepted box in half of the cases; each case legalized twice. "
                        "non-trivial = the first legalization succeeded (so the second one runs on a legal placement); distinct = distinct case lines. "
                        "Closed-model stream (OR lines, harness/order.cpp): general / row-high / tiled / sparse circuits, scale 1..2^9 (half), 2^10..2^16 (some), "
                        "copied cells for equal keys, ordering parameters as dyadic fractions (70 %) or tenths over the accepted box; non-trivial = binary32 key "
                        "evaluation exact and at least two movable cells",
                "distribution": lc.distribution(run), "known_F10_matches": known,
                "samples": [run.lines[0], run.lines[len(run.lines) // 2]] + ores["lines"][-1:],
                "model_vs_impl_differences": len(mism), "impl_outputs_violating_statement": len(ofail)})
    return ctx.finish(LEVEL, cov, ["whole-circuit idempotence is validated per case, its ingredients are proved (see Properties_C11.v)",
                                   "model tied to the code by exact comparison on the cases of this run"])


def replay(ctx, path):
    r = json.load(open(path))["replay"]
    case = r.get("case") or r["first_difference"]["case"]
    if case.startswith("OR "):
        return c11_order.replay_case(case)
    class R(lc.LegalRun):
        def __init__(self, ctx):
            self.ctx = ctx
            self.harness = common.build_harness("legal")
            self.driver = common.build_driver()
            self.lines = [case]
    run = R(ctx).execute()
    mism, ofail, _, known = evaluate(ctx, run)
    print("case :", case)
    print("impl :", run.impl[0])
    print("oracle:", [o[2] for o in ofail], "mismatch:", bool(mism), "known F10:", known)
    return 1 if (mism or ofail) else 0
