"""C11 -- legalization does not move an already legal single-row placement.
Proof: coq/Properties_C11.v: whole-circuit theorems for the closed models of the legalizer with the modelled computeCellOrder (rational and
binary32): a legal placement on admitted rows (polarity_admits) of a row-high design is not moved, for parameters in the box orderingWidth in
[0,1] (binary32: also |orderingY| <= 2, |orderingHeight| <= 4, coordinates <= 2^20); refuted outside the box (F10, F23).  Ingredients: row
fixpoint, zero cost at the own position, order key preserved for ordering width in [0,1].  Tie: Circuit::legalize applied twice on circuits whose movable cells are all
row-high (obstructions, split rows, polarities, efforts 1-9, ordering parameters over the accepted box,
scale up to 2^16): the second result must equal the first; both runs are compared exactly with the
extracted legalizer model fed with the implementation's cell order.
Known finding F10 (orderingWidth outside [0,1] is accepted and inverts cells of a row) is matched
narrowly: custom ordering width outside [0,1] AND the implementation's own order of the second run
inverts two movable cells that the first result placed in the same row segment.
Sequence stream (sequence_stream below; harness/circseq.cpp SP cases): ONE Circuit is legalized, edited through the public
setters so that its placement stays legal, and legalized again; whenever the public state before a legalize step is a legal
row-high placement (proved checker legalb) the call must succeed and move no cell -- on the object with its history."""
import json
from tools import common
from checks import legal_common as lc
from checks import c11_order
from checks import circuit_sequences as cs

LEVEL = "proof"

# ---- sequence stream: Circuit::legalize on an object WITH A HISTORY whose public state is a legal row-high placement ----
# (harness/circseq.cpp, SP cases, generator "r"; checks/circuit_sequences.py).  The hypotheses of c11_legalize_float_order_fixpoint
# (Properties_C11.v) are evaluated on the PUBLIC state the object has right before a legalize step: rowhigh_design (std_design of
# legal_common + every movable cell exactly one row high), legal (proved checker legalb, tag LC of the main driver), polarity_admits
# (a NW / SE cell stands on a row of a matching orientation), order_params_ok (orderingWidth in [0,1], |orderingY| <= 2,
# |orderingHeight| <= 4), coords_small (|x|, |y|, placed width, placed height of the movable cells < 2^20: the property's quantifier).
# Conclusion: the call returns normally and x, y of EVERY cell are what they were (orientations may become the prescribed ones).
SMALL = 1 << 20
NW_ROWS, SE_ROWS = (0, 4, 2, 6), (1, 5, 3, 7)      # cellOrientationInRow: NW admits N FN W FW, SE admits S FS E FE


def fixpoint_domain(state, args):
    """None when (state, legalize arguments) satisfies every hypothesis of the fixpoint theorem except `legal` (checked with legalb
    by the caller), else the reason"""
    d = lc.std_design(state)
    if d is not None:
        return d
    rows = lc.rows_of(state)
    cells, _ = lc.cells_of(state)
    mov = [c for c in cells if not c[6]]
    if not rows or not mov:
        return "no row or no movable cell"
    rh = rows[0][3] - rows[0][2]
    for c in mov:
        pw, ph = (c[3], c[2]) if c[4] in lc.TURNED else (c[2], c[3])
        if ph != rh:
            return "movable cell that is not exactly one row high"
        if max(abs(c[0]), abs(c[1]), pw, ph) >= SMALL:
            return "coordinate of a movable cell >= 2^20"
        if c[5] in (3, 4):
            for r in rows:
                if r[2] == c[1] and r[0] <= c[0] < r[1] and r[4] not in (NW_ROWS if c[5] == 3 else SE_ROWS):
                    return "cell with polarity NW / SE standing on a row its polarity does not admit"
    effort, custom, ow, oy, oh = args[:5]
    if custom and not (0 <= ow <= 10 and abs(oy) <= 20 and abs(oh) <= 40):
        return "ordering parameters outside orderingWidth in [0,1], |orderingY| <= 2, |orderingHeight| <= 4 (F10, F23)"
    return None


def sequence_stream(ctx, seed, count, extra_cases=(), gen="r"):
    precs, anomalies, stats = cs.run_placement_sequences(seed, count, extra_cases, gen=gen)
    res = {"stats": stats, "anomalies": anomalies, "moved": [], "legalize_steps": 0, "in_domain": 0, "legal_before": 0,
           "legal_before_with_history": 0, "legal_before_after_an_edit_following_a_stage": 0, "distinct": set(), "fresh_moved": 0,
           "cases": sorted(set(r.case for r in precs))[:2], "outside": {}}
    driver = common.build_driver()
    cand, linp = [], []
    seen, edited = {}, {}
    for r in precs:
        first = r.case not in seen
        hist = (not first) and r.step > seen[r.case] + 1        # an earlier placement call AND at least one step in between
        seen[r.case] = r.step
        if r.op != 16:
            continue
        res["legalize_steps"] += 1
        why = fixpoint_domain(r.state, r.args)
        if why is not None:
            res["outside"][why[:60]] = res["outside"].get(why[:60], 0) + 1
            continue
        res["in_domain"] += 1
        cells, _ = lc.cells_of(r.state)
        orig = [v for c in cells for v in (c[0], c[1], c[4])]
        cand.append((r, orig, not first, hist))
        linp.append("LC " + " ".join(r.state) + " " + " ".join(str(v) for v in orig))
    lout, _, _ = common.run_both([driver], None, linp)
    for (r, orig, later, hist), o in zip(cand, lout):
        if o.split()[:1] != ["1"]:
            continue
        res["legal_before"] += 1
        res["legal_before_with_history"] += later
        res["legal_before_after_an_edit_following_a_stage"] += hist
        res["distinct"].add((" ".join(r.state), tuple(r.args)))
        for who, out in (("the object with its history", r.mine), ("a fresh circuit with the same public state", r.fresh)):
            kind, pl = lc.parse_outcome(out)
            xy = lambda v: [t for i, t in enumerate(v) if i % 3 != 2]
            if kind != "OK" or pl is None or xy(pl) != xy(orig):
                if who.startswith("a fresh"):
                    res["fresh_moved"] += 1
                    if any(m[0] is r for m in res["moved"]):
                        continue
                res["moved"].append((r, "Circuit::legalize called on %s, whose public state is a legal placement of a row-high design, %s"
                                     % (who, "moved a cell" if kind == "OK" else "failed (%s)" % kind)))
    return res


def seq_detail(r, why):
    return {"case": r.case, "format": "see harness/circseq.cpp header (SP)", "after_step": r.step, "steps_so_far": cs.steps_text(r.case, r.step),
            "public_state_before_the_call (legal, legalb = true)": "LG " + " ".join(r.state), "legalize_arguments (effort custom ow10 oy10 oh10)": r.args,
            "implementation_output": r.mine, "fresh_circuit_with_the_same_state": r.fresh, "why": why}


def seq_summary(res):
    d = dict(res["stats"])
    d.update({k: res[k] for k in ("legalize_steps", "in_domain", "legal_before", "legal_before_with_history",
                                  "legal_before_after_an_edit_following_a_stage", "fresh_moved", "outside")})
    d.update({"distinct_legal_states_legalized": len(res["distinct"]), "moved_or_failed": len(res["moved"]), "steps_not_run_through": len(res["anomalies"])})
    return d


def order_inverts_row(ctoks, pl, order):
    """does the cell order (indices into the movable cells) put a cell before another one that lies to its
    left in the same row (same y) of the legal placement pl?"""
    cells, _ = lc.cells_of(ctoks)
    mov = [i for i, c in enumerate(cells) if not c[6]]
    pos = {}
    for rank, ci in enumerate(int(x) for x in order[1:]):
        pos[ci] = rank
    for a in range(len(mov)):
        for b in range(len(mov)):
            ia, ib = mov[a], mov[b]
            if pl[3 * ia + 1] == pl[3 * ib + 1] and pl[3 * ia] < pl[3 * ib] and pos.get(a, 0) > pos.get(b, 0):
                return True
    return False


def evaluate(ctx, run):
    mism, ofail, nontriv, known = [], [], set(), 0
    for i, l in enumerate(run.lines):
        ctoks, params = lc.split_case(l)
        pr = run.parsed[i]
        for k in range(len(pr)):
            same, istr, mstr = run.model_cmp(i, k)
            if not same:
                mism.append((l, "run %d: %s" % (k + 1, istr), mstr))
        if len(pr) < 2 or pr[0][0] != "OK":
            continue
        nontriv.add(l)
        k1, pl1, _ = pr[0]
        k2, pl2, order2 = pr[1]
        moved = (k2 != "OK") or (pl2 != pl1)
        if moved:
            custom, ow10 = params[0], params[1]
            if custom and (ow10 < 0 or ow10 > 10) and order_inverts_row(ctoks, pl1, order2) and ctx.known_finding("F10"):   # the second run may also FAIL (full row, inverted cells no longer fit): same cause
                known += 1
                continue
            ofail.append((l, run.impl[i], "legalizing an already legal single-row placement moved a cell (second run: %s)" % k2))
    return mism, ofail, nontriv, known


def run(ctx):
    proof_ok, proof = common.proof_status(ctx, "C11")
    n = 4000 if ctx.quick else 400000
    s = ctx.seed
    # mode bits: 1 = row-high only + twice, 2 = no turned, 4 = magnitude, 8 = sparse
    plan = [(1, n // 2, s + 50), (1 | 4, n // 4, s + 51), (1 | 8, n // 8, s + 52), (1 | 2, n // 8, s + 53), (1 | 32, n // 4, s + 54), (1 | 32 | 4, n // 8, s + 55)]
    if not ctx.quick:
        plan += [(1, n // 2, s + 1050), (1 | 4, n // 2, s + 2050)]
    run = lc.LegalRun(ctx, plan).execute()
    mism, ofail, nontriv, known = evaluate(ctx, run)
    # tie of the CLOSED model (coq/CellOrder.v: computeCellOrder over Q + Legalizer::run with the computed order), see checks/c11_order.py
    ores = c11_order.run_order(ctx, 3000 if ctx.quick else 100000, s + 56)
    # tie of the BINARY32 model (coq/CellOrderFloat.v: cell_order_f / legalize_float evaluated inside Coq by vm_compute, non-dyadic parameters)
    fres = c11_order.float_tie(ctx, 100, s + 58)
    if not ctx.quick:
        for extra in (1, 2, 3):
            more = c11_order.float_tie(ctx, 100, s + 58 + 1000 * extra)
            for k, v in more.items():
                if isinstance(v, (int, list)) and not isinstance(v, bool):
                    fres[k] = fres[k] + v
    # sequence stream: legalize on ONE object between public edits, whenever its public state is a legal row-high placement
    seqs = [sequence_stream(ctx, s + 60, 1500 if ctx.quick else 60000, common.corpus("C11", ("SP ",)), gen="r"),
            sequence_stream(ctx, s + 61, 1000 if ctx.quick else 40000, gen="p")]
    seq_moved = [m for q in seqs for m in q["moved"]]
    seq_anom = [a for q in seqs for a in q["anomalies"]]
    for r, why in seq_moved[:3]:
        ctx.violation("Circuit::legalize violates C11 inside a sequence of public edits and placement calls on one Circuit: " + why, seq_detail(r, why))
    if not seq_moved:
        for case, text in seq_anom[:3]:
            ctx.violation("a sequence of public edits and legalize calls did not run through: " + text[:200],
                          {"case": case, "format": "see harness/circseq.cpp header (SP)", "implementation_output": text[:400], "why": text[:200]}, found_input=False)
    for l, i, why in ofail[:3]:
        ctx.violation("Circuit::legalize violates C11: " + why,
                      {"case": l, "format": "LG nrows (minX maxX minY maxY orient)* ncells (x y w h orient pol fixed obs)* custom ow10 oy10 oh10 effort twice",
                       "implementation_output": i, "why": why})
    if not ofail:
        if mism:
            ctx.violation("correspondence Legalizer.v <-> C++ broken (%d runs differ); no legal placement that legalization moves found" % len(mism),
                          {"broken": "correspondence of coq/Legalizer.v / RowLeg.v (theorems of Properties_C11.v)",
                           "first_difference": {"case": mism[0][0], "implementation": mism[0][1], "model": mism[0][2]}}, found_input=False)
        if not proof_ok:
            ctx.violation("proof obligations of Properties_C11.v do not check", {"broken": "Properties_C11.v", "detail": proof}, found_input=False)
        c11_order.report(ctx, ores)
        c11_order.report_float(ctx, fres)
    if fres.get("witness_tie_reproduced_on_cpp"):
        # the circuit-level witness of c11_float_order_refuted (orderingHeight = 8, row 2^20 - 1 high): the real computeCellOrder
        # breaks the tie of the two equal binary32 keys by index and Circuit::legalize moves the legal placement
        ctx.known_finding("F23")
    cov = dict(proof)
    cov.update({"trusted_base": common.TRUSTED_BASE + ["computeCellOrder is modelled twice: over exact rationals (coq/CellOrder.v) and in binary32 with Flocq (coq/CellOrderFloat.v: one correctly rounded IEEE-754 operation per C++ operator, double -> float and int -> float conversions; theorems c11_float_* / c11_legalize_float_order_* on |orderingHeight| <= 4, coordinates <= 2^20). Trusted for the binary32 model: the compiler emits one binary32 SSE operation per float operator (x86-64, no -ffast-math, no -mfma; compared bit-exactly through the resulting order on non-dyadic cases by float_tie), Flocq's formalisation of IEEE-754, the real-number axioms of Coq's standard library"],
                "evaluations": len(run.lines) + ores["runs"] + sum(q["legalize_steps"] for q in seqs),
                "distinct_nontrivial": len(nontriv) + len(ores["nontrivial_lines"]) + sum(len(q["distinct"]) for q in seqs),
                "closed_model_order_tie": c11_order.summary(ores),
                "sequence_stream": {"legal_rowhigh_generator (gen r)": seq_summary(seqs[0]), "general_generator (gen p, as C01)": seq_summary(seqs[1])},
                "binary32_model_tie": c11_order.float_summary(fres),
                "rule": "C01 generator restricted to row-high movable cells (polarities, obstructions, split rows, y gaps), utilisation 30-110% and a sparse "
                        "stream, scale up to 2^16, efforts 1-9, custom ordering parameters over the accepted box in half of the cases; each case legalized twice. "
                        "non-trivial = the first legalization succeeded (so the second one runs on a legal placement); distinct = distinct case lines. "
                        "Closed-model stream (OR lines, harness/order.cpp): general / row-high / tiled / sparse circuits, scale 1..2^9 (half), 2^10..2^16 (some), "
                        "copied cells for equal keys, ordering parameters as dyadic fractions (70 %) or tenths over the accepted box; non-trivial = binary32 key "
                        "evaluation exact and at least two movable cells. "
                        "Sequence stream (SP lines, harness/circseq.cpp): ONE Circuit is legalized, edited through the public setters and legalized again "
                        "(4-10 steps); generator r: a legal placement of a row-high design (1-4 rows, split pieces, 1-8 movable cells, polarities, turned "
                        "cells without polarity, 0-3 fixed cells among them obstructions inside the rows, scale 1 or 2^1..2^13; 25 % start perturbed) whose "
                        "edits are filtered by the generator's shadow state so that the placement stays legal: a fixed obstruction moved away / onto free "
                        "space and a cell put on the vacated area (one setSolution, two setSolution calls, or setCellX + setCellY + setSolution), a cell "
                        "moved into a free stretch, cells swapped, fixed <-> movable, obstruction flags, rows extended / shrunk / added / dropped, widths "
                        "shrunk, orientations, nets, copy assignment, placeDetailed, computeRows / hpwl / report queries in between, 2 % wild edits; "
                        "generator p: the general sequences of C01. Every legalize step is judged on the PUBLIC state dumped right before the call: when "
                        "it satisfies the hypotheses of c11_legalize_float_order_fixpoint (std_design, every movable cell one row high, coordinates < 2^20, "
                        "NW / SE cells on admitting rows, orderingWidth in [0,1], |orderingY| <= 2, |orderingHeight| <= 4, legalb = true by the extracted "
                        "checker) the call on the object with its history (and on a fresh circuit) must succeed with x, y of every cell unchanged; "
                        "non-trivial = such a legal before-state; distinct = distinct (state, legalize arguments)",
                "distribution": lc.distribution(run), "known_F10_matches": known,
                "samples": [run.lines[0], run.lines[len(run.lines) // 2]] + ores["lines"][-1:] + seqs[0]["cases"][:1],
                "model_vs_impl_differences": len(mism), "impl_outputs_violating_statement": len(ofail) + len(seq_moved)})
    return ctx.finish(LEVEL, cov, ["whole-circuit idempotence is PROVED for the closed models (c11_legalize_real_order_fixpoint / c11_legalize_float_order_fixpoint, _idempotent, _twice) on the parameter box and under polarity_admits, refuted outside the box (F10, F23); it is also validated per case",
                                   "legalize steps of the sequence stream whose state is outside the hypotheses (parameters outside the box, a polarised cell on a forbidden row) are not judged; the main stream whitelists F10 only, F23 is replayed on its corpus witness and not searched for",
                                   "the binary32 model is tied bit for bit on 100 cases per run (400 thorough)",
                                   "model tied to the code by exact comparison on the cases of this run"])


def replay(ctx, path):
    r = json.load(open(path))["replay"]
    case = r.get("case") or r["first_difference"]["case"]
    if case.startswith("OR "):
        return c11_order.replay_case(case)
    if case.startswith("SP "):
        res = sequence_stream(ctx, 0, 0, [case])
        print("case :", case)
        for t in cs.steps_text(case):
            print("  step", t)
        for c, text in res["anomalies"]:
            print("NOT RUN THROUGH:", text[:300])
        for rec, why in res["moved"]:
            print("after step %d: legal state LG %s\n  object with history: %s\n  fresh circuit      : %s\n  %s" % (rec.step, " ".join(rec.state), rec.mine, rec.fresh, why))
        print("legalize steps: %d, on a legal row-high state: %d, moved / failed: %d" % (res["legalize_steps"], res["legal_before"], len(res["moved"])))
        return 1 if res["moved"] or res["anomalies"] else 0
    class R(lc.LegalRun):
        def __init__(self, ctx):
            self.ctx = ctx
            self.harness = common.build_harness("legal")
            self.driver = common.build_driver()
            self.lines = [case]
    run = R(ctx).execute()
    mism, ofail, _, known = evaluate(ctx, run)
    print("case :", case)
    print("impl :", run.impl[0])
    print("oracle:", [o[2] for o in ofail], "mismatch:", bool(mism), "known F10:", known)
    return 1 if (mism or ofail) else 0
