"""C01 -- legalization returns a legal placement or fails loudly.
Proof: coq/Properties_C01.v.  Tie: exact diff (outcome kind + every coordinate/orientation) of
Circuit::legalize against the extracted Tetris+Abacus+RowLeg+FreeSpace model fed with the
implementation's cell order; the proved checker legalb on the implementation's result; the
trivial-success and failure-leaves-placement clauses evaluated on the implementation's output."""
import json
from tools import common
from checks import legal_common as lc
from checks import c01_sequences

LEVEL = "proof"


def evaluate(ctx, run):
    """every run of every case is judged: run 0 on the case's circuit, run 1 (the second legalize of a 'twice' case, on the SAME Circuit
    object) on the case's circuit with the placement the first run returned"""
    mism, ofail = [], []
    nontriv = set()
    run.second_runs_judged = 0
    for i, l in enumerate(run.lines):
        ctoks, params = lc.split_case(l)
        cells, _ = lc.cells_of(ctoks)
        orig = [v for c in cells for v in (c[0], c[1], c[4])]
        for k, (kind, pl, order) in enumerate(run.parsed[i]):
            tag = "" if k == 0 else "[second legalize of the same Circuit, run %d] " % k
            run.second_runs_judged += k > 0
            same, istr, mstr = run.model_cmp(i, k)
            if not same:
                mism.append((l, tag + istr, mstr))
            flags = run.checks.get((i, k))
            mflags = run.model_flags(i, k)
            if kind == "OK":
                if flags is None or flags[0] != "1":
                    ofail.append((l, run.impl[i], tag + "legalize returned normally but the placement is not legal (proved checker legalb = false)"))
                if pl != orig and k == 0:
                    nontriv.add(l)
            elif kind in ("NOROW", "NOTALL") or kind.startswith("THROW"):
                if pl is not None and pl != orig:
                    ofail.append((l, run.impl[i], tag + "legalize raised an error but left a modified placement"))
                triv = flags[2] if flags else mflags[2]
                if triv == "1":
                    ofail.append((l, run.impl[i], tag + "legalize failed (%s) although success is trivial (row-high cells without polarity, total width <= free width - one max width per segment)" % kind))
                if kind.startswith("THROW"):
                    ofail.append((l, run.impl[i], tag + "unexpected exception: " + kind))
            else:
                ofail.append((l, run.impl[i], tag + "no outcome (abort/crash): " + kind))
            if pl is None or len(pl) != len(orig):
                break
            orig = pl       # the next run starts from this placement
    return mism, ofail, nontriv


def run(ctx):
    proof_ok, proof = common.proof_status_all(ctx, "C01", ["gaps1", "C01_checks"])
    n = 4000 if ctx.quick else 400000
    s = ctx.seed
    plan = [(0, n // 2, s), (8, n // 4, s + 1), (2, n // 8, s + 2), (4, n // 8, s + 3), (32, n // 8, s + 4), (64, n // 4, s + 5),
            (1, n // 8, s + 6), (1 | 4, n // 16, s + 7)]     # bit 1: legalize TWICE on the same Circuit (row-high cells): both runs are judged
    if not ctx.quick:
        plan += [(0, n // 2, s + 1000), (0, n // 2, s + 2000), (64, n // 4, s + 1005)]
    run = lc.LegalRun(ctx, plan).execute()
    mism, ofail, nontriv = evaluate(ctx, run)
    # sequence stream: ONE Circuit legalized, edited through the public setters (fixed obstructions moved, flags, rows ...) and legalized
    # again / placeDetailed; the statement on every result + the same call on a freshly built circuit with the same public state
    seqs = c01_sequences.run_stage_sequences(s + 91, 2500 if ctx.quick else 120000, common.corpus("C01", ("SP ",)))
    seq_bad = c01_sequences.report(ctx, seqs)
    for l, i, why in ofail[:3]:
        ctx.violation("Circuit::legalize violates C01: " + why,
                      {"case": l, "format": "LG nrows (minX maxX minY maxY orient)* ncells (x y w h orient pol fixed obs)* custom ow10 oy10 oh10 effort twice",
                       "implementation_output": i, "why": why})
    if not ofail and not seq_bad:
        if mism:
            ctx.violation("correspondence Legalizer.v <-> legalizer/tetris/abacus .cpp broken (%d of %d cases differ); no circuit violating C01 found"
                          % (len(mism), len(run.lines)),
                          {"broken": "correspondence of coq/Legalizer.v (theorems of Properties_C01.v)",
                           "first_difference": {"case": mism[0][0], "implementation": mism[0][1], "model": mism[0][2]}}, found_input=False)
        if not proof_ok:
            ctx.violation("proof obligations of Properties_C01.v do not check", {"broken": "Properties_C01.v", "detail": proof}, found_input=False)
    # the CLOSED model (order computed by CellOrder.cell_order): exact tie with the real computeCellOrder (tag OR)
    from checks import c11_order
    ores = c11_order.run_order(ctx, 3000 if ctx.quick else 100000, ctx.seed + 57, corpus_prop="C01")
    if not ofail and not seq_bad:
        c11_order.report(ctx, ores)
    # the internal consistency tests (LegalizerBase::check, AbacusLegalizer::check, export size test): model functions vs the C++ check()
    # on the states the library reaches and on corrupted copies (coq/InternalChecks.v, Properties_C01_checks.v)
    from checks import internal_checks
    ick = internal_checks.run_ichecks(ctx, 1200 if ctx.quick else 60000, 0, ctx.seed + 71)
    internal_checks.report(ctx, ick)
    cov = dict(proof)
    cov.update(internal_checks.summary(ick))
    dist = lc.distribution(run)
    cov.update({"closed_model_order_tie": c11_order.summary(ores),
                "trusted_base": common.TRUSTED_BASE + ["computeCellOrder: the order-parametric theorems hold for every order (the model is run with the implementation's order); the closed-model theorems "
                                                        "(c01_legalize_real_*) use the rational model of the key, tied exactly where the binary32 evaluation is exact (tag OR)"],
                "evaluations": len(run.lines) + seqs["in_domain_calls"], "distinct_nontrivial": len(nontriv),
                "sequence_stream": c01_sequences.summary(seqs),
                "rule": "seeded random circuits: 1-6 rows (split segments, y gaps, N/S/FN/FS patterns, shuffled), 1-12 cells (1-3 rows high, 8 orientations for "
                        "polarity-free cells, all polarities, fixed cells of any size with both obstruction flags), targets inside/near/far, utilisation 30-110%, "
                        "efforts 1-9, ordering parameters over the accepted box; streams: general, trivially-feasible, no-turned, magnitude (scale 2^4..2^16), "
                        "exactly tiled rows, and SEAMS: 2-5 rows each given in 2-4 pieces that abut exactly (70 %) or with a gap of 1, the same cuts in "
                        "every row (70 %) or cuts per row, 2-5 multi-row cells (2-3 rows high, 1-4 wide) whose targets are at / one left of / one "
                        "right of a seam (left edge at the start of a piece) or at seam - width +-1 (right edge at the end of a piece), 80 % of them "
                        "around one seam so that they stack, + 0-4 row-high cells, optional fixed obstruction. "
                        "non-trivial = legalize returned and moved at least one cell; distinct = distinct case lines. "
                        "sequence_stream (tag SP, harness/circseq.cpp): one Circuit of the same domain (up to 9 cells, 0-4 nets, scale up to 2^16, a fixed "
                        "obstruction inside the rows in 60 %) and 3-9 steps: legalize(params) (first step in 70 %, always the last step), "
                        "placeDetailed(params), setSolution / setCellX / setCellY (60 % on a FIXED cell when there is one), setCellIsFixed / "
                        "setCellIsObstruction (set, clear, toggle), setRows (edit a row's x range/orientation, drop/add a row), setupRows (about 9 % of the steps: the "
                        "bounding box of the rows, the area of an earlier setupRows again with the other initial / alternating orientation, areas shrunk / grown / "
                        "shifted by up to 2 sites and one row, half / double row height), setCellWidth/Height/"
                        "Orientation, addNet, copy assignment, with computeRows/hpwl/report queries between the steps; every legalize/placeDetailed "
                        "call is judged on the public state right before it (legalb on a normal return when that state is in the python reading of std_design -- narrower than Coq's: no inverted rows, no UNKNOWN/INVALID row orientation; other states are not judged --, "
                        "a failure leaves the placement, no failure when trivially feasible) and repeated on a circuit built from scratch with "
                        "that state (same outcome, same placement)",
                "distribution": dist,
                "samples": [run.lines[0], run.lines[len(run.lines) // 2]],
                "model_vs_impl_differences": len(mism) + len(seqs["differ"]), "impl_outputs_violating_statement": len(ofail) + seq_bad})
    return ctx.finish(LEVEL, cov, ["model tied to the code by exact comparison on the cases of this run",
                                   "legality of the raw model's result is PROVED on std_design for every cell order (c01_legalize_circuit_legal / c01_legalize_real_legal); outside std_design it is only validated per case by the proved checker legalb",
                                   "'a failure leaves the placement' holds by construction of the model (circuit_after) and is validated per case; exceptions other than NoRow/NotAllPlaced are not modelled, every such exception is reported as 'unexpected exception'",
                                   "the model computes in unbounded Z; generated coordinates stay within about 2^16, no magnitude hypothesis is proved for C01",
                                   "'legalize twice' cases: BOTH runs are compared with the model and judged (legalb, failure leaves the placement, trivial success); second runs judged in this run: %d" % run.second_runs_judged])


def replay(ctx, path):
    r = json.load(open(path))["replay"]
    case = r.get("case") or r["first_difference"]["case"]
    if case.startswith("OR "):
        from checks import c11_order
        return c11_order.replay_case(case)
    if case.startswith("SP "):
        return c01_sequences.replay_case(case)
    class R(lc.LegalRun):
        def __init__(self, ctx):
            self.ctx = ctx
            self.harness = common.build_harness("legal")
            self.driver = common.build_driver()
            self.lines = [case]
    run = R(ctx).execute()
    mism, ofail, _ = evaluate(ctx, run)
    print("case :", case)
    print("impl :", run.impl[0])
    print("model:", run.model.get((0, 0)), "|| second run:", run.model.get((0, 1)))
    print("checkers on impl result (legalb orient_okb trivially_feasible):", run.checks.get((0, 0)), "|| second run:", run.checks.get((0, 1)))
    print("oracle:", [o[2] for o in ofail], "mismatch:", bool(mism))
    return 1 if (mism or ofail) else 0
