"""shared by C02 / C05: direct drive of DetailedPlacer (harness/dopt.cpp) -- every sequence of optimiser
passes and single best-move calls with arbitrary window arguments -- compared with the model:
 * bestSwap / bestInsert / bestSwapUpdate: EXACT (decision and value after) against Optimiser.v fed with the
   implementation's own candidate positions (model case 'OP'),
 * every op incl. the passes: value() equals the from-scratch wirelength of the exported placement with the
   orientation frozen at construction (model 'HP'), value never increases, the exported placement is
   legal (proved checker legalb, model 'LC'), DetailedPlacer::check() passes, nothing throws,
 * every call of runShiftsOnCells made by a driven shift op (ops 5 and 7), when /repo carries the hook
   coloquinte_verif_shift_hook: the min-cost-flow network the C++ built equals ShiftLp.shift_net on the state before the
   call (multisets of labelled arcs, supplies), the extracted PROVED certificate checker ShiftLp.shift_cert_ok accepts
   lemon's potentials and arc flows, and the positions written are potential(cell) - potential(fixed) (model 'SL',
   ocaml/driver_shift.ml).  Without the hook commit no record is produced and res["lp"]["records"] == 0."""
from tools import common
from checks import legal_common as lc

_cache = {}


def split_do(line):
    """'DO <rows> <cells> <nets> nops ops' -> (circuit tokens rows+cells, net tokens)"""
    t = line.split()[1:]
    nr = int(t[0]); p = 1 + 5 * nr
    nc = int(t[p]); p += 1 + 8 * nc
    ctoks = t[:p]
    q = p
    nn = int(t[q]); q += 1
    for _ in range(nn):
        d = int(t[q]); q += 1 + 3 * d + 1
    return ctoks, t[p:q]


def op_types(line):
    """types of the ops of a DO case line (see harness/dopt.cpp), with their int arguments"""
    t = line.split()[1:]
    ctoks, ntoks = split_do(line)
    q = len(ctoks) + len(ntoks)
    nops = int(t[q]); q += 1
    out = []
    for _ in range(nops):
        ty = int(t[q])
        if ty == 0:
            ln = 3 + int(t[q + 2])
        elif ty == 1:
            ln = 4 + int(t[q + 3])
        elif ty == 2:
            ln = 4
        elif ty <= 6:
            ln = 3
        else:
            ln = 2 + int(t[q + 1])
        out.append((ty, [int(x) for x in t[q + 1:q + ln]]))
        q += ln
    return out


def nets_for_hp(ntoks):
    """drop the weights: 'nn (d (c xo yo)*d w2)*' -> 'nn (d (c xo yo)*d)*'"""
    out = [ntoks[0]]; q = 1
    for _ in range(int(ntoks[0])):
        d = int(ntoks[q]); out += ntoks[q:q + 1 + 3 * d]; q += 1 + 3 * d + 1
    return out


def net_weight_codes(ntoks):
    """'nn (d (c xo yo)*d w2)*' -> [w2]   (w2 >= 0: weight w2/2, 0 = weight zero; w2 < 0: weight 2^w2; harness/cgen.hpp)"""
    out = []; q = 1
    for _ in range(int(ntoks[0])):
        d = int(ntoks[q]); q += 1 + 3 * d + 1
        out.append(int(ntoks[q - 1]))
    return out


def weight_summary(netlists):
    ws = [net_weight_codes(n) for n in netlists]
    return {"circuits_with_a_net_of_weight_0": sum(1 for w in ws if 0 in w), "nets_of_weight_0": sum(w.count(0) for w in ws),
            "circuits_with_a_net_of_tiny_weight_2^-1..2^-140": sum(1 for w in ws if any(x < 0 for x in w)),
            "nets_of_tiny_weight": sum(sum(1 for x in w if x < 0) for w in ws),
            "of_which_denormal_below_2^-126": sum(sum(1 for x in w if x < -126) for w in ws), "nets": sum(len(w) for w in ws)}


def hp_case(cells, pl, frozen_o, ntoks):
    """HP case with positions from pl (x y o triples) and orientation from frozen_o"""
    parts = [str(len(cells))]
    for i, c in enumerate(cells):
        parts += [str(pl[3 * i]), str(pl[3 * i + 1]), str(c[2]), str(c[3]), str(frozen_o[i])]
    return " ".join(parts + nets_for_hp(ntoks))


def run_dopt(ctx, count, seed, modes=(0, 16)):
    key = (count, seed, tuple(modes))
    if key in _cache:
        return _cache[key]
    harness = common.build_harness("dopt")
    driver = common.build_driver()
    lines = common.corpus(ctx.prop, ("DO ",))
    for m in modes:
        lines += common.harness_gen(harness, ["rand", seed + m, count // len(modes), m])
    # stress streams (checks/stress_streams.py): circuits TRANSLATED to 2^24 + odd .. +-(2^30 - small) in x and / or y (no shift op:
    # lemon is never driven there) and designed wide rows driven with reordering windows of 6..8 cells (up to 8! orderings per window)
    from checks import stress_streams as ss
    sbig, swide, sinfo = ss.extra_lines(harness, "DO", seed, count // 10, max(4, count // 500), ["rand", seed + 977, count // 5, 0])
    lines += sbig + swide
    impl, _, _ = common.run_both([harness, "run"], None, lines, chunk=300, timeout=300)
    res = {"runs": len(lines), "stress_streams": sinfo, "ops": 0, "best_ops": 0, "pass_ops": 0, "accepted": 0, "noleg": 0, "nontrivial": set(),
           "model_mismatch": [], "value_fail": [], "mono_fail": [], "legal_fail": [], "check_fail": [], "throw_fail": [], "crash": [],
           "lines": lines, "impl": impl, "op_kinds": {},
           # the 2^31 streams: runs whose optimised value is >= 2^31 at construction; reordering ops (type 6 with maxNbCells >= 2, type 8
           # with >= 2 cells) executed on them; how many of those changed the placement
           "runs_value_ge_2p31": 0, "runs_value_ge_2p32": 0, "reordering_ops_at_value_ge_2p31": 0, "reordering_ops_at_value_ge_2p31_changing_placement": 0}
    minp, mmap = [], []     # OP model cases
    hinp, hmap = [], []     # HP frozen-orientation wirelength
    linp, lmap = [], []     # LC legality
    sinp, smap = [], []     # SH shift constraints
    pinp, pmap = [], []     # SL shift-pass linear programmes (one per runShiftsOnCells call, from the hook)
    for i, (l, out) in enumerate(zip(lines, impl)):
        if out.strip() == "NOLEG":
            res["noleg"] += 1
            continue
        ctoks, ntoks = split_do(l)
        cells, _ = lc.cells_of(ctoks)
        segs = [s.strip() for s in out.split(" / ")]
        if not segs or not segs[0].startswith("INIT"):
            res["crash"].append((l, out[-300:], "no outcome (abort/crash): " + out[:80]))
            continue
        h = segs[0][4:].split(";")
        v0 = int(h[0]); pl0 = [int(x) for x in h[1].split()]
        frozen = [pl0[3 * k + 2] for k in range(len(cells))]
        hinp.append("HP " + hp_case(cells, pl0, frozen, ntoks)); hmap.append((i, -1, v0))
        prev_v, prev_pl = v0, pl0
        big_ops = None
        if v0 >= 2 ** 31:
            res["runs_value_ge_2p31"] += 1
            res["runs_value_ge_2p32"] += v0 >= 2 ** 32
            big_ops = op_types(l)
        run_ops, run_expect, run_start = [], [], None
        def flush():
            if run_ops:
                minp.append("OP " + hp_case(cells, run_start, frozen, ntoks) + " %d " % len(run_ops) + " ".join(run_ops))
                mmap.append((i, list(run_expect)))
                run_ops.clear(); run_expect.clear()
        k = -1
        for s in segs[1:]:
            if s.startswith("L "):
                pinp.append("SL " + s[2:]); pmap.append((i, k))
                continue
            k += 1
            if s == "SKIP":
                continue
            if s.startswith("THROW") or s in ("ABORT", "SEGV", "FPE", "SIGNAL") or s.startswith("DIED"):
                res["throw_fail"].append((l, s[:200], "optimiser op %d did not complete: %s" % (k, s[:120])))
                break
            parts = [x.strip() for x in s.split(";")]
            res["ops"] += 1
            if parts[0].startswith("B"):
                found = int(parts[0].split()[1]); cand = parts[1]; v = int(parts[2]); pl = [int(x) for x in parts[3].split()]; ck = parts[4]
                if not run_ops:
                    run_start = prev_pl
                run_ops.append(cand); run_expect.append((v, found, k))
                res["best_ops"] += 1; res["accepted"] += found
                kind = "best"
            else:
                v = int(parts[1]); pl = [int(x) for x in parts[2].split()]; ck = parts[3]
                flush()
                res["pass_ops"] += 1
                kind = "pass"
                if parts[0].startswith("S "):
                    # runShiftsOnCells: row structure before | selected cells with their new x
                    kind = "shift"
                    dump, sel = parts[0][2:].split("|")
                    sinp.append("SH " + dump.strip() + " " + sel.strip()); smap.append((i, k, sel.split()))
            res["op_kinds"][kind] = res["op_kinds"].get(kind, 0) + 1
            if ck != "ok":
                res["check_fail"].append((l, s[-200:], "DetailedPlacer::check() fails after op %d: %s" % (k, ck)))
            if v > prev_v:
                res["mono_fail"].append((l, s[-200:], "the optimised wirelength value rose from %d to %d at op %d" % (prev_v, v, k)))
            if big_ops is not None and k < len(big_ops) and ((big_ops[k][0] == 6 and big_ops[k][1][1] >= 2) or (big_ops[k][0] == 8 and big_ops[k][1][0] >= 2)):
                res["reordering_ops_at_value_ge_2p31"] += 1
                res["reordering_ops_at_value_ge_2p31_changing_placement"] += pl != prev_pl
            if pl != prev_pl:
                res["nontrivial"].add(l)
            hinp.append("HP " + hp_case(cells, pl, frozen, ntoks)); hmap.append((i, k, v))
            linp.append("LC " + " ".join(ctoks) + " " + " ".join(str(x) for x in pl)); lmap.append((i, k))
            prev_v, prev_pl = v, pl
        flush()
    mout, _, _ = common.run_both([driver], None, minp)
    hout, _, _ = common.run_both([driver], None, hinp)
    lout, _, _ = common.run_both([driver], None, linp)
    sout, _, _ = common.run_both([driver], None, sinp)
    res["lp"] = lp_eval(pinp, pmap, lines)
    res["shift_fail"] = []; res["shifts_checked"] = len(sinp); res["shifts_moving"] = 0
    for (i, k, sel), o in zip(smap, sout):
        ok = o.split("|")[0].strip()
        if ok != "1":
            res["shift_fail"].append((lines[i], "op %d: selected cells/new x: %s" % (k, " ".join(sel)),
                                      "the positions written by runShiftsOnCells violate the ordering/boundary constraints of the flow problem (proved guard shift_ok = false)"))
    for (i, expect), o in zip(mmap, mout):
        got = o.split("|")[1].split() if "|" in o else []
        want = [str(x) for e in expect for x in (e[0], e[1])]
        if got != want:
            res["model_mismatch"].append((lines[i], " ".join(want), o))
    for (i, k, v), o in zip(hmap, hout):
        if o.strip() != str(v):
            res["value_fail"].append((lines[i], "op %d: value() = %d, from-scratch = %s" % (k, v, o.strip()),
                                      "DetailedPlacer::value() differs from the from-scratch wirelength of the placement it holds (pin offsets as at construction)"))
    for (i, k), o in zip(lmap, lout):
        f = o.split()
        if not f or f[0] != "1":
            res["legal_fail"].append((lines[i], "op %d" % k, "the placement held after optimiser op %d is not legal (proved checker legalb = false)" % k))
    res["nontrivial"] = len(res["nontrivial"])
    _cache[key] = res
    return res


def lp_eval(pinp, pmap, lines):
    """runs the shift-LP model driver on the hook records; classifies every record"""
    lp = {"records": len(pinp), "moving": 0, "arcs": 0, "accepted": 0,
          "net_diff": [], "cert_rejected": [], "dual_infeasible": [], "pos_diff": [], "shift_ok_fail": [], "value_rose": [], "driver_fail": [], "state_hypotheses_fail": []}
    if not pinp:
        return lp
    sdriver = common.build_driver("shift")
    # run_both cuts the list into contiguous chunks; the records of the 2^31 streams (600..1300 nets) cost seconds each in the
    # model, the ordinary ones a fraction of a millisecond: deal the records to the chunks heaviest first, results back in order
    n = len(pinp)
    nchunks = max(1, min(common.NCPU, n // 100 + 1))
    order = sorted(range(n), key=lambda j: -len(pinp[j]))
    perm = [j for k in range(nchunks) for j in order[k::nchunks]]
    pperm, _, _ = common.run_both([sdriver], None, [pinp[j] for j in perm], chunk=100)
    pout = [None] * n
    for j, o in zip(perm, pperm):
        pout[j] = o
    for (i, k), rec, o in zip(pmap, pinp, pout):
        head, _, detail = o.partition("|")
        try:
            f = {a: int(b) for a, b in (t.split("=") for t in head.split())}
            f["net"], f["cert"], f["va"]
        except (ValueError, KeyError):
            lp["driver_fail"].append((lines[i], rec, "op %d: the model driver could not evaluate the record: %s" % (k, o[:200])))
            continue
        lp["moving"] += f["moved"]; lp["arcs"] += f["narcs"]
        entry = (lines[i], rec, "op %d: %s|%s" % (k, head.strip(), detail[:400]))
        if f["net"] == 1 and f["sup"] == 1 and f["cert"] == 1 and f["pos"] == 1:
            lp["accepted"] += 1
        if f["net"] != 1 or f["sup"] != 1:
            lp["net_diff"].append(entry)
        if f["cert"] != 1:
            lp["cert_rejected"].append(entry)
        if f["dual"] != 1:
            lp["dual_infeasible"].append(entry)
        if f["pos"] != 1:
            lp["pos_diff"].append(entry)
        if f["shiftok"] != 1:
            lp["shift_ok_fail"].append(entry)
        if f.get("hyp", 1) != 1:
            lp["state_hypotheses_fail"].append(entry)
        if f["va"] > f["vb"]:
            lp["value_rose"].append((lines[i], rec, "op %d: x wirelength %d -> %d in one call of runShiftsOnCells; %s" % (k, f["vb"], f["va"], head.strip())))
    return lp


def lp_summary(lp):
    out = {k: (len(v) if isinstance(v, list) else v) for k, v in lp.items()}
    out["exercised"] = lp["records"] > 0
    if not lp["records"]:
        out["note"] = "no record: /repo does not carry the hook coloquinte_verif_shift_hook (verif hook commit on runShiftsOnCells); the certificate tie was not exercised"
    return out


def summary(res):
    d = {k: res[k] for k in ("runs", "noleg", "ops", "best_ops", "pass_ops", "accepted", "op_kinds", "runs_value_ge_2p31", "runs_value_ge_2p32",
                             "reordering_ops_at_value_ge_2p31", "reordering_ops_at_value_ge_2p31_changing_placement")}
    d["shift_lp"] = lp_summary(res["lp"])
    d["stress_streams"] = res.get("stress_streams", {})
    d["net_weights"] = weight_summary([split_do(l)[1] for l in res["lines"]])
    return d
