"""C07 -- placement calls return or throw; never crash or invoke undefined behaviour.
The property itself is OBSERVED (sanitizers), not proved: no theorem speaks about an entry point.
Proof part: coq/Properties_C07.v (hand-written listings of the C++-typed intermediates of the row legalizer, Abacus, the
DetailedPlacement operations, hpwl / the incremental net model, computeSubdivisions, the 1-D transportation solver, the DensityGrid
constructor, the successive-shortest-path solver and the float cost scaling: every LISTED value fits its type on a stated magnitude
domain -- conditional on the completeness of the listings, which is not checked against the code).  Observation part (what a theorem cannot
carry: memory safety / termination of the compiled artefact incl. Eigen, lemon, boost): the three entry
points and the internal classes are run under AddressSanitizer + UndefinedBehaviorSanitizer
(-fno-sanitize-recover=all) with assertions ENABLED (the README's default configuration) and, in the
thorough tier, with assertions disabled and in the plain build, on three streams of the property's domain:
general small circuits, magnitude (|v| <= 2^22, cell area < 2^31), degenerate shapes, unit cells + callbacks; in every stream
~60% of the cases run a parameter set VARIED from the effort's defaults (every integer / enum knob and the moderate float knobs of
all parameter structures, kept only when ColoquinteParameters::check accepts the set).  A case whose
process dies (sanitizer report, abort, signal) or does not finish is a violation with that case as replay."""
import json
import re
from tools import common
from checks import legal_common as lc

LEVEL = "proof"


def flow(ctx, variant, count, seed):
    h = common.build_harness("flow", variant)
    out = {"cases": 0, "bad": [], "outcomes": {}, "lines": []}
    # 6: circuits without free capacity (every row covered by obstructions: finding F28 of C06); 7: the detailed placer is left with NO free
    # row segment (rows tiled exactly by movable macros / under fixed macros) or exactly one; 8: rows of 8..12 standard cells with
    # reordering windows of 6..8 cells (up to 8! orderings per window: a handful of cases)
    for stream in (0, 1, 2, 3, 6, 7, 8, 9):
        lines = common.corpus("C07", ("FL ",)) if stream == 0 else []
        n = count // 4 if stream < 3 else count // 3 if stream == 3 else max(8, count // 8) if stream in (6, 7, 9) else max(6, count // 300)
        lines += common.harness_gen(h, [seed + stream, n, stream])
        impl, _, _ = common.run_both([h, "run"], None, lines, chunk=25, timeout=240)
        out["cases"] += len(lines)
        out["lines"] += lines[:2]
        for l, i in zip(lines, impl):
            if not i.startswith("G:"):
                why = "[%s build, stream %d] a placement entry point did not return or throw: %s" % (variant, stream, i[:200])
                ps = param_set(h, l)
                if ps:
                    why += " (ACCEPTED non-default parameter set of the case: " + ps[:330] + " ...)"
                out["bad"].append((l, i[:400], why, ps))
                continue
            for part in i.split():
                k = part[:2] + ("THROW" if "THROW" in part else part[2:])
                out["outcomes"][k] = out["outcomes"].get(k, 0) + 1
    return out


def param_set(h, line):
    """the varied parameter set of an FL case (trailing pseed != 0), as printed by `flow show`"""
    import subprocess
    try:
        v = [int(x) for x in line.split()[1:]]
        k = 1 + 5 * v[0]                    # rows
        k += 1 + 8 * v[k]                   # cells
        nn = v[k]; k += 1
        for _ in range(nn):                 # nets: degree, 3 ints per pin, weight
            k += 1 + 3 * v[k] + 1
        tail = v[k:] + [0] * 11             # stages effort seed netmodel cbmode cbk cbcell cbw pseed
        effort, pseed = tail[1], tail[8]
        over = (" + override detailed.reorderingMaxNbCells=%d reorderingNbRows=%d nbPasses>=1" % (tail[9], max(1, tail[10]))) if tail[9] > 0 else ""
    except Exception:
        return ""
    if pseed == 0:
        return ("library defaults of the effort" + over) if over else ""
    try:
        r = subprocess.run([h, "show", str(effort), str(pseed)], capture_output=True, text=True, timeout=60)
        return (over[3:] + "; on top of: " if over else "") + " ".join(r.stdout.split())
    except Exception:
        return over


def internal(ctx, variant, name, gen_args, chunk):
    h = common.build_harness(name, variant)
    lines = common.harness_gen(h, gen_args)
    if name == "c07mag":
        # whole successive-shortest-path runs at the edges of the domain of c07_ssp_run_no_overflow (corpus/C07/cases.txt)
        lines = common.corpus("C07", "M2 ") + lines
    impl, _, _ = common.run_both([h, "run"], None, lines, chunk=chunk, timeout=240)
    bad = []
    for l, i in zip(lines, impl):
        if i.startswith("DIED") or re.search(r"\b(ABORT|SEGV|FPE|SIGNAL)\b", i) or i == "<missing>":
            bad.append((l, i[-400:], "[%s build, harness %s] crash / sanitizer report / abort: %s" % (variant, name, i[-200:])))
    return len(lines), bad, lines[:1]


def wide_windows(ctx, variant, seed, n):
    """designed rows of 8..12 standard cells (checks/stress_streams.py) with reordering windows of 6..8 cells (8! = 40320 orderings per
    window), in the sanitizer build: Circuit::placeDetailed with reorderingMaxNbCells 6..8 (DP lines, harness/detailed.cpp) and the directly
    driven DetailedPlacer::runReordering / runReorderingOnCells (DO lines, harness/dopt.cpp).  A case that dies is reported with its line."""
    import random
    from checks import stress_streams as ss
    rng = random.Random(7919 * seed + 3)
    total, bad, smp = 0, [], []
    for name, mk in (("detailed", ss.wide_dp_line), ("dopt", ss.wide_do_line)):
        h = common.build_harness(name, variant)
        lines = [mk(rng) for _ in range(n)]
        impl, _, _ = common.run_both([h, "run"], None, lines, chunk=2, timeout=240)
        total += len(lines); smp.append(lines[0][:300])
        for l, i in zip(lines, impl):
            if i.startswith("DIED") or re.search(r"\b(ABORT|SEGV|FPE|SIGNAL)\b", i) or i == "<missing>" or i.startswith("SKIPPED"):
                bad.append((l, i[-400:], "[%s build, harness %s, reordering windows of 6..8 cells] crash / sanitizer report / abort: %s" % (variant, name, i[-200:])))
    return total, bad, smp


def f32_term(bits):
    """the Gallina term (CV.SpreadFloat.f32) of a binary32 bit pattern (finite values only)"""
    sign, ex, frac = bits >> 31, (bits >> 23) & 255, bits & 0x7fffff
    if ex == 0 and frac == 0:
        return "(B754_zero %s : f32)" % ("true" if sign else "false")
    m, e = (frac, -149) if ex == 0 else (frac | 0x800000, ex - 150)
    return "(f_of_me (%d) (%d))" % (-m if sign else m, e)


def costs_tie(ctx, variant, seed, count):
    """c07mag M4: costs() of the real FLOAT constructor of TransportationProblem (costsFromIntegers) against the Flocq model
    CostsFloat.costs_from_floats evaluated inside Coq by vm_compute, integer for integer; and the statement of
    c07_costs_from_floats_defined (0 <= k, 4 n k <= INT_MAX + 2 n) on the C++ output of every in-domain matrix"""
    h = common.build_harness("c07mag", variant)
    lines = common.corpus("C07", "M4 ") + common.harness_gen(h, [seed, count, 4])
    lines = lines[:100]
    impl, _, _ = common.run_both([h, "run"], None, lines, chunk=100, timeout=240)
    info = {"cases": len(lines), "matrices_compared_integer_for_integer": 0, "entries": 0, "in_domain": 0, "nonzero_entries": 0,
            "sinks": sorted({int(l.split()[1]) for l in lines})}
    bad, diffs, exprs, ok = [], [], [], []
    for l, i in zip(lines, impl):
        t = l.split()
        ns, nr, bits = int(t[1]), int(t[2]), [int(x) for x in t[3:]]
        if not i.startswith("OK"):
            bad.append((l, i[-400:], "[%s build, harness c07mag] the float constructor of TransportationProblem died / threw: %s" % (variant, i[-200:])))
            continue
        got = [int(x) for x in i.split()[1:]]
        if all(not (b >> 31) or b == 0x80000000 for b in bits):
            info["in_domain"] += 1
            if any(k < 0 or 4 * ns * k > 2147483647 + 2 * ns for k in got):
                bad.append((l, i[-400:], "[%s build] costsFromIntegers: a scaled cost of a finite non-negative matrix is outside 0 <= k, 4 n k <= INT_MAX + 2 n" % variant))
        exprs.append("costs_from_floats [%s]" % "; ".join(
            "[%s]" % "; ".join(f32_term(b) for b in bits[j * nr:(j + 1) * nr]) for j in range(ns)))
        ok.append((l, got, ns, nr))
    res = common.vm_eval("C07f", "From Coq Require Import List ZArith. From Flocq Require Import Core BinarySingleNaN. Import ListNotations. "
                                 "Require Import CV.SpreadFloat CV.CostsFloat. Local Open Scope Z_scope.", exprs, timeout=600) if exprs else []
    if res is None:
        diffs.append(("vm_compute evaluation of CostsFloat.costs_from_floats failed", "-", ""))
        res = []
    for (l, got, ns, nr), r in zip(ok, res):
        mod = [int(x) for x in re.findall(r"-?\d+", r)] if r.startswith("Some") else None
        if mod == got:
            info["matrices_compared_integer_for_integer"] += 1
            info["entries"] += len(got); info["nonzero_entries"] += sum(1 for k in got if k)
        else:
            diffs.append(("costs() of the float constructor differs from the Flocq model CostsFloat.costs_from_floats", l, "C++ %s / model %s" % (got[:24], r[:200])))
    return info, bad, diffs


def spec_bits(tok):
    """'S754_finite false 8388611 (-2)' etc. (as printed by Coq) -> IEEE-754 binary32 bit pattern (None for NaN)"""
    t = tok.replace("SpecFloat.", "").replace("(", " ").replace(")", " ").split()
    sign = 1 << 31 if len(t) > 1 and t[1] == "true" else 0
    if t[0] == "S754_zero":
        return sign
    if t[0] == "S754_infinity":
        return sign | (0xFF << 23)
    if t[0] == "S754_nan":
        return None
    m, e = int(t[2]), int(t[3])
    if m < (1 << 23):
        return sign | m if e == -149 else None
    return sign | ((e + 150) << 23) | (m - (1 << 23))


def producer_tie(ctx, variant, seed, count):
    """c07mag M5: coloquinte::norm (all six LegalizationModel values), the expression of DensityLegalizer::distance (harness replica
    of one line) and HierarchicalDensityPlacement::binX against CostsFloat.norm_f / distance_f / bin_center_f, bit for bit"""
    h = common.build_harness("c07mag", variant)
    lines = common.harness_gen(h, [seed, count, 5])[:100]
    impl, _, _ = common.run_both([h, "run"], None, lines, chunk=100, timeout=240)
    models = ["L1", "L2", "LInf", "L1Squared", "L2Squared", "LInfSquared"]
    info = {"cases": len(lines), "values_compared_bit_for_bit": 0, "models": sorted({models[int(l.split()[1])] for l in lines})}
    bad, diffs, exprs, ok = [], [], [], []
    for l, i in zip(lines, impl):
        t = [int(x) for x in l.split()[1:]]
        if not i.startswith("OK") or i.split()[-1] != "1":
            bad.append((l, i[-400:], "[%s build, harness c07mag] norm / binX died: %s" % (variant, i[-200:])))
            continue
        m, x, y, q = models[t[0]], f32_term(t[1]), f32_term(t[2]), f32_term(t[3])
        exprs.append("(B2SF (norm_f %s %s %s), B2SF (distance_f %s %s %s %s), B2SF (bin_center_f (%d) (%d)))" % (x, y, m, q, m, x, y, t[4], t[5]))
        ok.append((l, [int(v) for v in i.split()[1:4]]))
    res = common.vm_eval("C07p", "From Coq Require Import List ZArith. From Flocq Require Import Core BinarySingleNaN. Import ListNotations. "
                                 "Require Import CV.SpreadFloat CV.CostsFloat. Local Open Scope Z_scope.", exprs, timeout=600) if exprs else []
    if res is None:
        diffs.append(("vm_compute evaluation of CostsFloat.norm_f / distance_f / bin_center_f failed", "-", ""))
        res = []
    for (l, got), r in zip(ok, res):
        mod = [spec_bits(x) for x in re.findall(r"S754_\w+(?:\s+(?:true|false))?(?:\s+\d+\s+\(?-?\d+\)?)?", r)]
        if mod == got:
            info["values_compared_bit_for_bit"] += 3
        else:
            diffs.append(("norm / distance expression / binX of the compiled code differ from the Flocq model (CostsFloat.norm_f, distance_f, bin_center_f)",
                          l, "C++ bits %s / model bits %s" % (got, mod)))
    return info, bad, diffs


def run(ctx):
    proof_ok, proof = common.proof_status(ctx, "C07")
    # the hand-written machine listings tied to the source: every signed-integer operation of the modelled functions (clang AST,
    # regenerated from the tree under check) is covered by a named listing value or excluded with a reason (Properties_C07_listing.v)
    from checks import c07_listing
    listing = c07_listing.check(ctx)
    for k in ("obligations", "discharged"):
        proof[k] = proof.get(k, 0) + listing["proof"].get(k, 0)
    proof["theorems"] = list(proof.get("theorems", [])) + listing["proof"].get("theorems", [])
    proof["coq_files_in_scope"] = sorted(set(proof.get("coq_files_in_scope", [])) | set(listing["proof"].get("coq_files_in_scope", [])))
    s = ctx.seed
    variants = ["asan"] if ctx.quick else ["asan", "asan-ndebug", "plain"]
    nflow = 2000 if ctx.quick else 30000
    total, bad, samples, per, tdiffs = 0, [], [], {}, []
    for v in variants:
        f = flow(ctx, v, nflow, s + 70)
        total += f["cases"]; bad += f["bad"]; samples += f["lines"][:2]
        per[v] = {"flow_cases": f["cases"], "flow_outcomes": f["outcomes"]}
        for name, args, chunk in (("legal", ["rand", s + 80, 1500 if ctx.quick else 20000, 0], 2000),
                                  ("detailed", ["rand", s + 81, 400 if ctx.quick else 8000, 0], 200),
                                  ("dopt", ["rand", s + 82, 600 if ctx.quick else 12000, 0], 300),
                                  ("dplace", ["rand", s + 83, 3000 if ctx.quick else 50000], 2000),
                                  ("rowleg", ["rand", s + 84, 5000 if ctx.quick else 100000], 4000),
                                  # the integer cores of global placement at the boundaries of the domains of the machine-integer
                                  # theorems: Transportation1d balanceDemand+assign (|pos| <= 2^59, totals <= 2^61; and the rough
                                  # legalizer's scale), TransportationProblem at the costsFromIntegers bound, DensityGrid on +-2^22
                                  ("c07mag", [s + 85, 3000 if ctx.quick else 60000], 1000)):
            try:
                n, b, smp = internal(ctx, v, name, args, chunk)
            except common.BuildError:
                raise
            total += n; bad += b; per[v][name + "_cases"] = n
            if v == variants[0]:
                samples += [x[:300] for x in smp]
        n, b, smp = wide_windows(ctx, v, s + 88, 6 if ctx.quick else 60)
        total += n; bad += b; per[v]["wide_reordering_window_cases"] = n
        if v == variants[0]:
            samples += smp
        if v == variants[0]:
            # float side of costsFromIntegers: bit-exact tie of the Flocq model (<= 100 matrices per run)
            tie, b, tdiffs = costs_tie(ctx, v, s + 86, 96)
            total += tie["cases"]; bad += b; per[v]["costs_float_tie"] = tie
            ptie, b, pdiffs = producer_tie(ctx, v, s + 87, 60)
            total += ptie["cases"]; bad += b; per[v]["costs_producer_tie"] = ptie; tdiffs += pdiffs
    # finding F31 (known): a circuit WITHOUT ANY FIXED CELL whose initial star system has a right-hand side that cancels to rounding noise
    # (pin offsets summing to zero) is singular AND inconsistent: the conjugate gradient returns NaN, which is then converted to an integer.
    # Matched only for an FL case with no fixed cell that dies on a NaN -> integer conversion; any other death is a violation.
    def no_fixed_cell(line):
        try:
            v = [int(x) for x in line.split()[1:]]
            k = 1 + 5 * v[0]
            nc = v[k]; k += 1
            return nc > 0 and all(v[k + 8 * c + 6] == 0 for c in range(nc))
        except (ValueError, IndexError):
            return False
    kept = []
    for b in bad:
        if b[0].startswith("FL ") and "nan is outside the range of representable values" in b[1] and no_fixed_cell(b[0]) and ctx.known_finding("F31"):
            continue
        kept.append(b)
    bad = kept
    for b in bad[:3]:
        l, i, why = b[:3]
        ctx.violation("/repo violates C07: " + why, {"case": l, "implementation_output": i, "why": why,
                                                     "parameters": (b[3] if len(b) > 3 and b[3] else "library defaults of the effort (capped maxNbSteps 12, nbPasses 2)"),
                                                     "format": "FL: harness/flow.cpp; LG: legal.cpp; DP: detailed.cpp; DO: dopt.cpp; DM: dplace.cpp; RL: rowleg.cpp; M1/M2/M3: c07mag.cpp"})
    for d in tdiffs[:2]:
        ctx.violation("C07: " + d[0], {"broken": "correspondence CostsFloat.v <-> transportation.cpp costsFromIntegers / utils/norm.hpp / density_grid.hpp binX",
                                       "case": d[1], "detail": d[2]}, found_input=False)
    if not bad and not proof_ok:
        ctx.violation("proof obligations of Properties_C07.v do not check", {"broken": "Properties_C07.v", "detail": proof}, found_input=False)
    cov = dict(proof)
    cov["listing_tie"] = {k: listing.get(k) for k in ("counts", "first_difference", "translator_error", "callees_outside_table", "callees_not_inlined")}
    cov.update({"trusted_base": common.TRUSTED_BASE + ["tools/machine_ops.py (clang AST translator) and its table of functions per listing",
                                                        "g++ 12 sanitizer runtimes (ASan, UBSan); the C++ type annotations of the machine model are hand-transcribed",
                                                        "memory safety and termination of Eigen / lemon / boost / libstdc++ use are OBSERVED on the generated cases, not proved"],
                "evaluations": total, "distinct_nontrivial": total - len(bad),
                "rule": "PARAMETERS of the flow streams: ~60% of the FL cases carry a variation seed: starting from the effort's defaults each knob is redrawn with "
                        "probability 1/2: roughLegalization costModel (all 6), nbSteps 0-3, binSize 1..25 (integer or tenths), line/diag window sizes 1-8 and square 1-4 with "
                        "overlaps 1..size-1 (1-4 when the size is 1) drawn per window, so an overlap may be >= ANOTHER window's size, unidimensionalTransport, quadraticPenalty 0..1, "
                        "sideMargin 0..3, coarseningLimit 0.5..500, targetBlending -0.1..0.89; continuousModel approximationDistance 0.1..10, its update factor 0.8..1.2, "
                        "maxNbConjugateGradientSteps 1..1000 (often 1-3), CG tolerance 1e-1..1e-6; penalty cutoffDistance 0.1..100, its update factor, areaExponent 0.5..1, "
                        "initialValue, updateFactor 1.01..1.99 (penalty.targetBlending untouched); global maxNbSteps 1-12, nbInitialSteps < maxNbSteps, "
                        "nbStepsBeforeRoughLegalization 1-3, gapTolerance 0..1, distanceTolerance 0..5, penaltyUpdateDistance, penaltyUpdateBackoff 1..3, exportBlending -0.5..1.5, "
                        "noise 0..2; legalization orderingWidth/Height -1..2, orderingY -0.2..0.2; detailed nbPasses 0-2, localSearchNbNeighbours 0-8, localSearchNbRows 0-4, "
                        "shiftNbRows 1-6 (40% exactly 1), shiftMaxNbCells 0-200 (30% 0-3), reorderingNbRows 1-3, reorderingMaxNbCells 0-6; the set is used only when "
                        "ColoquinteParameters::check() accepts it (flow_outcomes P:var = varied and accepted, P:rej = rejected -> defaults, P:def = defaults); "
                        "`flow show EFFORT PSEED` prints the set.  CIRCUITS: three streams of harness/flow.cpp (general; magnitude: site/row sizes up to 2^18, coordinates to +-2^22, cell area < 2^31; degenerate: single row, single "
                        "cell, no nets, degree-1 nets, all pins on one cell, zero-size fixed terminals, all fixed but one, infeasible density; plus the unit-cell stream with callbacks that observe / resize a cell / "
                        "rescale the net weights; stream 6: no free capacity; stream 7 (count/8 cases): after legalization the detailed placer has NO free row segment -- bands of 2..3 rows tiled "
                        "exactly by macros 2..3 rows high, all movable and no standard cell / some fixed / one movable macro and the rest under one fixed macro per band -- or exactly ONE free "
                        "segment with 0..2 standard cells, stages detailed / legalize+detailed / whole flow; stream 8 (>= 6 cases): rows of 8..12 standard cells with the override "
                        "reorderingMaxNbCells 6..8, reorderingNbRows 1..2, nbPasses >= 1 on top of the varied set; plus wide_reordering_window_cases: 6 DP + 6 DO lines of checks/stress_streams.py "
                        "(Circuit::placeDetailed with reorderingMaxNbCells 6..8; runReordering / runReorderingOnCells on windows of 6..8 cells) in the same sanitizer build), every circuit has a movable cell of "
                        "positive area; stages global/legalize/detailed/full flow, efforts 1-4, 4 net models, seeds; plus the legal/detailed/dopt/dplace/rowleg harness streams "
                        "in the same sanitizer build, and harness/c07mag.cpp (1-D transportation balanceDemand+assign with positions to +-2^59 and totals to 2^61 / at the "
                        "rough legalizer's scale, TransportationProblem with integer costs at INT_MAX/(4 sinks), DensityGrid on regions inside +-2^22). non-trivial = the process survived the case (every case exercises an entry point); distinct = generated case lines",
                "variants": variants, "per_variant": per,
                "samples": samples[:6], "impl_outputs_violating_statement": len(bad)})
    return ctx.finish(LEVEL, cov, ["sanitizer observation is not a proof: it covers the generated cases only",
                                   "the theorems are about hand-written listings of intermediates over the ideal models (completeness of a listing is trusted; no listed value is compared with the code); "
                                   "no theorem about any entry point, the Tetris legalizer, the density legalizer's bisection, the detailed-placement pass loops, NetModel index arithmetic, "
                                   "or float-to-integer conversions other than costsFromIntegers",
                                   "distinct_nontrivial = cases run minus failing cases (every case exercises an entry point); the quick tier runs only the assertions-on ASan build",
                                   "timeouts: a chunk of cases that does not finish within its limit is reported on the case it stalled on"])


def replay(ctx, path):
    r = json.load(open(path))["replay"]
    if "case" not in r:
        from checks import c07_listing
        return c07_listing.replay(ctx, path)
    case = r["case"]
    name = {"FL": "flow", "LG": "legal", "DP": "detailed", "DO": "dopt", "DM": "dplace", "RL": "rowleg",
            "M1": "c07mag", "M2": "c07mag", "M3": "c07mag", "M4": "c07mag", "M5": "c07mag"}[case[:2]]
    m = re.search(r"\[(\S+) build", r.get("why", ""))
    variant = m.group(1) if m else "asan"
    h = common.build_harness(name, variant)
    impl, _, _ = common.run_both([h, "run"], None, [case], timeout=600)
    print("case:", case); print("impl (%s):" % variant, impl[0])
    if case.startswith("FL ") and "nan is outside the range of representable values" in impl[0]:
        try:
            v = [int(x) for x in case.split()[1:]]
            k = 1 + 5 * v[0]; nc = v[k]; k += 1
            if nc > 0 and all(v[k + 8 * c + 6] == 0 for c in range(nc)) and ctx.known_finding("F31"):
                print("matched to known finding F31 (no fixed cell, NaN from the initial star solve converted to an integer)")
                return 0
        except (ValueError, IndexError):
            pass
    return 1 if (impl[0].startswith("DIED") or "ABORT" in impl[0] or "SEGV" in impl[0] or impl[0] == "<missing>") else 0
