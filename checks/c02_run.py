"""C02 / C05 / C04, tie of the CLOSED model of DetailedPlacer::run() and its passes (coq/DetailedRun.v: runSwaps with its
one-row pass, the RowNeighbourhood lists, runSwapsTwoRowsAmplify / bestSwapUpdate / findCellAfter; runReordering with its
row sets and windows, each window = Reorder.run; run() = nbPasses x (swaps, callback, [shifts, callback], [reordering,
callback])) against /repo, EXACT.

Harness harness/drun.cpp, driver ocaml/driver_run.ml (extraction coq/Extract_run.v).
 * DR cases: DetailedPlacer driven by whole passes, op `3 a b` = runSwaps(a, b), op `6 a b` = runReordering(a, b).  Compared after
   construction and after EVERY op: xtopo_.value(), ytopo_.value(), the exported circuit (x, y, orientation of every cell) and
   the row lists (rowCells(r) of every row).
 * DW cases: the whole of DetailedPlacer::place after legalization for parameter sets WITHOUT shift pass (shiftMaxNbCells < 2,
   accepted by DetailedPlacerParameters::check), nbPasses 0..3, reordering on / off, replayed statement by statement by the
   harness (how = 0: values readable at every callback) or through Circuit::placeDetailed(params, callback) itself (how = 1:
   exported circuits only).  The model (run_passes with an empty shift oracle) receives the LEGALIZED circuit (what the first
   callback saw).  Compared: state after construction, the state at EVERY callback, and the final state.

Library: run_closed(ctx, count, seed) -> dict.  Stand-alone: python3 -m checks.c02_run [seed] [count]."""
import sys
from tools import common
from checks import legal_common as lc
from checks import dopt_common as do


class _Ctx:
    prop = "C02"


def split_case(line):
    """'DR|DW <rows> <cells> <nets> rest' -> (circuit tokens, net tokens, rest tokens)"""
    ctoks, ntoks = do.split_do(line)
    t = line.split()[1:]
    return ctoks, ntoks, t[len(ctoks) + len(ntoks):]


norm = lambda x: " ".join(x.split())


def seg_fields(seg):
    """'TAG xv yv ;placement ; rows [; check]' -> (tag, values, placement, rows, check)"""
    parts = [norm(x) for x in seg.split(";")]
    head = parts[0].split()
    return head[0], " ".join(head[1:]), parts[1] if len(parts) > 1 else "", parts[2] if len(parts) > 2 else "", parts[3] if len(parts) > 3 else ""


_cache = {}


def run_closed(ctx, count, seed, modes=(0, 16)):
    key = (count, seed, tuple(modes))
    if key in _cache:
        return _cache[key]
    ctx = ctx if ctx is not None else _Ctx()
    harness = common.build_harness("drun")
    driver = common.build_driver("run")
    lines = common.corpus("C02", ("DR ", "DW "))
    for m in modes:
        lines += common.harness_gen(harness, ["rand", seed + 300 + m, count // len(modes), m])
    impl, _, _ = common.run_both([harness, "run"], None, lines, chunk=200, timeout=600)
    res = {"cases": len(lines), "noleg": 0, "dr_runs": 0, "dw_runs": 0, "dw_runs_through_placeDetailed": 0,
           "swap_pass_ops": 0, "swap_pass_ops_changing": 0, "swap_pass_ops_changing_row": 0, "reorder_pass_ops": 0, "reorder_pass_ops_changing": 0,
           "callback_states": 0, "whole_runs_changing": 0, "whole_runs_with_reordering": 0, "states_compared": 0, "nontrivial": set(),
           "runs_with_side_by_side_rows": 0, "runs_with_empty_row": 0, "runs_with_one_cell_row": 0,
           "mismatch": [], "driver_fail": [], "throws": [], "check_fail": [], "crash": [], "samples": []}
    pinp, pmap = [], []
    for i, (l, out) in enumerate(zip(lines, impl)):
        o = out.strip()
        if o == "NOLEG" or o == "":
            res["noleg"] += 1
            continue
        segs = [x.strip() for x in o.split(" / ")]
        ctoks, ntoks, rest = split_case(l)
        if l.startswith("DR"):
            if not segs[0].startswith("INIT"):
                res["crash"].append((l, o[-300:], "no outcome: " + o[:80]))
                continue
            pl0 = [int(x) for x in segs[0].split(";")[1].split()]
            pinp.append("RN " + " ".join(lc.with_placement(ctoks, pl0)) + " " + " ".join(do.nets_for_hp(ntoks)) + " " + " ".join(rest))
            pmap.append((i, "DR", segs, ctoks, rest))
        else:
            if not segs[0].startswith("LEG"):
                res["crash"].append((l, o[-300:], "no outcome: " + o[:80]))
                continue
            pl0 = [int(x) for x in segs[0].split(";")[1].split()]
            pinp.append("RW " + " ".join(lc.with_placement(ctoks, pl0)) + " " + " ".join(do.nets_for_hp(ntoks)) + " " + " ".join(rest[:7]))
            pmap.append((i, "DW" + rest[7], segs[1:], ctoks, rest))
    pout, _, _ = common.run_both([driver], None, pinp, chunk=100, timeout=900)
    for (i, kind, segs, ctoks, rest), o in zip(pmap, pout):
        msegs = [x.strip() for x in o.split(" / ")]
        l = lines[i]
        if not msegs or not msegs[0].startswith("INIT"):
            res["driver_fail"].append((l, o[:200], "the model did not build a state for a circuit the C++ accepted"))
            continue
        if kind == "DW1":
            # Circuit::placeDetailed itself: exported circuits only; the model's INIT segment has no counterpart
            res["dw_runs"] += 1; res["dw_runs_through_placeDetailed"] += 1
            msegs = msegs[1:]
        elif kind == "DW0":
            res["dw_runs"] += 1
        else:
            res["dr_runs"] += 1
        rows0 = seg_fields(o.split(" / ")[0])[3].split()
        # shape statistics from the model's row lists at construction: "nrows (ncells ids)*"
        try:
            q = 1; sizes = []
            for _ in range(int(rows0[0])):
                n = int(rows0[q]); sizes.append(n); q += 1 + n
            res["runs_with_empty_row"] += 0 in sizes; res["runs_with_one_cell_row"] += 1 in sizes
            ys = [ctoks[1 + 5 * k + 2] for k in range(int(ctoks[0]))]
            res["runs_with_side_by_side_rows"] += len(set(ys)) < len(ys)
        except (ValueError, IndexError):
            pass
        prev_pl = None; bad = False; changed_any = False
        if len(segs) != len(msegs) and not any(s.startswith("THROW") for s in segs) and not any(s.startswith("ERR") for s in msegs):
            res["mismatch"].append((l, "%d segments" % len(segs), "%d segments" % len(msegs), "number of exposed states"))
            continue
        for k, (a, m) in enumerate(zip(segs, msegs)):
            if a.startswith("THROW") or m.startswith("ERR") or m.startswith("BADPARAMS"):
                if a.startswith("THROW") and (m.startswith("ERR EThrow") or m.startswith("BADPARAMS") or m.startswith("ERR EUndefined")):
                    res["throws"].append((l, a[:200], m[:200], "segment %d: both sides stop" % k))
                else:
                    res["mismatch"].append((l, a[:300], m[:300], "segment %d: one side stops / throws / runs out of fuel" % k))
                bad = True
                break
            ta, va, pa, ra, ca = seg_fields(a)
            tm, vm, pm, rm, _ = seg_fields(m)
            if kind == "DW1":
                got, want = (ta, pa), (tm, pm)
            else:
                got, want = (ta, va, pa, ra), (tm, vm, pm, rm)
            res["states_compared"] += 1
            if got != want:
                res["mismatch"].append((l, " | ".join(got)[:400], " | ".join(want)[:400], "segment %d (%s)" % (k, ta)))
                bad = True
                break
            if ca and ca != "ok":
                res["check_fail"].append((l, ca, "", "DetailedPlacer::check() after segment %d" % k))
            if ta == "CB":
                res["callback_states"] += 1
            if prev_pl is not None and pa != prev_pl:
                changed_any = True
            if kind == "DR" and ta == "P":
                ty = rest[1 + 3 * (k - 1)]
                chg = pa != prev_pl
                rowchg = chg and any(x != y for x, y in zip(pa.split()[1::3], prev_pl.split()[1::3]))
                if ty == "3":
                    res["swap_pass_ops"] += 1; res["swap_pass_ops_changing"] += chg; res["swap_pass_ops_changing_row"] += rowchg
                else:
                    res["reorder_pass_ops"] += 1; res["reorder_pass_ops_changing"] += chg
            prev_pl = pa
        if bad:
            continue
        if changed_any:
            res["nontrivial"].add(l)
            if len(res["samples"]) < 5:
                res["samples"].append(l[:400])
            if kind != "DR":
                res["whole_runs_changing"] += 1
        if kind != "DR" and int(rest[6]) >= 2 and int(rest[0]) >= 1:
            res["whole_runs_with_reordering"] += 1
    res["distinct_nontrivial"] = len(res.pop("nontrivial"))
    _cache[key] = res
    return res


def summary(res):
    return {k: (len(v) if isinstance(v, list) else v) for k, v in res.items() if k != "samples"}


if __name__ == "__main__":
    seed = int(sys.argv[1]) if len(sys.argv) > 1 else 1
    count = int(sys.argv[2]) if len(sys.argv) > 2 else 600
    r = run_closed(None, count, seed)
    print(summary(r))
    for x in (r["mismatch"] + r["driver_fail"] + r["crash"] + r["check_fail"])[:4]:
        print("FAIL (closed model of DetailedPlacer::run differs from the C++):", " | ".join(str(y)[:600] for y in x[1:]), "|", x[0][:900])
    sys.exit(1 if r["mismatch"] or r["driver_fail"] or r["crash"] or r["check_fail"] else 0)
