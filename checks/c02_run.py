"""C02 / C05 / C04, tie of the CLOSED model of DetailedPlacer::run() and its passes (coq/DetailedRun.v: runSwaps with its
one-row pass, the RowNeighbourhood lists, runSwapsTwoRowsAmplify / bestSwapUpdate / findCellAfter; runReordering with its
row sets and windows, each window = Reorder.run; run() = nbPasses x (swaps, callback, [shifts, callback], [reordering,
callback])) against /repo, EXACT.

Harness harness/drun.cpp, driver ocaml/driver_run.ml (extraction coq/Extract_run.v).
 * DR cases: DetailedPlacer driven by whole passes, op `3 a b` = runSwaps(a, b), op `6 a b` = runReordering(a, b).  Compared after
   construction and after EVERY op: xtopo_.value(), ytopo_.value(), the exported circuit (x, y, orientation of every cell) and
   the row lists (rowCells(r) of every row).
 * DS cases (run_shift_runs): whole runs WITH the shift pass (default parameter sets of efforts 1..9 included): the model makes its own
   runShiftsOnCells calls (run_passes_c), every call recorded through hook 2 must fit (cells, network) and lemon's answer must pass the
   extracted proved checker shift_cert_ok; states at every callback and at the end compared exactly.
 * DW cases: the whole of DetailedPlacer::place after legalization for parameter sets WITHOUT shift pass (shiftMaxNbCells < 2,
   accepted by DetailedPlacerParameters::check), nbPasses 0..3, reordering on / off, replayed statement by statement by the
   harness (how = 0: values readable at every callback) or through Circuit::placeDetailed(params, callback) itself (how = 1:
   exported circuits only).  The model (run_passes with an empty shift oracle) receives the LEGALIZED circuit (what the first
   callback saw).  Compared: state after construction, the state at EVERY callback, and the final state.

Library: run_closed(ctx, count, seed[, lines=replay lines]) -> dict (keys: mismatch / driver_fail / crash / check_fail = broken
correspondence; overflow_throws = real violation of C02 with its input, finding F-run-1 of design/C02_run.md; counters).  Stand-alone: python3 -m checks.c02_run [seed] [count]."""
import sys
from tools import common
from checks import legal_common as lc
from checks import dopt_common as do


class _Ctx:
    prop = "C02"


def split_case(line):
    """'DR|DW <rows> <cells> <nets> rest' -> (circuit tokens, net tokens, rest tokens)"""
    ctoks, ntoks = do.split_do(line)
    t = line.split()[1:]
    return ctoks, ntoks, t[len(ctoks) + len(ntoks):]


norm = lambda x: " ".join(x.split())

# the extracted model holds cut-offs as unary naturals: a cut-off above CAP is replaced by CAP on the MODEL side only (CAP exceeds
# the length of every row and the number of rows of the generated circuits, beyond which the C++ loops read the cut-off only through
# min / count < n); the C++ receives the original value (INT_MAX included)
CAP = 5000
HUGE = 2147483647 - 4096


def cap(tok):
    return str(CAP) if int(tok) > CAP else tok


def seg_fields(seg):
    """'TAG xv yv ;placement ; rows [; check]' -> (tag, values, placement, rows, check)"""
    parts = [norm(x) for x in seg.split(";")]
    head = parts[0].split()
    return head[0], " ".join(head[1:]), parts[1] if len(parts) > 1 else "", parts[2] if len(parts) > 2 else "", parts[3] if len(parts) > 3 else ""


# the circuit of Example c02_run_nonvacuous / c05_run_nonvacuous (coq/Properties_C02_run.v: rows N / FS, cell 0 polarised NW, 2 passes,
# no shift pass, reordering windows of 3 cells): the numbers of the Example (Circuit::hpwl 19 -> 12 -> 12 -> 9 -> 9) are the C++'s
EXAMPLE = ("DW 2 0 12 0 2 0 0 12 2 4 5 6 0 0 2 2 0 3 0 1 4 0 2 2 0 0 0 1 1 2 2 2 0 0 0 1 6 2 3 2 0 0 0 1 11 3 0 0 0 0 1 0 0 0 0 0 0 0 1 0 "
           "3 2 1 0 0 4 0 0 2 2 3 0 0 5 0 0 2 2 0 1 1 2 0 0 2 2 2 2 3 0 1 3 ")
EXAMPLE_VALUES = ["13 6", "10 2", "10 2", "7 2", "7 2", "7 2"]     # xtopo_.value() ytopo_.value() at INIT, the 4 callbacks, FINAL

# the same circuit with ONE pass, shiftNbRows 2, shiftMaxNbCells 4: Example c02_run_closed_shift_nonvacuous (4 shift calls; hpwl 19 -> 12 -> 5)
EXAMPLE_SHIFT = "DS " + " ".join(EXAMPLE.split()[1:-7]) + " 1 2 2 2 4 1 1 0"

_cache = {}


def run_closed(ctx, count, seed, modes=(0, 16), lines=None):
    """lines: explicit DR / DW case lines (replay); otherwise corpus + Example + `count` generated cases"""
    key = (count, seed, tuple(modes)) if lines is None else None
    if key is not None and key in _cache:
        return _cache[key]
    ctx = ctx if ctx is not None else _Ctx()
    shift_lines = None
    if lines is not None:       # replay: DS lines go to run_shift_runs
        shift_lines = [x for x in lines if x.startswith("DS ")]
        lines = [x for x in lines if not x.startswith("DS ")]
    harness = common.build_harness("drun")
    driver = common.build_driver("run")
    if lines is None:
        lines = common.corpus("C02", ("DR ", "DW ")) + [EXAMPLE + "0", EXAMPLE + "1"]
        for m in modes:
            lines += common.harness_gen(harness, ["rand", seed + 300 + m, count // len(modes), m])
        # stress streams (checks/stress_streams.py): DR / DW circuits TRANSLATED to 2^24 + odd .. +-(2^30 - small) (these runs have no shift
        # pass) and designed wide rows with reordering windows of 6..8 cells (the model side costs 1-2 s per 8-cell window)
        from checks import stress_streams as ss
        sbig, swide, stress_info = ss.extra_lines(harness, "DR", seed, count // 10, max(6, count // 500), ["rand", seed + 977, count // 5, 0])
        lines += sbig + swide
    impl, _, _ = common.run_both([harness, "run"], None, lines, chunk=200, timeout=600)
    res = {"cases": len(lines), "stress_streams": (stress_info if key is not None else {}), "noleg": 0, "dr_runs": 0, "dw_runs": 0, "dw_runs_through_placeDetailed": 0,
           "swap_pass_ops": 0, "swap_pass_ops_changing": 0, "swap_pass_ops_changing_row": 0, "reorder_pass_ops": 0, "reorder_pass_ops_changing": 0,
           "callback_states": 0, "whole_runs_changing": 0, "whole_runs_with_reordering": 0, "states_compared": 0, "nontrivial": set(),
           "runs_with_side_by_side_rows": 0, "runs_with_empty_row": 0, "runs_with_one_cell_row": 0,
           "huge_cutoff_cases": 0, "value_increases": [], "overflow_throws": [], "mismatch": [], "driver_fail": [], "throws": [], "check_fail": [], "crash": [], "samples": []}
    pinp, pmap = [], []
    for i, (l, out) in enumerate(zip(lines, impl)):
        o = out.strip()
        if o == "NOLEG" or o == "":
            res["noleg"] += 1
            continue
        segs = [x.strip() for x in o.split(" / ")]
        ctoks, ntoks, rest = split_case(l)
        res["huge_cutoff_cases"] += any(int(t) >= HUGE for t in rest)
        if l.startswith("DR"):
            if not segs[0].startswith("INIT"):
                res["crash"].append((l, o[-300:], "no outcome: " + o[:80]))
                continue
            pl0 = [int(x) for x in segs[0].split(";")[1].split()]
            pinp.append("RN " + " ".join(lc.with_placement(ctoks, pl0)) + " " + " ".join(do.nets_for_hp(ntoks)) + " " + " ".join([rest[0]] + [t if k % 3 == 0 else cap(t) for k, t in enumerate(rest[1:])]))
            pmap.append((i, "DR", segs, ctoks, rest))
        else:
            if not segs[0].startswith("LEG"):
                res["crash"].append((l, o[-300:], "no outcome: " + o[:80]))
                continue
            pl0 = [int(x) for x in segs[0].split(";")[1].split()]
            pinp.append("RW " + " ".join(lc.with_placement(ctoks, pl0)) + " " + " ".join(do.nets_for_hp(ntoks)) + " " + " ".join(cap(t) for t in rest[:7]))
            pmap.append((i, "DW" + rest[7], segs[1:], ctoks, rest))
    pout, _, _ = common.run_both([driver], None, pinp, chunk=100, timeout=900)
    for (i, kind, segs, ctoks, rest), o in zip(pmap, pout):
        msegs = [x.strip() for x in o.split(" / ")]
        l = lines[i]
        if not msegs or not msegs[0].startswith("INIT"):
            res["driver_fail"].append((l, o[:200], "the model did not build a state for a circuit the C++ accepted"))
            continue
        if kind == "DW1":
            # Circuit::placeDetailed itself: exported circuits only; the model's INIT segment has no counterpart
            res["dw_runs"] += 1; res["dw_runs_through_placeDetailed"] += 1
            msegs = msegs[1:]
        elif kind == "DW0":
            res["dw_runs"] += 1
        else:
            res["dr_runs"] += 1
        rows0 = seg_fields(o.split(" / ")[0])[3].split()
        # shape statistics from the model's row lists at construction: "nrows (ncells ids)*"
        try:
            q = 1; sizes = []
            for _ in range(int(rows0[0])):
                n = int(rows0[q]); sizes.append(n); q += 1 + n
            res["runs_with_empty_row"] += 0 in sizes; res["runs_with_one_cell_row"] += 1 in sizes
            ys = [ctoks[1 + 5 * k + 2] for k in range(int(ctoks[0]))]
            res["runs_with_side_by_side_rows"] += len(set(ys)) < len(ys)
        except (ValueError, IndexError):
            pass
        prev_pl = None; prev_val = None; bad = False; changed_any = False
        died = [x for x in segs if x in ("ABORT", "SEGV", "FPE", "SIGNAL") or x.startswith(("DIED", "SKIPPED"))]
        if died and not any(x.startswith("ERR") for x in msegs):
            # an assertion failure / crash inside a pass or a whole run the model completes: a concrete failing input (C02: "never fails")
            res["crash"].append((l, died[0][:200], " / ".join(x[:40] for x in msegs)[:300], "the C++ aborted / crashed (%s) after %d exposed states; the model completes the run" % (died[0][:60], len(segs) - 1)))
            continue
        if len(segs) != len(msegs) and not any(s.startswith("THROW") for s in segs) and not any(s.startswith("ERR") for s in msegs):
            res["mismatch"].append((l, "%d segments" % len(segs), "%d segments" % len(msegs), "number of exposed states"))
            continue
        for k, (a, m) in enumerate(zip(segs, msegs)):
            if a.startswith("THROW") or m.startswith("ERR") or m.startswith("BADPARAMS"):
                huge_nb = (kind == "DR" and k >= 1 and rest[1 + 3 * (k - 1)] == "3" and int(rest[3 + 3 * (k - 1)]) >= HUGE) or \
                          (kind != "DR" and int(rest[2]) >= HUGE)
                if a.startswith("THROW cannot create std::vector larger than max_size()") and huge_nb and not m.startswith(("ERR", "BADPARAMS")):
                    # int overflow of `i + nbNeighbours + 1` in runSwapsOneRow (finding: fixed by commit "fix: candidate window end ...")
                    res["overflow_throws"].append((l, a[:200], m[:120], "segment %d: the C++ throws for a neighbour cut-off near INT_MAX accepted by the parameter check" % k))
                elif a.startswith("THROW") and (m.startswith("ERR EThrow") or m.startswith("BADPARAMS") or m.startswith("ERR EUndefined")):
                    res["throws"].append((l, a[:200], m[:200], "segment %d: both sides stop" % k))
                else:
                    res["mismatch"].append((l, a[:300], m[:300], "segment %d: one side stops / throws / runs out of fuel" % k))
                bad = True
                break
            ta, va, pa, ra, ca = seg_fields(a)
            tm, vm, pm, rm, _ = seg_fields(m)
            if kind == "DW1":
                got, want = (ta, pa), (tm, pm)
            else:
                got, want = (ta, va, pa, ra), (tm, vm, pm, rm)
            res["states_compared"] += 1
            # statement-level oracle on the C++ output alone (C05): the optimised value (x + y model values) never increases from one
            # exposed state to the next, whatever the model says
            if kind != "DW1":
                try:
                    tot = sum(int(x) for x in va.split())
                    if prev_val is not None and tot > prev_val:
                        res["value_increases"].append((l, "value %d after %d" % (tot, prev_val), "", "segment %d (%s): the value DetailedPlacer optimises rose across a pass" % (k, ta)))
                    prev_val = tot
                except ValueError:
                    pass
            if got != want:
                res["mismatch"].append((l, " | ".join(got)[:400], " | ".join(want)[:400], "segment %d (%s)" % (k, ta)))
                bad = True
                break
            if ca and ca != "ok":
                res["check_fail"].append((l, ca, "", "DetailedPlacer::check() after segment %d" % k))
            if ta == "CB":
                res["callback_states"] += 1
            if prev_pl is not None and pa != prev_pl:
                changed_any = True
            if kind == "DR" and ta == "P":
                ty = rest[1 + 3 * (k - 1)]
                chg = pa != prev_pl
                rowchg = chg and any(x != y for x, y in zip(pa.split()[1::3], prev_pl.split()[1::3]))
                if ty == "3":
                    res["swap_pass_ops"] += 1; res["swap_pass_ops_changing"] += chg; res["swap_pass_ops_changing_row"] += rowchg
                else:
                    res["reorder_pass_ops"] += 1; res["reorder_pass_ops_changing"] += chg
            prev_pl = pa
        if bad:
            continue
        if l == EXAMPLE + "0" and [seg_fields(x)[1] for x in segs] != EXAMPLE_VALUES:
            res["mismatch"].append((l, " / ".join(seg_fields(x)[1] for x in segs), " / ".join(EXAMPLE_VALUES), "the values of Example c02_run_nonvacuous"))
        if changed_any:
            res["nontrivial"].add(l)
            if len(res["samples"]) < 5:
                res["samples"].append(l[:400])
            if kind != "DR":
                res["whole_runs_changing"] += 1
        if kind != "DR" and int(rest[6]) >= 2 and int(rest[0]) >= 1:
            res["whole_runs_with_reordering"] += 1
    res["distinct_nontrivial"] = len(res.pop("nontrivial"))
    run_shift_runs(ctx, res, max(40, count // 3), seed, modes, shift_lines)      # whole runs WITH the shift pass (DS cases)
    if key is not None:
        _cache[key] = res
    return res



def run_shift_runs(ctx, res, count, seed, modes=(0, 16), lines=None):
    """DS cases: WHOLE runs of DetailedPlacer::place WITH the shift pass (shiftMaxNbCells >= 2; 25 % the default parameter sets of efforts
    1..9; 25 % through Circuit::placeDetailed itself).  The harness records every runShiftsOnCells call through hook 2 of /repo (cells,
    labelled arcs with lemon's flows, lemon's potentials); the model (run_passes_c, tag RS) makes its OWN calls -- row sets of
    RowNeighbourhood, cell list, windows, overlap --, checks every record against its call (same cells in the same order, same multiset
    of labelled arcs as ShiftLp.shift_net) and accepts lemon's answer only if the extracted PROVED checker ShiftLp.shift_cert_ok accepts
    it (so oracle_ok of c02_run_passes_returns is CHECKED for the run).  Compared exactly: the state after construction, at EVERY
    callback (swaps / shifts / reordering of every pass), the final state, both values; every record must be consumed.  Adds keys
    shift_* to res and appends to res["mismatch"] / res["driver_fail"] / res["crash"] / res["check_fail"]."""
    harness = common.build_harness("drun")
    driver = common.build_driver("run")
    if lines is None:
        # + the circuit of Example c02_run_closed_shift_nonvacuous (Properties_C02_run.v): its four answers are lemon's on this case
        lines = common.corpus("C02", ("DS ",)) + [EXAMPLE_SHIFT]
        for m in modes:
            lines += common.harness_gen(harness, ["shift", seed + 500 + m, count // len(modes), m])
    for k in ("shift_cases", "shift_noleg", "shift_runs", "shift_runs_default_parameters", "shift_runs_through_placeDetailed", "shift_calls_recorded_and_certified",
              "shift_runs_with_calls", "shift_runs_with_several_windows_in_a_row_set", "shift_states_compared", "shift_callbacks_changing_placement",
              "shift_max_calls_in_a_run", "shift_oracle_rejected", "shift_record_differs", "shift_second_windows_at_the_overlap_cap_10"):
        res.setdefault(k, 0)
    res["shift_cases"] += len(lines)
    if not lines:
        return res
    impl, _, _ = common.run_both([harness, "run"], None, lines, chunk=100, timeout=600)
    pinp, pmap = [], []
    for l, out in zip(lines, impl):
        o = out.strip()
        if o == "NOLEG" or o == "":
            res["shift_noleg"] += 1
            continue
        segs = [x.strip() for x in o.split(" / ")]
        ctoks, ntoks, rest = split_case(l)
        if len(segs) < 2 or not segs[0].startswith("PARAMS") or not segs[1].startswith("LEG"):
            res["crash"].append((l, o[-300:], "no outcome: " + o[:80], "whole run with the shift pass"))
            continue
        params = segs[0].split()[1:]
        recs = [x[2:] for x in segs if x.startswith("L ")]
        body = [x for x in segs[2:] if not x.startswith("L ")]
        pl0 = [int(x) for x in segs[1].split(";")[1].split()]
        pinp.append("RS " + " ".join(lc.with_placement(ctoks, pl0)) + " " + " ".join(do.nets_for_hp(ntoks)) + " " + " ".join(cap(t) for t in params) +
                    " %d " % len(recs) + " ".join(recs))
        pmap.append((l, rest, params, recs, body))
    pout, _, _ = common.run_both([driver], None, pinp, chunk=50, timeout=900)
    for (l, rest, params, recs, body), o in zip(pmap, pout):
        msegs = [x.strip() for x in o.split(" / ")]
        if not msegs or not msegs[0].startswith("INIT"):
            res["driver_fail"].append((l, o[:200], "the model did not build a state for a circuit the C++ accepted", "whole run with the shift pass"))
            continue
        through = rest[-1] == "1"
        res["shift_runs"] += 1; res["shift_runs_default_parameters"] += rest[0] == "-1"; res["shift_runs_through_placeDetailed"] += through
        res["shift_runs_with_calls"] += bool(recs); res["shift_max_calls_in_a_run"] = max(res["shift_max_calls_in_a_run"], len(recs))
        thrown = [x for x in body if x.startswith("THROW")]
        if thrown:
            res["crash"].append((l, thrown[0][:300], msegs[-1][:200], "placeDetailed with the shift pass throws on a circuit legalization accepts"))
            continue
        if msegs[-1].startswith("ERR") or msegs[-1].startswith("BADPARAMS"):
            kind = "shift_oracle_rejected" if "EOracle" in msegs[-1] else "shift_record_differs" if "ERecord" in msegs[-1] else None
            if kind:
                res[kind] += 1
            why = {"shift_oracle_rejected": "lemon's recorded answer to a runShiftsOnCells call is rejected by ShiftLp.shift_cert_ok on the model's network, or the C++ made fewer calls than the model",
                   "shift_record_differs": "a recorded runShiftsOnCells call differs from the model's call: other cells / order, or another network"}.get(kind, "the model stops")
            res["mismatch"].append((l, "%d segments, %d shift calls" % (len(body), len(recs)), " / ".join(x[:60] for x in msegs[-2:]), "whole run with the shift pass: " + why))
            continue
        if not msegs[-1].startswith("REST"):
            res["mismatch"].append((l, body[-1][:200], msegs[-1][:200], "whole run with the shift pass: no end marker"))
            continue
        if msegs[-1] != "REST 0":
            res["mismatch"].append((l, "%d shift calls recorded" % len(recs), msegs[-1], "whole run with the shift pass: the C++ made more runShiftsOnCells calls than the model"))
            continue
        msegs = msegs[:-1]
        if through:
            msegs = msegs[1:]
        if len(body) != len(msegs):
            res["mismatch"].append((l, "%d segments" % len(body), "%d segments" % len(msegs), "whole run with the shift pass: number of exposed states"))
            continue
        prev = None; bad = False
        for k, (a, m) in enumerate(zip(body, msegs)):
            ta, va, pa, ra, ca = seg_fields(a)
            tm, vm, pm, rm, _ = seg_fields(m)
            got, want = ((ta, pa), (tm, pm)) if through else ((ta, va, pa, ra), (tm, vm, pm, rm))
            res["shift_states_compared"] += 1
            if got != want:
                res["mismatch"].append((l, " | ".join(got)[:400], " | ".join(want)[:400], "whole run with the shift pass: segment %d (%s) of %d, %d shift calls" % (k, ta, len(body), len(recs))))
                bad = True
                break
            if ca and ca != "ok":
                res["check_fail"].append((l, ca, "", "DetailedPlacer::check() after a whole run with the shift pass"))
            if prev is not None and pa != prev and ta == "CB":
                res["shift_callbacks_changing_placement"] += 1
            prev = pa
        if bad:
            continue
        res["shift_calls_recorded_and_certified"] += len(recs)
        # windows of maxNbCells >= 21 cells followed by a window that starts maxNbCells - 10 cells later (overlap capped at 10)
        mnb = int(params[4])
        if mnb >= 21:
            rc = [x.split() for x in recs]
            for a_, b_ in zip(rc, rc[1:]):
                ka, kb = int(a_[0]), int(b_[0])
                if ka == mnb and a_[1 + mnb - 10:1 + mnb] == b_[1:11][:min(10, kb)] and kb >= 1:
                    res["shift_second_windows_at_the_overlap_cap_10"] += 1
        # several windows in one row set: the number of calls exceeds the number of row sets a pass can have (one per row at most)
        nrows = int(seg_fields(msegs[0] if not through else o.split(" / ")[0])[3].split()[0] or 0) if not through else 0
        if nrows and int(params[0]) and len(recs) > nrows * int(params[0]):
            res["shift_runs_with_several_windows_in_a_row_set"] += 1
    return res


def report(ctx, res, prop):
    """turns the result of run_closed into violations of `prop` (C02 or C05): concrete inputs first, then the tie"""
    found = False
    if prop == "C05":
        for x in res["value_increases"][:2]:
            found = True
            ctx.violation("detailed placement worsens the value it optimises across a whole pass driven on the real DetailedPlacer: " + x[1],
                          {"case": x[0], "what": x[3], "format": "DR/DW lines of harness/drun.cpp", "how": "./check C05 --replay <this file>"})
    if prop == "C02":
        for x in (res["overflow_throws"] + [y for y in res["crash"]])[:2]:
            found = True
            ctx.violation("placeDetailed / a pass of DetailedPlacer fails on a circuit that legalization accepts, with parameters the parameter "
                          "check accepts: " + str(x[1])[:200],
                          {"case": x[0], "what": x[3] if len(x) > 3 else x[2], "format": "DR/DW lines of harness/drun.cpp", "how": "./check C02 --replay <this file>"})
    bad = res["mismatch"] + res["driver_fail"] + res["check_fail"] + (res["crash"] if prop != "C02" else [])
    if bad and not found:
        x = bad[0]
        ctx.violation("correspondence DetailedRun.v (closed model of DetailedPlacer::run, runSwaps, runReordering) <-> place_detailed.cpp broken "
                      "(%d of %d cases differ); no input violating %s found" % (len(bad), res["cases"], prop),
                      {"broken": "correspondence of coq/DetailedRun.v (theorems of Properties_C02_run.v / Properties_C05_run.v)",
                       "first_difference": {"case": x[0], "implementation": str(x[1])[:600], "model": str(x[2])[:600], "where": str(x[3])[:200] if len(x) > 3 else ""}},
                      found_input=False)

def summary(res):
    return {k: (len(v) if isinstance(v, list) else v) for k, v in res.items() if k != "samples"}


if __name__ == "__main__":
    seed = int(sys.argv[1]) if len(sys.argv) > 1 else 1
    count = int(sys.argv[2]) if len(sys.argv) > 2 else 600
    r = run_closed(None, count, seed)
    print(summary(r))
    for x in r["overflow_throws"][:2]:
        print("VIOLATION of C02 (placeDetailed fails on accepted parameters):", " | ".join(str(y)[:300] for y in x[1:]), "|", x[0][:900])
    for x in (r["mismatch"] + r["driver_fail"] + r["crash"] + r["check_fail"])[:4]:
        print("FAIL (closed model of DetailedPlacer::run differs from the C++):", " | ".join(str(y)[:600] for y in x[1:]), "|", x[0][:900])
    sys.exit(1 if r["mismatch"] or r["driver_fail"] or r["crash"] or r["check_fail"] or r["overflow_throws"] else 0)
