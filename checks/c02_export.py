"""C02 / C04, tie of the export model (coq/DetailedExport.v, theorems c02_write_back_* of coq/Properties_C02.v and c04_write_back_* of coq/Properties_C04.v):
harness/dexport.cpp builds DetailedPlacement::fromIspdCircuit on a legalized generated circuit, performs a sequence of
swap / insert operations (when canSwap / canInsert hold), calls DetailedPlacement::exportPlacement and prints the
circuit; ocaml/driver_export.ml runs write_back c (run_dops (from_circuit c) ops).  The two circuits are compared
EXACTLY (x, y, orientation of every cell).  Independently of the model, the C++ output is handed to the proved
checkers legalb / orient_okb (tag LC of the main driver): the statement of the theorems evaluated on the real code.

Library: run_export(ctx_or_None, count, seed) -> dict.  Stand-alone: python3 -m checks.c02_export [seed] [count]
(exit 1 when the model and the code differ or an exported circuit is not legal / has a wrong orientation)."""
import subprocess
import sys
from tools import common


def split_ex(line):
    """'EX <rows> <cells> nops ops' -> circuit tokens (rows + cells), op tokens"""
    t = line.split()[1:]
    nr = int(t[0]); p = 1 + 5 * nr
    nc = int(t[p]); p += 1 + 8 * nc
    return t[:p], t[p:]


def run_export(ctx, count, seed):
    harness = common.build_harness("dexport")
    driver = common.build_driver("export")
    main_driver = common.build_driver()
    lines = common.corpus("C02", ("EX ",)) + common.harness_gen(harness, ["rand", seed, count])
    impl, model, _ = common.run_both([harness, "run"], [driver], lines, chunk=500)
    res = {"runs": len(lines), "mismatch": [], "model_illegal": [], "impl_illegal": [], "impl_orient": [], "crash": [],
           "moved": 0, "row_changes": 0, "err": 0, "input_illegal": 0, "input_orient_pre_fails": 0, "lines": lines}
    def lc(pls):
        """proved checkers (legalb, orient_okb against the input circuit) on externally supplied placements"""
        if not pls:
            return []
        pm = subprocess.run([main_driver], input="\n".join(pls) + "\n", capture_output=True, text=True, timeout=900)
        out = pm.stdout.split("\n")[:len(pls)]
        return out + ["<missing>"] * (len(pls) - len(out))

    pre_lines, post_lines, idx = [], [], []
    for k, (l, i, m) in enumerate(zip(lines, impl, model)):
        i = i.strip(); m = m.strip()
        if i.startswith("ERR") and m == "ERR":
            res["err"] += 1
            continue
        if not i.startswith("OK"):
            res["crash"].append((l, i[-300:], "the harness did not return an exported circuit"))
            continue
        body, _, flags = m.partition(" | ")
        if body != i:
            res["mismatch"].append((l, i, m))
        ctoks, _ = split_ex(l)
        nr = int(ctoks[0]); nc = int(ctoks[1 + 5 * nr]); cells = ctoks[2 + 5 * nr:]
        pl = i.split()[1:]
        moved = sum(1 for j in range(nc) if cells[8 * j] != pl[3 * j] or cells[8 * j + 1] != pl[3 * j + 1])
        rowch = sum(1 for j in range(nc) if cells[8 * j + 1] != pl[3 * j + 1])
        res["moved"] += 1 if moved else 0
        res["row_changes"] += 1 if rowch else 0
        orig = []
        for j in range(nc):
            orig += [cells[8 * j], cells[8 * j + 1], cells[8 * j + 4]]
        pre_lines.append("LC " + " ".join(ctoks) + " " + " ".join(orig))
        post_lines.append("LC " + " ".join(ctoks) + " " + " ".join(pl))
        idx.append((k, flags.split()))
    pre, post = lc(pre_lines), lc(post_lines)
    for (k, mf), a, b in zip(idx, pre, post):
        a = a.split(); b = b.split()
        if len(a) < 2 or len(b) < 2:
            res["crash"].append((lines[k], " ".join(a + b), "the checker driver failed"))
            continue
        # hypotheses of the theorems: the input is legal (c02) and carries the prescribed orientations (c04: orient_ok before c,
        # which Circuit::legalize does not guarantee on side-by-side rows of different orientations: c04_sidebyside_orientation_refuted)
        if a[0] != "1":
            res["input_illegal"] += 1
            continue
        if b[0] != "1":
            res["impl_illegal"].append((lines[k], impl[k][-300:], "the circuit exported after a sequence of feasible swap / insert operations is not legal (proved checker legalb)"))
        if len(mf) == 3 and mf[0] != "1":
            res["model_illegal"].append((lines[k], model[k][-300:], "the MODEL's exported circuit fails legalb (contradicts c02_write_back_legal)"))
        if a[1] != "1":
            res["input_orient_pre_fails"] += 1
            continue
        if b[1] != "1":
            res["impl_orient"].append((lines[k], impl[k][-300:], "the circuit exported after a sequence of feasible swap / insert operations has a cell with a wrong orientation (proved checker orient_okb)"))
        if len(mf) == 3 and mf[1] != "1":
            res["model_illegal"].append((lines[k], model[k][-300:], "the MODEL's exported circuit fails orient_okb (contradicts c04_write_back_orient_ok)"))
    return res


def summary(res):
    return {k: (len(v) if isinstance(v, list) else v) for k, v in res.items() if k != "lines"}


if __name__ == "__main__":
    seed = int(sys.argv[1]) if len(sys.argv) > 1 else 1
    count = int(sys.argv[2]) if len(sys.argv) > 2 else 1500
    r = run_export(None, count, seed)
    print(summary(r))
    bad = r["mismatch"] + r["model_illegal"] + r["impl_illegal"] + r["impl_orient"] + r["crash"]
    for b in bad[:3]:
        print(b)
    sys.exit(1 if bad else 0)
