"""C02 -- detailed placement keeps the placement legal at every exposed state.
Proof: coq/Properties_C02.v (legality of the rows is an invariant of every HISTORY of guarded
swap/insert/unplace/place operations and of shift passes satisfying shift_ok; the exposed circuit is Circuit.legal; the closed reordering
pass separately; fromIspdCircuit + constructor + check() accept a legal, correctly oriented circuit of std_design.  NOT modelled:
Circuit::placeDetailed / DetailedPlacer::run and the throws of the passes themselves -- validated per run).  Tie: (a) harness/dplace.cpp: DetailedPlacement driven with random
and EXHAUSTIVELY enumerated operation sequences, the whole structure compared with Moves.v after every
operation, DetailedPlacement::check() whenever every cell is placed; the same sequences replayed on the
CONCRETE model MovesConcrete.v (proved to refine Moves.v): the private index arrays rowFirstCell_/
rowLastCell_/cellPred_/cellNext_/cellRow_/cellX_/cellY_/cellOrientation_ compared after every operation
(tag DC); (b) harness/dopt.cpp: every optimiser
pass of DetailedPlacer driven directly with arbitrary window arguments, the placement it holds checked
with the proved checker legalb; for every call of runShiftsOnCells (hook coloquinte_verif_shift_hook) the network the
C++ built is compared with ShiftLp.shift_net, lemon's potentials are checked dual feasible by the extracted proved
checker (c02_shift_dual_feasible_legal) and the positions written are compared with potential - potential(fixed); (c) Circuit::placeDetailed with a recording callback: legalb at every
Detailed callback and on return, cells it does not optimise stay where legalization put them, it never
fails on a circuit legalization accepts; (d) harness/dinit.cpp (tag FC): DetailedPlacement::fromIspdCircuit on
generated circuits as they are, after Circuit::legalize, perturbed, and on degenerate ones (no rows, no cells,
only fixed cells): the row structure it builds (segments in sorted order, rowCells() with x/width/polarity/
orientation) or the exception it throws, compared EXACTLY with DetailedInit.v (from_circuit), the model of
theorem c02_from_circuit_accepts_legal."""
import json
from tools import common
from checks import detailed_common as dc
from checks import dopt_common as do

LEVEL = "proof"


def run(ctx):
    # further property files of C02: RowNeighbourhood (coq/Properties_C02_neigh.v), review gaps (coq/Properties_gaps1.v: legalize ->
    # from_circuit chain, interleaved histories)
    proof_ok, proof = common.proof_status_all(ctx, "C02", ["C02_neigh", "gaps1", "C02_run", "C02_checks"])
    s = ctx.seed
    harness = common.build_harness("dplace")
    driver = common.build_driver()
    lines = common.corpus("C02", ("DM ",))
    lines += common.harness_gen(harness, ["rand", s, 20000 if ctx.quick else 300000])
    exh = common.harness_gen(harness, ["exh", 1]) + common.harness_gen(harness, ["exh", 2])
    if not ctx.quick:
        exh += common.harness_gen(harness, ["exh", 3])
    lines += exh
    impl, model, _ = common.run_both([harness, "run"], [driver], lines)
    # the same sequences on the concrete (pointer array) model: arrays + abs(arrays) after every operation
    dc_lines = ["DC" + l[2:] for l in (lines if not ctx.quick else lines[:len(lines) - len(exh)][:8000] + exh)]
    dc_impl, dc_model, _ = common.run_both([harness, "run"], [driver], dc_lines)
    dc_mism = [(l, i, m) for l, i, m in zip(dc_lines, dc_impl, dc_model)
               if i.replace(" CHECKFAIL", "").strip() != m.strip() or "ABS-NONE" in m]
    dc_ops = sum(m.count("/ OK") for m in dc_model)
    # (d) the construction of the structure: fromIspdCircuit against DetailedInit.from_circuit
    fc_harness = common.build_harness("dinit")
    fc_lines = common.corpus("C02", ("FC ",)) + common.harness_gen(fc_harness, ["rand", s + 60, 1500 if ctx.quick else 40000])
    fc_impl, fc_model, _ = common.run_both([fc_harness, "run"], [driver], fc_lines)
    fc_mism = [(l, i, m) for l, i, m in zip(fc_lines, fc_impl, fc_model) if i.strip() != m.strip()]
    fc_kinds = {}
    fc_norows_fail = []
    for l, i in zip(fc_lines, fc_impl):
        k = " ".join(i.split()[:2]) if i.startswith("ERR") else i.split(" ")[0]
        fc_kinds[k] = fc_kinds.get(k, 0) + 1
        t = l.split()
        if t[1] == "0" and not i.startswith("OK"):
            cells = [t[3 + 8 * j:11 + 8 * j] for j in range(int(t[2]))]
            if all(c[6] == "1" for c in cells):
                fc_norows_fail.append((l, i[-300:], "fromIspdCircuit fails on a circuit without rows and without movable cells, "
                                                   "which legalization accepts (finding F20)"))
    mism, ofail, nontriv = [], [], set()
    ops_ok = ops_no = 0
    for l, i, m in zip(lines, impl, model):
        if "CHECKFAIL" in i:
            ofail.append((l, i[-300:], "DetailedPlacement::check() fails after a sequence of feasible operations"))
        if "THROW" in i or i.strip().endswith(("ABORT", "SEGV", "FPE", "SIGNAL")) or i.startswith("DIED"):
            ofail.append((l, i[-300:], "an operation whose guard (canSwap/canInsert/canPlace) held threw or crashed"))
        plain = i.replace(" CHECKFAIL", "")
        if plain.strip() != m.strip():
            mism.append((l, i, m))
        k = i.count("/ OK")
        ops_ok += k; ops_no += i.count("/ NO")
        if k:
            nontriv.add(l)
    ofail += fc_norows_fail[:1]
    # (e) the export: write_back (DetailedExport.v) against DetailedPlacement::exportPlacement after sequences of swaps/inserts,
    #     and the proved checkers legalb / orient_okb on the exported C++ circuit (theorems c02_write_back_*, c04_write_back_*)
    from checks import c02_export as ce
    eres = ce.run_export(ctx, 1500 if ctx.quick else 40000, seed=s + 80)
    ofail += [(l, i, "DetailedPlacement::exportPlacement after a sequence of swaps/inserts from a legal circuit: the exported circuit is not legal (proved checker legalb = false): " + str(why))
              for l, i, why in eres["impl_illegal"][:2]]
    ofail += [(l, i, "the harness got no exported circuit: " + str(why)) for l, i, why in eres["crash"][:1]]
    dres = do.run_dopt(ctx, 3000 if ctx.quick else 60000, seed=s + 40)
    cres = dc.run_detailed(ctx, 1200 if ctx.quick else 30000, seed=s + 20, prop="C02")
    # the CLOSED reordering pass (coq/Reorder.v; theorems c02_reordering_write_back_accepted, c02_closed_reordering_*): Reorder.run against
    # runReorderingOnCells, exported circuit and both model values exact; a THROW of the C++ on a window of distinct placed cells is a violation
    from checks import c05_reorder as cr
    rres = cr.run_reorder(ctx, 600 if ctx.quick else 12000, seed=s, extra=(dres["lines"], dres["impl"]))
    ofail += [(x[0], str(x[1])[:2000], "runReorderingOnCells driven directly on a window of distinct cells of the rows did not complete: " + str(x[3])) for x in rres["throws"][:2]]
    for key in ("legal_fail", "shift_fail", "check_fail", "throw_fail", "crash"):
        ofail += [(l, w, "DetailedPlacer driven directly: " + why) for l, w, why in dres[key][:2]]
    lp = dres["lp"]
    ofail += [(l, rec[:3000], "DetailedPlacer::runShiftsOnCells driven directly: the positions written violate the ordering/boundary constraints "
               "(proved guard shift_ok = false): " + why) for l, rec, why in lp["shift_ok_fail"][:2]]
    for key in ("legal_fail", "fixed_fail", "throw_fail", "crash"):
        ofail += [(x[0], x[1], "Circuit::placeDetailed: " + x[2]) for x in cres[key][:2]]
    for l, i, why in ofail[:3]:
        ctx.violation("/repo violates C02: " + why, {"case": l, "implementation_output": i, "why": why,
                                                     "format": "DM: harness/dplace.cpp, DO: harness/dopt.cpp, DP: harness/detailed.cpp, FC: harness/dinit.cpp"})
    if not ofail:
        if mism:
            ctx.violation("correspondence Moves.v <-> DetailedPlacement broken (%d of %d operation sequences differ); no illegal exposed state found"
                          % (len(mism), len(lines)),
                          {"broken": "correspondence of coq/Moves.v (theorem c02_moves_keep_rows_legal)",
                           "first_difference": {"case": mism[0][0], "implementation": mism[0][1], "model": mism[0][2]}}, found_input=False)
        if dc_mism:
            ctx.violation("correspondence MovesConcrete.v <-> the index arrays of DetailedPlacement broken (%d of %d operation sequences differ); no illegal exposed state found"
                          % (len(dc_mism), len(dc_lines)),
                          {"broken": "correspondence of coq/MovesConcrete.v (theorem c02c_concrete_refines_abstract)",
                           "first_difference": {"case": dc_mism[0][0], "implementation": dc_mism[0][1], "model": dc_mism[0][2]}}, found_input=False)
        if fc_mism:
            ctx.violation("correspondence DetailedInit.v <-> DetailedPlacement::fromIspdCircuit broken (%d of %d circuits differ); no illegal exposed state found"
                          % (len(fc_mism), len(fc_lines)),
                          {"broken": "correspondence of coq/DetailedInit.v (theorem c02_from_circuit_accepts_legal)",
                           "first_difference": {"case": fc_mism[0][0], "implementation": fc_mism[0][1], "model": fc_mism[0][2]}}, found_input=False)
        if eres["mismatch"] or eres["model_illegal"]:
            first = (eres["mismatch"] or eres["model_illegal"])[0]
            ctx.violation("correspondence DetailedExport.v write_back <-> DetailedPlacement::exportPlacement broken (%d of %d runs differ, %d model outputs not legal); no illegal exposed state found"
                          % (len(eres["mismatch"]), eres["runs"], len(eres["model_illegal"])),
                          {"broken": "correspondence of coq/DetailedExport.v (theorems c02_write_back_legal, c02_detailed_placement_exposes_legal_circuits)",
                           "first_difference": {"case": first[0], "implementation": str(first[1])[:2000], "model": str(first[2])[:2000]}}, found_input=False)
        for key, what, thm in (("net_diff", "the min-cost-flow network built by DetailedPlacer::runShiftsOnCells differs from the model ShiftLp.shift_net on the same state",
                                "correspondence of coq/ShiftLp.v shift_net / pos_arcs (theorems c02_shift_constraints_are_dual_feasibility, c02_shift_dual_feasible_legal)"),
                               ("dual_infeasible", "lemon's potentials for a shift pass are not dual feasible for the model's network",
                                "hypothesis `dual_feasible = true` of c02_shift_dual_feasible_legal"),
                               ("pos_diff", "the positions written by runShiftsOnCells are not potential(cell) - potential(fixed)",
                                "correspondence of coq/ShiftLp.v positions_of (theorem c02_shift_dual_feasible_legal)"),
                               ("driver_fail", "a shift-pass record could not be evaluated by the model driver", "shift-LP correspondence (harness/dopt.cpp hook record <-> ocaml/driver_shift.ml)")):
            if lp[key]:
                ctx.violation(what + " (%d of %d calls); no illegal exposed state found" % (len(lp[key]), lp["records"]),
                              {"broken": thm, "first_difference": {"case": lp[key][0][0], "record": lp[key][0][1][:3000], "detail": lp[key][0][2]}}, found_input=False)
        if rres["mismatch"] or rres["driver_fail"]:
            x = (rres["mismatch"] + rres["driver_fail"])[0]
            ctx.violation("correspondence Reorder.v closed reordering pass <-> RowReordering / runReorderingOnCells broken (%d runs differ); no illegal exposed state found"
                          % (len(rres["mismatch"]) + len(rres["driver_fail"])),
                          {"broken": "correspondence of coq/Reorder.v run (theorems c02_reordering_write_back_accepted, c02_closed_reordering_exposes_legal, c02_closed_reordering_keeps_orientation)",
                           "first_difference": {"case": x[0], "detail": str(x[1:])[:2000]}}, found_input=False)
        if not proof_ok:
            ctx.violation("proof obligations of Properties_C02.v do not check", {"broken": "Properties_C02.v", "detail": proof}, found_input=False)
    from checks import c02_neigh
    cov_n, _ = c02_neigh.run_neigh(ctx, 2000 if ctx.quick else 200000, ctx.seed)
    # closed model of DetailedPlacer::run / runSwaps / runReordering (coq/DetailedRun.v): whole passes and whole runs, exact
    from checks import c02_run as crun
    runres = crun.run_closed(ctx, 3000 if ctx.quick else 60000, ctx.seed + 90)
    crun.report(ctx, runres, "C02")
    # the internal consistency tests (DetailedPlacement::check, IncrNetModel::check, DetailedPlacer::check): model functions vs the C++
    # on reached and corrupted states (coq/InternalChecksDetailed.v, Properties_C02_checks.v)
    from checks import internal_checks
    ick = internal_checks.run_ichecks(ctx, 0, 250 if ctx.quick else 5000, ctx.seed + 71)
    internal_checks.report(ctx, ick)
    cov = dict(proof)
    cov.update(cov_n)
    cov["closed_run_tie"] = crun.summary(runres)
    cov.update(internal_checks.summary(ick))
    cov.update({"trusted_base": common.TRUSTED_BASE + ["the five index arrays of DetailedPlacement: modelled (MovesConcrete.v), proved to refine the per-row lists, and compared array by array (tag DC); the lists are compared through rowCells()",
                                                        "lemon NetworkSimplex (shift pass) is not modelled: legality after a shift pass follows (proved) from dual feasibility of its potentials, which is re-checked per call "
                                                        "(needs the hook coloquinte_verif_shift_hook in /repo), and the positions written are re-checked with the proved guard shift_ok"],
                "evaluations": len(lines) + dres["runs"] + cres["runs"] + len(fc_lines) + eres["runs"],
                "distinct_nontrivial": len(nontriv) + dres["nontrivial"] + cres["moved_runs"],
                "rule": "DM: 1-4 row segments (several per y), 1-7 cells with all polarities, 1-10 random ops (swap, insert, unplace, place at arbitrary x) + "
                        "EXHAUSTIVE: every sequence of 1 and 2 (thorough: 3) swap/insert operations over all cell/row/predecessor arguments from small initial "
                        "placements; FC: circuits of the DP generator as generated / after Circuit::legalize / with one cell perturbed + degenerate circuits "
                        "(no rows, no cells, only fixed cells, rows of different heights); DO/DP as in C05, including its stress streams (circuits translated to 2^24 + odd .. +-(2^30 - small) without shift pass; rows of 8..12 cells with reordering windows of 6..8 cells: checks/stress_streams.py, counts under stress_streams). non-trivial = at least one operation was performed / the placement changed; distinct = distinct case lines",
                "exhaustive": True, "exhaustive_sequences": len(exh), "ops_performed": ops_ok, "ops_refused": ops_no,
                "direct_drive": do.summary(dres), "placeDetailed_runs": dc.summary(cres), "closed_reordering_pass_tie": cr.summary(rres),
                "exposed_states_checked_legal": cres["states"] + dres["ops"],
                "shift_passes_checked_against_proved_guard": dres["shifts_checked"],
                "shift_lp_certificates": do.lp_summary(lp),
                "export_tie": ce.summary(eres),
                "samples": [lines[0], exh[len(exh) // 2], cres["lines"][0][:500]],
                "concrete_array_sequences": len(dc_lines), "concrete_array_ops_performed": dc_ops,
                "concrete_array_differences": len(dc_mism),
                "from_circuit_cases": len(fc_lines), "from_circuit_outcomes": fc_kinds, "from_circuit_differences": len(fc_mism),
                "model_vs_impl_differences": len(mism) + len(dc_mism) + len(fc_mism) + len(lp["net_diff"]) + len(lp["dual_infeasible"]) + len(lp["pos_diff"]), "impl_outputs_violating_statement": len(ofail)})
    return ctx.finish(LEVEL, cov, ["legality after the shift pass: proved from dual feasibility of the solver's potentials, which is checked per call (%d calls this run) together with the guard shift_ok on the positions written"
                                   % lp["records"] if lp["records"] else
                                   "legality after the shift pass is validated with the proved guard shift_ok only: /repo does not carry the hook coloquinte_verif_shift_hook, dual feasibility of the solver's potentials was not checked",
                                   "model tied to the code by exact comparison on the cases of this run",
                                   "the theorems are about every history of row-model operations (a refused operation is a no-op of the model), not about DetailedPlacer::run; 'never fails on a circuit legalization accepts' is proved for fromIspdCircuit + constructor + check() under std_design / legal / orient_ok of the input, the passes' throws are validated absent per run; no theorem covers a history interleaving swap / shift with reorder passes",
                                   "the EX export tie has no shift step; when legalization fails inside placeDetailed the end state is not legalb-checked; Properties_C02_neigh.v is about the lists RowNeighbourhood returns, their use by runSwaps is not modelled"])


def replay(ctx, path):
    r = json.load(open(path))["replay"]
    case = r.get("case") or r["first_difference"]["case"]
    if case.startswith(("DR", "DW")):
        from checks import c02_run as crun
        res = crun.run_closed(ctx, 0, 0, lines=[case])
        print("case:", case); print(crun.summary(res))
        bad = res["mismatch"] + res["driver_fail"] + res["check_fail"] + res["crash"] + res["overflow_throws"] + res["value_increases"]
        for x in bad[:3]:
            print("  ", " | ".join(str(y)[:400] for y in x[1:]))
        return 1 if bad else 0
    if case.startswith("EX"):
        from checks import c02_export as ce
        harness = common.build_harness("dexport"); driver = common.build_driver("export")
        impl, model, _ = common.run_both([harness, "run"], [driver], [case])
        print("case :", case); print("impl :", impl[0]); print("model:", model[0])
        return 1 if impl[0].strip() != model[0].partition(" | ")[0].strip() else 0
    name = {"DM": "dplace", "DC": "dplace", "DO": "dopt", "DP": "detailed", "FC": "dinit"}[case[:2]]
    harness = common.build_harness(name)
    driver = common.build_driver()
    if name == "dinit":
        impl, model, _ = common.run_both([harness, "run"], [driver], [case])
        print("case :", case); print("impl :", impl[0]); print("model:", model[0])
        return 1 if impl[0].strip() != model[0].strip() else 0
    if name == "dplace":
        impl, model, _ = common.run_both([harness, "run"], [driver], [case])
        print("case :", case); print("impl :", impl[0]); print("model:", model[0])
        return 1 if impl[0].replace(" CHECKFAIL", "").strip() != model[0].strip() or "CHECKFAIL" in impl[0] or "THROW" in impl[0] else 0
    impl, _, _ = common.run_both([harness, "run"], None, [case])
    print("case :", case); print("impl :", impl[0])
    print("(legality of each exposed state: re-run ./check C02 with this case in corpus/C02/cases.txt)")
    return 1
