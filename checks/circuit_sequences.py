"""Sequence stream for the Circuit object (used by checks/c15.py and checks/c09.py; placement-stage sequences, tag SP, by checks/c01.py
and checks/c11.py).

One Circuit is edited through the real public setters (setCellX/Y/Width/Height/Orientation/IsFixed/IsObstruction,
setSolution, setRows, setupRows, addNet, setNets, copy assignment) in random order and is queried after every step
(computeRows(), computeRows(extra), hpwl(), report(); the same state twice; a copy; a copy edited on its own).
harness/circseq.cpp dumps, for every query, the PUBLIC state of the object at that moment as ordinary one-shot case
lines (tags CR and HP of the main driver) next to the answer.  The model is a pure function of the state, so a
stale answer (any state kept between calls that is not refreshed) shows as a model/implementation difference on a
one-shot case, and the statement itself is evaluated on the dumped state with the answer that was given."""
import collections
from tools import common

Record = collections.namedtuple("Record", "case step kind cr rows hp hpwl")
# case: the SQ line; step: index of the step after which the query was made (0 = after construction);
# kind: q computeRows(), x computeRows(extra), c copy of the circuit, m copy edited on its own;
# cr / hp: one-shot case lines (formats of harness/freespace.cpp, harness/hpwl.cpp); rows: segments as printed by
# harness/freespace.cpp; hp, hpwl: None for kind x


def run_sequences(seed, count, extra_cases=()):
    """returns (records, anomalies, stats): anomalies = [(case, text)] for steps that threw / crashed"""
    harness = common.build_harness("circseq")
    cases = list(extra_cases) + (common.harness_gen(harness, [seed, count]) if count > 0 else [])
    impl, _, _ = common.run_both([harness, "run"], None, cases, chunk=300)
    records, anomalies = [], []
    stats = {"sequences": len(cases), "steps": 0, "queries": 0, "repeated_queries_same_answer": 0}
    for case, out in zip(cases, impl):
        stats["steps"] += _nsteps(case)
        for rec in out.split(" | "):
            f = rec.split(" ~ ")
            if len(f) == 6:
                stats["queries"] += 1
                records.append(Record(case, int(f[0]), f[1], f[2].strip(), f[3].strip(), f[4].strip() or None,
                                      int(f[5]) if f[5].strip() else None))
            elif len(f) == 2 and f[1].startswith("= "):
                n = int(f[1][2:])
                stats["queries"] += n
                stats["repeated_queries_same_answer"] += n
            else:
                anomalies.append((case, rec))
    return records, anomalies, stats


PRecord = collections.namedtuple("PRecord", "case step op args state nets mine fresh")
# a placement-stage step of an SP case (harness/circseq.cpp): op 16 legalize / 17 placeDetailed with its int arguments; state: LG
# circuit tokens (rows + 8-field cells) of the public state right before the call; nets: as the harness set them; mine: outcome on
# the object with its history; fresh: outcome on a circuit built from scratch with that public state


def run_placement_sequences(seed, count, extra_cases=(), gen="p"):
    """SP cases: legalize / placeDetailed called on ONE Circuit between public edits, and on a fresh circuit holding the same public
    state.  gen: generator of harness/circseq.cpp, "p" (general, C01) or "r" (legal row-high placements kept legal by the edits, C11).
    returns (precords, anomalies, stats); anomalies = [(case, text)] for steps that threw / crashed"""
    harness = common.build_harness("circseq")
    cases = list(extra_cases) + (common.harness_gen(harness, [gen, seed, count]) if count > 0 else [])
    impl, _, _ = common.run_both([harness, "run"], None, cases, chunk=300)
    precs, anomalies = [], []
    stats = {"sequences": len(cases), "steps": 0, "other_queries": 0, "legalize_calls": 0, "placeDetailed_calls": 0}
    for case, out in zip(cases, impl):
        stats["steps"] += _nsteps(case)
        for rec in out.split(" | "):
            f = rec.split(" ~ ")
            if len(f) == 7 and f[1] == "L":
                a = [int(t) for t in f[2].split()]
                precs.append(PRecord(case, int(f[0]), a[0], a[1:], f[3].split(), f[4].strip(), f[5].strip(), f[6].strip()))
                stats["legalize_calls" if a[0] == 16 else "placeDetailed_calls"] += 1
            elif len(f) == 6:
                stats["other_queries"] += 1
            elif len(f) == 2 and f[1].startswith("= "):
                stats["other_queries"] += int(f[1][2:])
            else:
                anomalies.append((case, rec))
    return precs, anomalies, stats


def _nsteps(case):
    """number of steps of an SQ / SP line (parsed from the front: rows, extra obstacles (SQ), cells, nets, then ns)"""
    v = [int(t) for t in case.split()[1:]]
    sp = case.startswith("SP")
    try:
        p = 1 + 5 * v[0]
        if sp:
            p += 1 + 8 * v[p]
        else:
            p += 1 + 4 * v[p]
            p += 1 + 7 * v[p]
        nn = v[p]
        p += 1
        for _ in range(nn):
            p += 1 + 3 * v[p]
        return v[p] if len(v) == p + 1 + 8 * v[p] else 0
    except IndexError:
        return 0


def steps_text(case, upto=None):
    """readable list of the steps of an SQ line (for violation reports)"""
    names = {1: "setCellX", 2: "setCellY", 3: "setCellWidth", 4: "setCellHeight", 5: "setCellOrientation", 6: "setCellIsFixed",
             7: "setCellIsObstruction", 8: "setSolution", 9: "setRows(edit row)", 10: "setRows(drop/add row)", 11: "setupRows",
             12: "addNet", 13: "setNets(keep first a)", 14: "(no edit)", 15: "circuit = copy of itself",
             16: "legalize(effort a; b=1: ordering c/10 d/10 e/10)", 17: "placeDetailed(effort a; reorderingMaxNbCells b, reorderingNbRows c if > 0)",
             18: "setSolution(cell a at x=b y=c, cell d at x=e y=f, orientations kept)"}
    v = case.split()
    ns = _nsteps(case)
    tail = v[len(v) - 8 * ns:]
    out = []
    for s in range(ns):
        t = [int(x) for x in tail[8 * s:8 * s + 8]]
        out.append("%d: %s %s q=%d" % (s + 1, names.get(t[0], "?"), t[1:7], t[7]))
        if upto is not None and s + 1 >= upto:
            break
    return out


def hpwl_answers(records):
    """distinct (HP one-shot case line, value hpwl() returned inside the sequence) pairs -> first record showing it"""
    out = {}
    for r in records:
        if r.hp is not None and r.hpwl is not None:
            out.setdefault((r.hp, r.hpwl), r)
    return out
