"""C10 -- busy-circuit protocol and exception safety of placement calls.
Proof: coq/Properties_C10.v over coq/Api.v (state machine of the Circuit object: setters, the three placement
entry points with their callback/exception control flow, oracles for what the algorithms compute).
Tie: harness/api.cpp runs scripted scenarios on /repo's Circuit (a counting run per instance, then ONE RUN PER
CALLBACK INDEX with the callback throwing there: exhaustive per instance); inside every callback invocation and after
every call it issues the structural setters (acceptable and unacceptable arguments), unguarded setters and one more
placement call.  The extracted model is fed the same operations and, as oracle, the placements the implementation
exposed; it predicts every operation's outcome (accepted / refused / rejected / exception class of a call), the hash of
the full circuit state after every operation and the final state.  The statement itself is ALSO evaluated on the
implementation's output, independently of the model.
Stream ep (harness runEP): scenarios through EVERY public placement entry point of Circuit -- place(effort) and the effort overloads
of placeGlobal / legalize / placeDetailed (all four inline in coloquinte.hpp) and the three (params[, callback]) overloads -- ended
by return or by an exception at every point where one can arise (rejected effort, rejected parameters, infeasible legalization =
the second step of place(effort), callback exception at every index), followed by the guarded setters, a further call through any
entry point and setters again; judged by the statement on the implementation's output, compared operation by operation with a
copy of the circuit that is not marked busy, and (effort overloads) with the composition of the three MODELLED overloads.
Static part: tools/circuit_access.py -> coq/CircuitAccess_gen.v -> c10_structural_setters_guarded_in_source (an entry point takes
the in-use flag only through its scope guard object; a direct write to isInUse_ breaks the obligation)."""
import json
from tools import common

LEVEL = "proof"
GUARDED = {1, 2, 3, 4, 5, 6, 7}
FORMAT = ("BZ stage(0 global,1 legalize,2 detailed) hascb pvar(0 valid,1-6 an invalid parameter set,7 library defaults,8-17 accepted boundary values: see mkParams in harness/api.cpp) effort throwk(callback index that throws, -1 none) "
          "smode(ops per callback: 1 guarded setters,2 placement setters,4 size setters,8 nested call,16 net weights,32 nested=detailed,64 nested has bad params) "
          "pmode(ops after the call) seed nrows (minX maxX minY maxY orient)* ncells (x y w h orient pol fixed obs)* nnets (npins (cell xo yo)* w2)*")


class P:
    """reader of the harness's trace tokens (see harness/api.cpp)"""

    def __init__(self, toks):
        self.t, self.p = toks, 0

    def nx(self):
        v = int(self.t[self.p]); self.p += 1
        return v

    def vec(self, k=1):
        n = self.nx()
        out = [int(x) for x in self.t[self.p:self.p + n * k]]
        self.p += n * k
        return out

    def state(self):
        names = ["netLimits", "netWeights2", "pinCells", "pinX", "pinY", "w", "h", "fixed", "obs", "pol", "x", "y", "o"]
        d = {k: self.vec() for k in names}
        d["rows"] = self.vec(5)
        d["inUse"], d["sizeUpd"], d["netUpd"] = self.nx(), self.nx(), self.nx()
        return d

    def item(self):
        kind = self.nx()
        if kind == 1:
            return {"kind": 1, "args": [self.vec(), self.vec(), self.vec(), self.nx()]}
        if kind == 2:
            return {"kind": 2, "args": [self.vec() for _ in range(5)]}
        if kind == 3:
            return {"kind": 3, "args": [self.vec(5)]}
        if kind == 4:
            return {"kind": 4, "args": [[self.nx() for _ in range(7)]]}
        if kind == 14:
            return {"kind": 14, "args": [self.vec(3)]}
        if kind != 15:
            return {"kind": kind, "args": [self.vec()]}
        c = {"kind": 15, "stage": self.nx(), "hascb": self.nx(), "params_ok": self.nx(), "leg_ok": self.nx(), "throwk": self.nx()}
        ninv = self.nx()
        c["invs"] = []
        for _ in range(ninv):
            step = self.nx(); pl = self.vec(3); nops = self.nx()
            c["invs"].append({"step": step, "placement": pl, "ops": [self.item() for _ in range(nops)]})
        c["cls"] = self.nx()
        c["after"] = self.vec(3)
        return c


def walk(trace_toks):
    """-> (initial state, [records in the order of the observation string])
    record = (where, kind, item) with where in {'cb', 'post', 'call'}"""
    p = P(trace_toks)
    st = p.state()
    n = p.nx()
    recs = []
    items = [p.item() for _ in range(n)]
    for it in items:
        if it["kind"] == 15:
            for k, inv in enumerate(it["invs"]):
                for op in inv["ops"]:
                    op["_entry_placement"] = inv["placement"]     # placement seen on entry of the callback invocation that issued the operation
                    recs.append(("cb", op["kind"], op, k))
            recs.append(("call", 15, it, -1))
        else:
            recs.append(("post", it["kind"], it, -1))
    return st, items, recs


def parse_obs(obs):
    t = obs.split()
    out, i = [], 3            # S h1 h2
    if not t or t[0] != "S":
        return None, None
    while i < len(t) and t[i] in ("o", "E"):
        out.append((t[i], int(t[i + 1]), int(t[i + 2]), t[i + 3] + " " + t[i + 4]))
        i += 5
    final = t[i + 1:] if i < len(t) and t[i] == "F" else None
    return out, final


def _set_placement(cur, kind, it):
    """effect of an ACCEPTED placement setter (8 setCellX, 9 setCellY, 10 setCellOrientation, 14 setSolution) on the flat list x y o ..."""
    n = len(cur) // 3
    a = it["args"][0]
    if kind in (8, 9, 10) and len(a) == n:
        cur[{8: 0, 9: 1, 10: 2}[kind]::3] = a
    elif kind == 14 and len(a) == 3 * n:
        cur[:] = a


def statement_on_impl(line, trace, obs):
    """the property's own statement evaluated on what the implementation did (independent of the model);
    returns a list of reasons (empty = holds)"""
    why = []
    try:
        st, items, recs = walk(trace.split())
    except (IndexError, ValueError):
        return ["trace of the harness cannot be parsed"]
    ent, final = parse_obs(obs)
    if ent is None or len(ent) != len(recs):
        return ["observation string does not match the trace (%s entries for %d operations)" % (None if ent is None else len(ent), len(recs))]
    prev_hash, prev_inv = None, None
    seen_call, last_cls = False, None
    # the placement (x y orientation of every cell) the public state holds: at top level, and inside the current callback invocation
    cur_top = [v for i in range(len(st["x"])) for v in (st["x"][i], st["y"][i], st["o"][i])]
    cur_cb, cb_k = None, None
    for (where, kind, it, k), (tag, res, chk, h) in zip(recs, ent):
        if chk != 1:
            why.append("Circuit::check() fails after operation kind %d (%s)" % (kind, where))
        # EVERY placement call of the scenario (the first one, further ones after setters, nested ones issued by a callback): a legalization
        # that failed (class 2) has left x, y AND orientation of every cell as they were right before that call
        if where == "cb":
            if cb_k != k:
                cb_k, cur_cb = k, list(it["_entry_placement"])
            if kind == 15:
                if it["cls"] == 2 and it["stage"] in (1, 2) and it["after"] != cur_cb:
                    why.append("legalization (placement call issued inside callback invocation %d) failed but the placement changed: before %s after %s"
                               % (k, cur_cb, it["after"]))
                cur_cb = list(it["after"])
            elif res == 0:
                _set_placement(cur_cb, kind, it)
        elif where == "call":
            if seen_call and it["cls"] == 2 and it["stage"] in (1, 2) and not it["invs"] and it["after"] != cur_top:
                why.append("legalization (a further placement call of the scenario) failed but the placement changed: before %s after %s" % (cur_top, it["after"]))
            cur_top, cb_k = list(it["after"]), None
        elif res == 0:
            _set_placement(cur_top, kind, it)
        if where == "cb":
            if kind in GUARDED:
                if res not in (1, 2):
                    why.append("guarded setter (kind %d) issued inside callback invocation %d was not refused (result %d)" % (kind, k, res))
                if prev_hash is not None and prev_inv == k and h != prev_hash:
                    why.append("guarded setter (kind %d) issued inside callback invocation %d changed the circuit" % (kind, k))
            prev_hash, prev_inv = h, k
        elif where == "call":
            if not seen_call:
                seen_call = True
                # a failed legalization leaves the placement as it was (first call: its 'before' is the initial state)
                if it["cls"] == 2 and it["stage"] in (1, 2):
                    before = [v for i in range(len(st["x"])) for v in (st["x"][i], st["y"][i], st["o"][i])]
                    if it["after"] != before:
                        why.append("legalization failed but the placement changed (x y orientation per cell: before %s after %s)" % (before, it["after"]))
            prev_hash, last_cls = None, it["cls"]
        else:
            if seen_call and res == 1:
                why.append("setter (kind %d) issued after a placement call had ended (outcome class %d) was refused: 'not allowed when the circuit is being placed'"
                           % (kind, last_cls))
            prev_hash = None
    if final is not None and final[-3] != "0":
        why.append("isInUse_ still set at the end of the scenario")
    return why


def split3(res):
    parts = res.split(" # ")
    if len(parts) != 3:
        return None
    return parts


def with_throw(line, k):
    t = line.split()
    t[5] = str(k)
    return " ".join(t)


# ---------------------------------------------------------------- every public placement entry point (stream "ep", harness runEP)
EP_FORMAT = ("EP entry(0 place(effort),1 placeGlobal(effort),2 legalize(effort),3 placeDetailed(effort),4 placeGlobal(params[,cb]),5 legalize(params[,cb]),"
             "6 placeDetailed(params[,cb])) arg(the effort for entries 0-3, any int; pvar of mkParams for 4-6) effort(4-6 only) hascb throwk(callback index "
             "that throws, -1 none) pmode(setters after the call, see BZ) seed entry2 arg2(the further placement call) nrows (minX maxX minY maxY orient)* "
             "ncells (x y w h orient pol fixed obs)* nnets (npins (cell xo yo)* w2)*")
ENTRY_NAMES = ["Circuit::place(effort)", "Circuit::placeGlobal(effort)", "Circuit::legalize(effort)", "Circuit::placeDetailed(effort)",
               "Circuit::placeGlobal(params, callback)", "Circuit::legalize(params, callback)", "Circuit::placeDetailed(params, callback)"]
SETTER_NAMES = {1: "addNet", 2: "setNets", 3: "setRows", 4: "setupRows", 5: "setCellIsFixed", 6: "setCellIsObstruction", 7: "setCellRowPolarity"}


def outcome_words(cls, msg="-"):
    if cls == 0:
        return "returned"
    if cls == 1:
        return "rejected its effort / parameter set (%s)" % msg
    if cls >= 100:
        return "ended by the exception its callback threw at invocation %d" % (cls - 100)
    return "ended by an exception of the library (%s)" % msg


def parse_ep(res):
    """result line of an EP scenario -> dict, or None when the run has no outcome"""
    s = [x.strip() for x in res.split(" | ")]
    if len(s) != 7 or not s[0].startswith("EP "):
        return None
    try:
        a = s[0].split()
        d = {"cls1": int(a[1]), "msg1": a[2], "inuse1": int(a[3]), "chk1": int(a[4]), "cbbad": int(a[5])}
        d["cmpcls"], d["cmpeq"] = [int(x) for x in s[1].split()]
        for name, part in (("post", s[2]), ("restore", s[3]), ("final", s[5])):
            t = [int(x) for x in part.split()]
            if len(t) != 1 + 5 * t[0]:
                return None
            d[name] = [tuple(t[1 + 5 * i: 6 + 5 * i]) for i in range(t[0])]       # (kind, res, chk, refres, equal)
        b = s[4].split()
        d["cls2"], d["msg2"], d["refcls2"], d["inuse2"], d["chk2"], d["eq2"] = int(b[0]), b[1], int(b[2]), int(b[3]), int(b[4]), int(b[5])
        d["ninv"] = int(s[6])
    except (ValueError, IndexError):
        return None
    return d


def statement_on_ep(line, d):
    """the statement of C10 on what the implementation did in an EP scenario -> (violations, differences): lists of reasons.
    violations: the statement fails on this input; differences: the entry point is not what the model assumes (no statement failure shown)"""
    t = line.split()
    entry, entry2 = int(t[1]), int(t[8])
    first = "%s had %s" % (ENTRY_NAMES[entry], outcome_words(d["cls1"], d["msg1"]))
    second = "a further call (%s) had %s" % (ENTRY_NAMES[entry2], outcome_words(d["cls2"], d["msg2"]))
    why, diff = [], []
    if d["cbbad"]:
        why.append("setRows issued inside a callback of %s was not refused (%d invocations)" % (ENTRY_NAMES[entry], d["cbbad"]))
    if d["chk1"] != 1:
        why.append("Circuit::check() fails after " + first)
    if d["chk2"] != 1:
        why.append("Circuit::check() fails after " + second)
    for where, ops, after in (("post", d["post"], first), ("restore", d["restore"], first), ("final", d["final"], second)):
        for kind, res, chk, refres, equal in ops:
            if kind in GUARDED and res == 1:
                why.append("%s issued after %s was refused: 'This operation is not allowed when the circuit is being placed'" % (SETTER_NAMES[kind], after))
            elif res != refres or not equal:
                diff.append("%s issued after %s: result %d / state %s a copy of the circuit that is not marked busy (result %d)"
                            % (SETTER_NAMES.get(kind, "setter %d" % kind), after, res, "equal to" if equal else "differs from", refres))
            if chk != 1:
                why.append("Circuit::check() fails after %s issued after %s" % (SETTER_NAMES.get(kind, "setter %d" % kind), after))
    if d["inuse1"]:
        why.append("the circuit is still marked as being placed after " + first)
    if d["inuse2"]:
        why.append("the circuit is still marked as being placed after " + second)
    if entry <= 3 and (d["cmpcls"] != d["cls1"] or d["cmpeq"] != 1):
        diff.append("%s is not the composition of the modelled parameter overloads on ColoquinteParameters(effort): outcome class %d vs %d, same final "
                    "state (all fields and flags): %s" % (ENTRY_NAMES[entry], d["cls1"], d["cmpcls"], bool(d["cmpeq"])))
    if d["cls2"] != d["refcls2"] or not d["eq2"]:
        diff.append("%s, where the same call on a copy that is not marked busy had outcome class %d (same state afterwards: %s)" % (second, d["refcls2"], bool(d["eq2"])))
    return why, diff


def execute_ep(harness, base):
    """counting runs, then one run per callback index for the parameter overloads that take the scripted callback"""
    impl1, _, _ = common.run_both([harness, "run"], None, base, chunk=40) if base else ([], None, None)
    derived = []
    for l, r in zip(base, impl1):
        d = parse_ep(r)
        t = l.split()
        if d is not None and int(t[1]) >= 4 and t[4] == "1" and t[5] == "-1":
            derived += [with_throw(l, k) for k in range(d["ninv"])]
    impl2, _, _ = common.run_both([harness, "run"], None, derived, chunk=40) if derived else ([], None, None)
    return base + derived, impl1 + impl2


def evaluate_ep(lines, impl):
    ofail, diffs, crashed, nontriv = [], [], [], set()
    dist = {"entry": {}, "outcome_by_entry": {}, "calls_ended_by_an_exception": 0, "place_effort_failed_in_its_second_step": 0,
            "place_effort_rejected_effort": 0, "guarded_setters_after_a_call": 0, "further_calls_by_entry": {}, "throwing_callback_runs": 0}
    for l, r in zip(lines, impl):
        d = parse_ep(r)
        if d is None:
            crashed.append((l, r[:200]))
            continue
        why, diff = statement_on_ep(l, d)
        if why:
            ofail.append((l, r, why))
        if diff:
            diffs.append((l, r, diff))
        t = l.split()
        e, e2 = ENTRY_NAMES[int(t[1])], ENTRY_NAMES[int(t[8])]
        ck = "callback threw" if d["cls1"] >= 100 else ["returned", "effort / parameters rejected", "exception of the library"][d["cls1"]]
        dist["entry"][e] = dist["entry"].get(e, 0) + 1
        dist["outcome_by_entry"].setdefault(e, {})
        dist["outcome_by_entry"][e][ck] = dist["outcome_by_entry"][e].get(ck, 0) + 1
        dist["further_calls_by_entry"][e2] = dist["further_calls_by_entry"].get(e2, 0) + 1
        dist["calls_ended_by_an_exception"] += (d["cls1"] != 0) + (d["cls2"] != 0)
        dist["place_effort_failed_in_its_second_step"] += t[1] == "0" and d["cls1"] == 2 and d["msg1"].startswith("Not_all_cells")
        dist["place_effort_rejected_effort"] += t[1] == "0" and d["cls1"] == 1
        dist["guarded_setters_after_a_call"] += sum(1 for ops in (d["post"], d["restore"], d["final"]) for o in ops if o[0] in GUARDED)
        dist["throwing_callback_runs"] += d["cls1"] >= 100
        if d["cls1"] != 0 or int(t[1]) <= 3:
            nontriv.add(l)
    return ofail, diffs, crashed, nontriv, dist


def execute(ctx, harness, driver, base):
    """phase 1: counting runs; phase 2: one run per callback index; model on every trace"""
    impl1, _, _ = common.run_both([harness, "run"], None, base, chunk=40)
    derived = []
    for l, r in zip(base, impl1):
        p = split3(r)
        if p is None:
            continue
        ninv = int(p[2].split()[0])
        if int(l.split()[5]) == -1:
            for k in range(ninv):
                derived.append(with_throw(l, k))
    impl2, _, _ = common.run_both([harness, "run"], None, derived, chunk=40) if derived else ([], None, None)
    lines = base + derived
    impl = impl1 + impl2
    minp, mmap = [], []
    for i, r in enumerate(impl):
        p = split3(r)
        if p is not None:
            minp.append("BZ " + p[0]); mmap.append(i)
    mout, _, _ = common.run_both([driver], None, minp, chunk=40) if minp else ([], None, None)
    model = {i: o for i, o in zip(mmap, mout)}
    return lines, impl, model


def evaluate(lines, impl, model):
    mism, ofail, crashed, nontriv = [], [], [], set()
    dist = {"stage": {}, "class": {}, "callbacks": {}, "ops_in_callbacks": 0, "guarded_in_callbacks": 0, "ops_after_call": 0,
            "nested_calls": 0, "throwing_runs": 0}
    for i, (l, r) in enumerate(zip(lines, impl)):
        p = split3(r)
        if p is None:
            crashed.append((l, r[:200]))
            continue
        trace, obs, meta = p
        why = statement_on_impl(l, trace, obs)
        if why:
            ofail.append((l, obs, why))
        m = model.get(i, "<missing>")
        if m.strip() != obs.strip():
            ot, mt = obs.split(), m.split()
            j = next((k for k in range(min(len(ot), len(mt))) if ot[k] != mt[k]), min(len(ot), len(mt)))
            mism.append((l, " ".join(ot[max(0, j - 6):j + 6]), " ".join(mt[max(0, j - 6):j + 6]), j))
        t = l.split()
        ninv, cls = [int(x) for x in meta.split()]
        dist["stage"][t[1]] = dist["stage"].get(t[1], 0) + 1
        pk = "valid" if t[3] == "0" else "invalid" if int(t[3]) <= 6 else "library-defaults" if t[3] == "7" else "accepted-boundary"
        dist.setdefault("parameters", {})[pk] = dist.setdefault("parameters", {}).get(pk, 0) + 1
        if t[3] in ("8", "16"):
            dist["nbPasses_0"] = dist.get("nbPasses_0", 0) + 1
        ck = "callback" if cls >= 100 else str(cls)
        dist["class"][ck] = dist["class"].get(ck, 0) + 1
        dist["callbacks"][str(min(ninv, 12))] = dist["callbacks"].get(str(min(ninv, 12)), 0) + 1
        try:
            st0, items, recs = walk(trace.split())
        except (IndexError, ValueError):
            st0, recs = None, []
        if st0 is not None and any(o in (8, 9) and not f for o, f in zip(st0["o"], st0["fixed"])):
            dist["runs_with_a_movable_cell_of_orientation_INVALID_or_UNKNOWN"] = dist.get("runs_with_a_movable_cell_of_orientation_INVALID_or_UNKNOWN", 0) + 1
            if cls == 2:
                dist["of_them_with_a_failed_legalization"] = dist.get("of_them_with_a_failed_legalization", 0) + 1
        dist["placement_calls_with_a_failed_legalization"] = dist.get("placement_calls_with_a_failed_legalization", 0) + \
            sum(1 for rc in recs if rc[1] == 15 and rc[2]["cls"] == 2)
        g = sum(1 for rc in recs if rc[0] == "cb" and rc[1] in GUARDED)
        dist["ops_in_callbacks"] += sum(1 for rc in recs if rc[0] == "cb")
        dist["guarded_in_callbacks"] += g
        dist["ops_after_call"] += sum(1 for rc in recs if rc[0] == "post")
        dist["nested_calls"] += sum(1 for rc in recs if rc[0] == "cb" and rc[1] == 15)
        dist["throwing_runs"] += cls >= 100
        if g > 0 or cls != 0:
            nontriv.add(l)
    return mism, ofail, crashed, nontriv, dist


# assertions of /repo that a scenario of the api harness can reach only OUTSIDE the domain of the placement properties (substring of the
# glibc assertion line -> why it is outside)
KNOWN_OUT_OF_DOMAIN_ASSERTS = {
    "computeSubdivisions(int, int, int): Assertion `max >= min' failed":
        "utils/helpers.hpp:12, reached from DensityGrid::fromIspdCircuit in global placement when the side margin (sideMargin x the smallest positive cell "
        "height; INT_MAX-based when no cell has a positive height) removes EVERY row: circuits without a movable cell of positive area / with rows "
        "narrower than the margin are excluded from the quantifier of C06/C07; the scenario generator of harness/api.cpp does not avoid them",
}
NO_OUTCOME_LIMIT = 0.02      # fraction of the scenario runs that may end without an outcome (all of them of a KNOWN cause) before the run fails


def no_outcome_causes(harness, crashed, max_rerun=300, has_outcome=None):
    """every scenario run without an outcome is run again ALONE with its stderr captured (the harness survives the abort through its signal
    handler, so the batch run only shows 'SIGNAL ABORT'); returns (causes: text -> count, known: text -> count, unknown: [(case, cause)])"""
    import re
    import subprocess
    causes, known, unknown = {}, {}, []
    for l, r in crashed[:max_rerun]:
        try:
            p = subprocess.run([harness, "run"], input=l + "\n", capture_output=True, text=True, timeout=300, env=common.HARNESS_ENV)
            se, so = p.stderr, p.stdout
        except subprocess.TimeoutExpired:
            se, so = "TIMEOUT", ""
        m = re.findall(r"[\w./]+:\d+: [^\n]*Assertion `[^']*' failed", se)
        if m:
            cause = re.sub(r"^\S*/src/", "src/", m[0])
        elif (has_outcome or (lambda o: split3(o) is not None))(so.strip().split("\n")[0] if so.strip() else ""):
            cause = "NOT REPRODUCED: the same scenario run alone has an outcome (batch result: %s)" % r[:80]
        else:
            cause = "no assertion text: batch result %s, alone: %s %s" % (r[:80], so.strip()[:80], se.strip()[-160:])
        causes[cause] = causes.get(cause, 0) + 1
        k = next((a for a in KNOWN_OUT_OF_DOMAIN_ASSERTS if a in cause), None)
        if k:
            known[k] = known.get(k, 0) + 1
        else:
            unknown.append((l, cause))
    for l, r in crashed[max_rerun:]:
        unknown.append((l, "not classified (more than %d runs without outcome)" % max_rerun))
    return causes, known, unknown


def run(ctx):
    from checks import c03
    from tools import circuit_access
    uses, nfun, terr = c03.regenerate_access()    # route-1 translator: table of Circuit's member functions, before the proof build
    methods = getattr(c03.regenerate_access, "methods", []) if terr is None else []
    proof_ok, proof = common.proof_status(ctx, "C10")
    harness = common.build_harness("api")
    driver = common.build_driver("api")
    n = 3000 if ctx.quick else 40000
    seeds = [ctx.seed] if ctx.quick else [ctx.seed, ctx.seed + 1000, ctx.seed + 2000]
    base = common.corpus("C10", ("BZ ",))
    for s in seeds:
        base += common.harness_gen(harness, ["bz", s, n // len(seeds)])
    # scenarios whose movable cells carry the special orientation values INVALID / UNKNOWN, mostly with a legalization that fails (a cell wider
    # than every row, over-full rows): 'a failed legalization leaves the placement as it was' includes the orientation
    nbo = 800 if ctx.quick else 12000
    nbase_bz = len(base)
    for s in seeds:
        base += common.harness_gen(harness, ["bo", s + 7, nbo // len(seeds)])
    lines, impl, model = execute(ctx, harness, driver, base)
    mism, ofail, crashed, nontriv, dist = evaluate(lines, impl, model)
    for l, obs, why in ofail[:3]:
        ctx.violation("Circuit placement call / setter protocol of /repo violates C10: " + "; ".join(why[:3]),
                      {"case": l, "format": FORMAT, "why": why[:10], "implementation_observation": obs[:3000]})
    # EVERY public placement entry point of Circuit (the effort overloads and place(effort) are inline in coloquinte.hpp), ended by return or by an
    # exception at every possible point, followed by the guarded setters, a further call through any entry point and setters again
    nep = 600 if ctx.quick else 9000
    ep_base = common.corpus("C10", ("EP ",))
    for s in seeds:
        ep_base += common.harness_gen(harness, ["ep", s + 13, nep // len(seeds)])
    ep_lines, ep_impl = execute_ep(harness, ep_base)
    ep_fail, ep_diffs, ep_crashed, ep_nontriv, ep_dist = evaluate_ep(ep_lines, ep_impl)
    seen_ep = set()
    for l, r, why in ep_fail:
        key = (l.split()[1], why[0].split(" issued after ")[-1][:60])
        if key in seen_ep or len(seen_ep) >= 3:
            continue
        seen_ep.add(key)
        ctx.violation("a public placement entry point of Circuit violates C10: " + "; ".join(why[:3]),
                      {"case": l, "format": EP_FORMAT, "why": why[:12], "implementation_observation": r[:3000], "scenarios_failing": len(ep_fail)})
    if not ep_fail and not ofail and ep_diffs:
        l, r, diff = ep_diffs[0]
        ctx.violation("a public placement entry point of Circuit is not what coq/Api.v assumes (%d of %d entry-point scenarios): %s; no scenario violating C10 found"
                      % (len(ep_diffs), len(ep_lines), diff[0]),
                      {"broken": "correspondence of coq/Api.v (three modelled entry points) with the seven public placement entry points of Circuit",
                       "first": {"case": l, "format": EP_FORMAT, "differences": diff[:6], "implementation_observation": r[:2000]}}, found_input=False)
    crashed = crashed + ep_crashed
    ofail_all = ofail + ep_fail
    if not ofail_all:
        if mism:
            ctx.violation("correspondence Api.v <-> coloquinte.cpp / place_global.cpp / place_detailed.cpp broken (%d of %d scenario runs differ); "
                          "no scenario violating C10 found" % (len(mism), len(lines)),
                          {"broken": "correspondence of coq/Api.v (theorems of Properties_C10.v)",
                           "first_difference": {"case": mism[0][0], "format": FORMAT, "implementation_around_token": mism[0][1],
                                                "model_around_token": mism[0][2], "token": mism[0][3]}}, found_input=False)
        if terr is not None:
            ctx.violation("tools/circuit_access.py cannot translate the tree under check (%s): c10_structural_setters_guarded_in_source is not established; no scenario "
                          "violating C10 found" % terr[:300],
                          {"broken": "tools/circuit_access.py -> coq/CircuitAccess_gen.v -> c10_structural_setters_guarded_in_source", "detail": terr}, found_input=False)
        elif not proof_ok and not circuit_access.offending_methods(methods):
            ctx.violation("proof obligations of Properties_C10.v do not check", {"broken": "Properties_C10.v", "detail": proof}, found_input=False)
    # the static obligation is reported whether or not a scenario fails as well (it names the member function and the line)
    if terr is None and not proof_ok:
        badm = circuit_access.offending_methods(methods)
        if badm:
            ctx.violation("theorem c10_structural_setters_guarded_in_source does not hold for the table generated from this tree: %s; %s"
                          % (badm[0], "see the failing scenario above" if ofail_all else "no generated scenario violates C10"),
                          {"broken": "c10_structural_setters_guarded_in_source (Properties_C10.v) over coq/CircuitAccess_gen.v", "offending_methods": badm[:20],
                           "detail": proof}, found_input=False)
    causes, known_causes, unknown_causes = no_outcome_causes(harness, crashed, has_outcome=lambda o: split3(o) is not None or parse_ep(o) is not None)
    nbz_lines = len(lines)
    lines = lines + ep_lines           # the no-outcome limit and the evidence count both streams
    if unknown_causes:
        ctx.violation("%d of %d scenario runs ended without an outcome (abort / crash inside a placement call) for a cause that is NOT one of the known out-of-domain "
                      "assertions (%s): first cause: %s" % (len(unknown_causes), len(lines), "; ".join(KNOWN_OUT_OF_DOMAIN_ASSERTS), unknown_causes[0][1]),
                      {"broken": "correspondence of coq/Api.v with the placement entry points: a scenario run without outcome (crash freedom itself is property C07)",
                       "first": {"case": unknown_causes[0][0], "format": FORMAT, "cause": unknown_causes[0][1]}, "causes": causes}, found_input=False)
    if crashed and len(crashed) > NO_OUTCOME_LIMIT * len(lines):
        ctx.violation("the harness got no outcome for %d of %d scenario runs (abort/crash inside a placement call): the correspondence cannot be established"
                      % (len(crashed), len(lines)), {"broken": "harness runs", "first": {"case": crashed[0][0], "output": crashed[0][1]}}, found_input=False)
    cov = dict(proof)
    cov.update({"static_method_table": {"member_functions": len(methods), "non_const": sum(1 for m in methods if not m["const"]),
                                        "guarded": sorted(m["name"] for m in methods if any(u[1] == "UGuard" for u in m["uses"])),
                                        "translator_error": terr},
                "trusted_base": common.TRUSTED_BASE + [
                    "tools/circuit_access.py (translator, clang++ 14 -ast-dump=json): the table of Circuit's member functions (guard line, fields written) that "
                    "c10_structural_setters_guarded_in_source is about; line order stands for execution order inside a setter (straight-line code)",
                    "what the algorithms compute is not modelled: the model is run with the placements the implementation exposed (theorems hold for every oracle)",
                    "addNet/setNets argument tests (sizes, limits start at 0 and sorted, pins on existing cells) are modelled and exercised with acceptable and unacceptable arguments"],
                "evaluations": len(lines), "distinct_nontrivial": len(nontriv) + len(ep_nontriv),
                "entry_point_stream": {"scenario_runs": len(ep_lines), "instances": len(ep_base), "distinct_nontrivial": len(ep_nontriv), "distribution": ep_dist,
                                       "scenarios_violating_statement": len(ep_fail), "scenarios_differing_from_reference": len(ep_diffs),
                                       "no_outcome_runs": len(ep_crashed), "sample": ep_lines[0][:600] if ep_lines else ""},
                "rule": "stream ep (600 instances in the quick tier + one run per callback index): a scenario through EVERY public placement entry point of Circuit -- "
                        "place(effort) 30 %, placeGlobal(effort) / legalize(effort) / placeDetailed(effort) 10 % each (all four are INLINE in coloquinte.hpp), the three "
                        "(params[, callback]) overloads 40 % (80 % with a callback that tries setRows at every invocation, which must be refused; one run per callback "
                        "index with the callback throwing there) -- ended by return or by an exception at every point where one can arise: rejected effort (0, 10, -1, "
                        "100, INT_MIN: 40 % of the effort calls; thrown before the first step), rejected parameter set, infeasible legalization (40 % of the circuits: a "
                        "movable cell wider than every row / over-full rows) which for place(effort) is the SECOND step after a completed global placement, callback "
                        "exception; then the seven guarded setters with acceptable and unacceptable arguments (none may be refused as 'being placed', Circuit::check() "
                        "must pass), the four structural setters restoring the original rows / fixed / obstruction / polarity values, a FURTHER placement call through "
                        "any of the seven entry points (30 % place(effort)), and the setters again.  Judged by the statement alone (refusals, check(), in-use flag); in "
                        "addition every operation is repeated on a reference copy of the circuit taken right after the first call with the in-use flag cleared (same "
                        "result and same full state expected), and entries 0-3 are compared with the composition of the MODELLED parameter overloads on "
                        "ColoquinteParameters(effort) run on a copy taken before the call (same outcome class, same full state incl. flags): that is how the four "
                        "effort overloads are tied to the three entry points of coq/Api.v.  EP non-trivial = an effort overload, or the call ended by an exception. "
                        "stream bo (800 instances in the quick tier): the same scenarios on circuits whose movable unturned cells carry the SPECIAL orientation values INVALID (8) / UNKNOWN (9) "
                        "(each such cell with probability 1/2, at least one; setCellOrientation / setSolution accept every enum value), 40 % with one movable cell wider than every row, "
                        "30 % over-full (row-high movable cells as wide as the widest row, one more than there are rows), 30 % as generated; stage legalize 45 % / placeDetailed 45 % / "
                        "placeGlobal 10 %; 'a failed legalization left the placement as it was' is evaluated on x, y AND orientation of every cell for EVERY placement call of a "
                        "scenario with outcome class 2 (the first call, further calls after setters, calls issued inside a callback), against the placement right before that call. "
                        "stream bz: seeded random circuits (1-6 rows, 1-8 cells, nets, fixed cells, polarities, utilisation 20-115% so that legalization also fails), stage uniform in "
                        "{global, legalize, detailed}, 10% without callback, 20% with one of 6 invalid parameter sets, 20% with one of 10 parameter sets AT THE BOUNDARY of what "
                        "ColoquinteParameters::check() accepts (detailed.nbPasses 0, maxNbSteps 1, detailed windows of one row / zero cells, rough legalization 0 steps and "
                        "reopt sizes 1, bin size 1 and 25, tolerances / blendings / noise / exponents at both ends), also used by the nested / further call, "
                        "efforts 1-9 (steps capped so that a run has <= ~12 callbacks); "
                        "per instance: one counting run, then one run per callback index with the callback throwing there (exhaustive per instance); inside EVERY invocation and "
                        "after the call: the 7 guarded setters with acceptable and unacceptable arguments, placement/size/weight setters, a nested / further placement call "
                        "(legalize or detailed, valid or invalid parameters) followed by setters again. non-trivial = a guarded setter was issued inside a callback or the call "
                        "ended by an exception; distinct = distinct case lines",
                "distribution": dist, "exhaustive_per_instance": True, "no_outcome_runs": len(crashed),
                "no_outcome": {"runs": len(crashed), "of": len(lines), "limit_fraction": NO_OUTCOME_LIMIT, "by_cause": causes,
                               "known_out_of_domain_assertions": KNOWN_OUT_OF_DOMAIN_ASSERTS, "of_known_cause": sum(known_causes.values()),
                               "of_unknown_cause": len(unknown_causes), "first_cases": [c[0][:300] for c in crashed[:3]],
                               "rule": "every run without an outcome is run again alone to read its assertion text; a cause outside the known out-of-domain "
                                       "assertions is reported as broken correspondence; more than limit_fraction of the runs without outcome fails the run"},
                "samples": [lines[0][:600], lines[nbz_lines // 2][:600], lines[-1][:600]] if lines else [],
                "model_vs_impl_differences": len(mism) + len(ep_diffs), "impl_outputs_violating_statement": len(ofail) + len(ep_fail)})
    return ctx.finish(LEVEL, cov, ["model tied to the code by exact comparison (outcome of every operation, hash of the full circuit state after every operation, final state) on the scenario runs of this check",
                                   "the entry points are modelled after the F9 repair (scope guard restoring the previous flag value)",
                                   "a placement call issued from a callback is modelled without a callback of its own in the tie (the theorems allow one)",
                                   "coq/Api.v models the three (params, callback) entry points; the four inline effort overloads (place(effort), placeGlobal/legalize/placeDetailed(effort)) are tied to them by execution only: same outcome and same full circuit state as the composition of the modelled overloads on ColoquinteParameters(effort) (stream ep), and by the static table (an entry point writes nothing but the scope guard on isInUse_ and calls only entry points)",
                                   "'a failed legalization leaves the placement as it was' (exception classes ELegalizer / EParams only) and 'the in-use flag is cleared' hold by the shape of the model (the algorithm oracles cannot write to the circuit or touch inUse): for the code they rest on this tie and on C03's access-table theorem",
                                   "runs without an outcome (abort / crash) are tolerated up to 2 % of the scenario runs (no_outcome_runs); an instance whose counting run crashes contributes no throwing runs, so exhaustive_per_instance excludes the instances that abort"])


def replay(ctx, path):
    r = json.load(open(path))["replay"]
    case = r.get("case") or (r.get("first") or r.get("first_difference"))["case"]
    harness = common.build_harness("api")
    if case.startswith("EP "):
        lines, impl = execute_ep(harness, [case])
        ep_fail, ep_diffs, ep_crashed, _, _ = evaluate_ep(lines, impl)
        for l, i in zip(lines, impl):
            print("case :", l[:300])
            print("impl :", i[:400])
        for l, r_, why in ep_fail:
            print("statement violated:", why[:6])
        for l, r_, diff in ep_diffs[:3]:
            print("differs from the reference:", diff[:3])
        return 1 if (ep_fail or ep_diffs or ep_crashed) else 0
    driver = common.build_driver("api")
    lines, impl, model = execute(ctx, harness, driver, [case])
    mism, ofail, crashed, _, _ = evaluate(lines, impl, model)
    for l, i in zip(lines, impl):
        p = split3(i)
        print("case :", l[:300])
        print("impl :", (p[1] if p else i)[:400])
    for l, obs, why in ofail:
        print("statement violated:", why)
    for m in mism[:3]:
        print("model differs at token %d: impl ...%s... model ...%s..." % (m[3], m[1], m[2]))
    return 1 if (mism or ofail or crashed) else 0
