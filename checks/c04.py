"""C04 -- row polarity and orientation constraints.  Proof: coq/Properties_C04.v.
Tie: EXHAUSTIVE dump of the three C++ tables (every enum value incl. INVALID/UNKNOWN) against the
model; legalization (and detailed placement, see checks/detailed_common.py) results checked with
the proved checker orient_okb; model/impl diff of the legalizer as in C01."""
import json
from tools import common
from checks import legal_common as lc

LEVEL = "proof"


def tables(ctx, harness, driver):
    lines = ["OT %d %d" % (p, o) for p in range(5) for o in range(10)]
    impl, model, _ = common.run_both([harness, "run"], [driver], lines)
    bad = []
    for l, i, m in zip(lines, impl, model):
        code, doc = m.split(" | ")
        if i.strip() != code.strip():
            bad.append((l, i, m))
        # independent of the model: the documented table (model's `prescribed`, proved equal to the model's code table)
        c = i.split()[0] if i.split() else "?"
        want = {"forbidden": "8", "keep": "9"}.get(doc.strip(), doc.strip())
        if c != want:
            bad.append((l, i, "documented: " + doc))
    return lines, bad


def f19_applies(ctoks, cells, pl):
    """known finding F19: some movable polarised cell taller than a row sits (after legalization) at a y where
    two row segments have different orientations"""
    nr = int(ctoks[0])
    rows = [[int(x) for x in ctoks[1 + 5 * r:6 + 5 * r]] for r in range(nr)]
    if not rows:
        return False
    rh = rows[0][3] - rows[0][2]
    by_y = {}
    for r in rows:
        by_y.setdefault(r[2], set()).add(r[4])
    for ci, c in enumerate(cells):
        if c[6] or c[5] == 0:
            continue
        o = pl[3 * ci + 2]
        ph = c[2] if o in (2, 3, 6, 7) else c[3]
        if ph > rh and len(by_y.get(pl[3 * ci + 1], ())) > 1:
            return True
    return False


def run(ctx):
    from checks import detailed_common as dc
    proof_ok, proof = common.proof_status_all(ctx, "C04", ["gaps1", "C02_run"])
    n = 3000 if ctx.quick else 200000
    s = ctx.seed
    plan = [(0, n // 2, s + 10), (2, n // 2, s + 11), (16, n // 3, s + 12),
            (1, n // 6, s + 13)]      # bit 1: legalize twice on the same Circuit, both runs judged
    run = lc.LegalRun(ctx, plan).execute()
    tl, tbad = tables(ctx, run.harness, run.driver)
    mism, ofail, nontriv, crashes = [], [], set(), []
    known_f19 = 0
    second_runs = 0
    for i, l in enumerate(run.lines):
      # every run of the case is judged (run 1 = the second legalize of a 'twice' case, on the same Circuit object)
      for k, (kind, pl, order) in enumerate(run.parsed[i]):
        tag = "" if k == 0 else "[second legalize of the same Circuit] "
        second_runs += k > 0
        same, istr, mstr = run.model_cmp(i, k)
        if not same:
            mism.append((l, tag + istr, mstr))
        flags = run.checks.get((i, k))
        if kind == "OK":
            ctoks, _ = lc.split_case(l)
            cells, _ = lc.cells_of(ctoks)
            if flags is None or flags[1] != "1":
                if f19_applies(ctoks, cells, pl) and ctx.known_finding("F19"):
                    known_f19 += 1
                else:
                    ofail.append((l, run.impl[i], tag + "after legalization a cell has an orientation its polarity does not prescribe (proved checker orient_okb = false)"))
            if any(c[5] != 0 and not c[6] for c in cells):
                nontriv.add(l)
        elif not (kind in ("NOROW", "NOTALL") or kind.startswith("THROW")):
            crashes.append((l, run.impl[i], tag + kind))
    for l, i, m in tbad[:2]:
        ofail.append((l, i, "orientation table differs from the documented one: " + str(m)))
    # detailed placement part
    dres = dc.run_detailed(ctx, n // 3 if ctx.quick else n // 2, seed=s + 20, prop="C04")
    ofail += dres["orient_fail"]
    # the circuit exported after swap / insert sequences: proved checker orient_okb on the C++ output and exact tie of
    # DetailedExport.write_back (theorems c04_write_back_orient_ok*)
    from checks import c02_export as ce
    eres = ce.run_export(ctx, 1500 if ctx.quick else 40000, seed=s + 81)
    ofail += eres["impl_orient"][:2]
    # sequence stream (harness/circseq.cpp, tag SP; checks/c01_sequences.py): ONE Circuit legalized / placeDetailed, edited through the public
    # setters (setRows AND setupRows among them) and legalized again; orient_okb on the result of EVERY such call against the rows the circuit
    # holds right before the call, and the same call on a circuit built from scratch with that public state
    from checks import c01_sequences as sq
    seqs = sq.run_stage_sequences(s + 93, 1500 if ctx.quick else 80000, common.corpus("C04", ("SP ",)))
    seq_fail = []
    for r, pl, why in seqs["orient_fail"]:
        cells, _ = lc.cells_of(r.state)
        if f19_applies(r.state, cells, pl) and ctx.known_finding("F19"):
            known_f19 += 1
        else:
            seq_fail.append((r, why))
    for r, why in seq_fail[:3]:
        ctx.violation("/repo violates C04 inside a sequence of public edits and placement calls on one Circuit: " + why, dict(sq.detail(r), why=why))
    for case, text in seqs["anomalies"][:3]:
        ctx.violation("a sequence of public edits and legalize/placeDetailed calls did not run through: " + text[:200],
                      {"case": case, "format": "see harness/circseq.cpp header (SP)", "implementation_output": text[:400], "why": text[:200]})
    if seqs["differ"] and not seq_fail and not seqs["anomalies"] and not ofail:
        r, _ = seqs["differ"][0]
        ctx.violation("a Circuit with a history of public edits and a freshly built circuit holding the same public state give different results for the same "
                      "placement call (%d of %d calls); both results satisfy C04, no circuit violating C04 found"
                      % (len(seqs["differ"]), seqs["stats"]["legalize_calls"] + seqs["stats"]["placeDetailed_calls"]),
                      dict(sq.detail(r), broken="correspondence: the model (coq/Legalizer.v / Orient.v, theorems of Properties_C04.v) is a function of the circuit's "
                                                "public state; the implementation's result depends on the history of the object"), found_input=False)
    for l, i, why in ofail[:3]:
        ctx.violation("/repo violates C04: " + why, {"case": l, "implementation_output": i, "why": why})
    ofail = ofail + seq_fail + seqs["anomalies"]
    if not ofail:
        if mism:
            ctx.violation("correspondence Legalizer.v <-> C++ broken (%d of %d cases differ); no circuit violating C04 found" % (len(mism), len(run.lines)),
                          {"broken": "correspondence of coq/Legalizer.v / Orient.v", "first_difference": {"case": mism[0][0], "implementation": mism[0][1], "model": mism[0][2]}}, found_input=False)
        if eres["mismatch"]:
            ctx.violation("correspondence DetailedExport.v write_back <-> DetailedPlacement::exportPlacement broken (%d of %d runs differ); no circuit violating C04 found"
                          % (len(eres["mismatch"]), eres["runs"]),
                          {"broken": "correspondence of coq/DetailedExport.v (theorems c04_write_back_orient_ok, c04_write_back_orient_ok_optimiser_moves)",
                           "first_difference": {"case": eres["mismatch"][0][0], "implementation": str(eres["mismatch"][0][1])[:2000], "model": str(eres["mismatch"][0][2])[:2000]}}, found_input=False)
        if not proof_ok:
            ctx.violation("proof obligations of Properties_C04.v do not check", {"broken": "Properties_C04.v", "detail": proof}, found_input=False)
    cov = dict(proof)
    cov.update({"export_tie": ce.summary(eres), "trusted_base": common.TRUSTED_BASE,
                "evaluations": len(run.lines) + len(tl) + dres["runs"] + seqs["in_domain_calls"], "distinct_nontrivial": len(nontriv) + dres["nontrivial"],
                "sequence_stream": dict(sq.summary(seqs), returned_in_domain_calls_with_a_polarised_movable_cell=seqs["polarised_returned"],
                                        results_violating_orient_okb=len(seq_fail)),
                "rule": "tables: all 5 polarities x 10 enum values, exhaustive; legalization: random circuits of the C01 generator (every polarity on 1-3 row cells, "
                        "alternating/uniform/irregular N/S/FN/FS rows); detailed placement: orient_okb at every Detailed callback and at return. "
                        "non-trivial = the circuit has a polarised movable cell and the call returned. "
                        "sequence_stream (tag SP, harness/circseq.cpp, generator of C01's sequence stream with another seed): one Circuit of the same domain and 3-9 steps: "
                        "legalize(params) (first step in 70 %, always the last step), placeDetailed(params), setSolution / setCellX / setCellY, setCellIsFixed / "
                        "setCellIsObstruction, setRows (edit a row's x range / orientation, drop / add a row), setupRows (about 9 % of the steps: the bounding box of "
                        "the rows -- keeps the row set when the rows were full-width and stacked --, the area of an earlier setupRows again with the other initial / "
                        "alternating orientation, areas shrunk / grown / shifted by up to 2 sites and one row, half / double row height), setCellWidth/Height/"
                        "Orientation, addNet, copy assignment, computeRows/hpwl/report queries between the steps; EVERY legalize / placeDetailed call that returns on a "
                        "state inside std_design (python reading) is judged with orient_okb against the rows the public getter returns right before the call (F19 matched "
                        "per circuit as in the one-shot stream) and repeated on a circuit built from scratch with that state (same outcome, same placement)",
                "known_F19_matches": known_f19, "second_legalize_runs_judged": second_runs,
                "legalize_no_outcome_cases": {"count": len(crashes), "first": [(c[0], c[2]) for c in crashes[:3]],
                                              "note": "abort/crash of Circuit::legalize: no orientation to judge; reported by C01/C07 (same generator), listed here so that it cannot hide"},
                "exhaustive": True, "table_entries": len(tl), "table_differences": len(tbad),
                "samples": [run.lines[0], tl[7]],
                "detailed_runs": dres["runs"], "detailed_callback_states_checked": dres["states"],
                "model_vs_impl_differences": len(mism), "impl_outputs_violating_statement": len(ofail)})
    return ctx.finish(LEVEL, cov, ["orientation after legalization is PROVED for the raw legalizer model on the sub-domain std_design + known row orientations + row_orient_by_y (or row-high designs) and refuted outside it (F19); for detailed placement it is proved for every history of row-model operations under orient_ok of the input, dshifts_ok and closed operations / dhist_allowed, not for placeDetailed as a whole; everywhere else it is validated with the proved checker",
                                   "the specification `prescribed` is the code's table read on the bottom row only (NW / SE copy the code; the documentation's even-height / alternating-row clauses are not specified)",
                                   "'exhaustive' refers to the 50 table entries only; F19 is matched per circuit (a circuit containing one cell of the F19 shape); both runs of 'twice' cases are judged",
                                   "sequence stream: states outside the python reading of std_design (overlapping rows after row edits, cells that are no multiple of a changed row height ...) are compared with the fresh circuit but not judged with orient_okb",
                                   "rows of one circuit are pairwise disjoint (domain of C01)"])


def replay(ctx, path):
    r = json.load(open(path))["replay"]
    case = r.get("case") or ""
    if case.startswith("SP "):
        from checks import c01_sequences as sq
        from checks import circuit_sequences as cs
        res = sq.run_stage_sequences(0, 0, [case])
        print("case :", case)
        for t in cs.steps_text(case):
            print("  step", t)
        n = len(res["anomalies"])
        for c, text in res["anomalies"]:
            print("NOT RUN THROUGH:", text[:300])
        for rec, pl, why in res["orient_fail"]:
            cells, _ = lc.cells_of(rec.state)
            f19 = f19_applies(rec.state, cells, pl)
            n += not f19
            print("after step %d: state LG %s\n  object with history: %s\n  fresh circuit      : %s\n  %s%s"
                  % (rec.step, " ".join(rec.state), rec.mine, rec.fresh, why, " [shape of known finding F19]" if f19 else ""))
        for rec, _ in res["differ"]:
            n += 1
            print("after step %d: state LG %s\n  object with history: %s\n  fresh circuit      : %s\n  DIFFERENT" % (rec.step, " ".join(rec.state), rec.mine, rec.fresh))
        return 1 if n else 0
    print(json.dumps(r, indent=1)[:2000])
    return 1
