"""C01, sequence stream for the placement stages (harness/circseq.cpp, tag SP; checks/circuit_sequences.py).

ONE Circuit is legalized, edited through the public setters (setSolution / setCellX / setCellY -- mostly on FIXED cells, i.e. an
obstruction is moved --, setCellIsFixed / setCellIsObstruction, setRows, sizes, orientation, nets, copy assignment, with
computeRows / hpwl / report queries in between) and legalized again (sometimes placeDetailed = legalize + detailed placement).
Every such call is also made on a circuit built from scratch with the public state the object had right before the call.
 * the statement of C01 on what the object with the history returned: the proved checker legalb (main driver, tag LC) on every
   normally returned placement of a state inside the domain (legal_common.std_design); a failure must leave the placement; a
   failure on a trivially feasible state is a violation;
 * metamorphic (C++ against C++): outcome and placement of the object with the history = those of the fresh circuit.
The setters include setupRows (the rows rebuilt as a whole: same area with the other initial / alternating orientation, smaller / larger /
shifted areas, seldom half / double row height) next to setRows, so that whatever a Circuit keeps about its rows between two calls is
exercised through both ways of replacing them.  res["orient_fail"] holds C04's clause (orient_okb) for the same results (checks/c04.py).
Library: run_stage_sequences(seed, count, extra_cases) -> dict; report(ctx, res); replay_case(case)."""
from tools import common
from checks import circuit_sequences as cs
from checks import legal_common as lc

STAGE = {16: "Circuit::legalize", 17: "Circuit::placeDetailed (legalize + detailed placement)"}


def _orig(ctoks):
    cells, _ = lc.cells_of(ctoks)
    return [v for c in cells for v in (c[0], c[1], c[4])]


def run_stage_sequences(seed, count, extra_cases=()):
    precs, anomalies, stats = cs.run_placement_sequences(seed, count, extra_cases)
    driver = common.build_driver()
    res = {"stats": stats, "anomalies": anomalies, "illegal": [], "failure_moved": [], "trivial_failed": [], "differ": [], "orient_fail": [],
           "polarised_returned": 0, "setup_rows_before_call": 0,
           "in_domain_calls": 0, "returned_in_domain": 0, "calls_after_an_earlier_stage": 0, "moved_cells": 0, "outcomes": {},
           "cases": sorted(set(r.case for r in precs))[:2]}
    linp, lmap = [], []
    parsed = []
    seen_stage = set()
    for n, r in enumerate(precs):
        dom = lc.std_design(r.state)
        mk, mpl = lc.parse_outcome(r.mine)
        fk, fpl = lc.parse_outcome(r.fresh)
        parsed.append((dom, mk, mpl, fk, fpl))
        key = "%s %s" % ("legalize" if r.op == 16 else "placeDetailed", mk.split()[0] if mk else "?")
        res["outcomes"][key] = res["outcomes"].get(key, 0) + 1
        if r.case in seen_stage:
            res["calls_after_an_earlier_stage"] += 1
        seen_stage.add(r.case)
        nc = lc.ncells_of(r.state)
        if dom is not None:
            continue
        res["in_domain_calls"] += 1
        for who, kind, pl in (("mine", mk, mpl), ("fresh", fk, fpl)):
            if pl is None or len(pl) != 3 * nc:
                continue
            if who == "fresh" and (kind, pl) == (mk, mpl):
                continue
            # OK: legalb of the returned placement; failure: the trivially-feasible flag of the state itself
            linp.append("LC " + " ".join(r.state) + " " + " ".join(str(v) for v in (pl if kind == "OK" else _orig(r.state))))
            lmap.append((n, who, kind))
    lout, _, _ = common.run_both([driver], None, linp)
    flags = {(n, who): o.split() for (n, who, kind), o in zip(lmap, lout)}
    for n, r in enumerate(precs):
        dom, mk, mpl, fk, fpl = parsed[n]
        orig = _orig(r.state)
        bad_fresh = False
        if dom is None:
            f = flags.get((n, "mine"))
            if mk == "OK":
                res["returned_in_domain"] += 1
                res["moved_cells"] += mpl != orig
                if f is None or f[:1] != ["1"]:
                    res["illegal"].append((r, "%s returned normally on a circuit with a history of public edits, but the placement is not legal (proved checker legalb = false)" % STAGE[r.op]))
                # C04's clause on the same result (used by checks/c04.py): orient_okb against the rows the circuit holds right before the call
                cells, _ = lc.cells_of(r.state)
                res["polarised_returned"] += any(c[5] != 0 and not c[6] for c in cells)
                res["setup_rows_before_call"] += any("setupRows" in t for t in cs.steps_text(r.case, r.step))
                if f is None or len(f) < 2 or f[1] != "1":
                    res["orient_fail"].append((r, mpl, "%s returned normally on a circuit with a history of public edits, but a cell has an orientation its polarity does not "
                                                       "prescribe for the row (of the circuit's rows at the moment of the call) it sits on (proved checker orient_okb = false)" % STAGE[r.op]))
            else:
                if mpl is not None and mpl != orig:
                    res["failure_moved"].append((r, "%s raised an error (%s) on a circuit with a history of public edits but left a modified placement" % (STAGE[r.op], mk)))
                if r.op == 16 and f is not None and len(f) >= 3 and f[2] == "1":
                    res["trivial_failed"].append((r, "Circuit::legalize failed (%s) on a circuit with a history of public edits although success is trivial for its state" % mk))
            ff = flags.get((n, "fresh"))
            bad_fresh = fk == "OK" and ff is not None and ff[:1] != ["1"]
        if (mk, mpl) != (fk, fpl):
            res["differ"].append((r, bad_fresh))
    return res


def detail(r):
    return {"case": r.case, "format": "see harness/circseq.cpp header (SP)", "after_step": r.step, "steps_so_far": cs.steps_text(r.case, r.step),
            "call": "%s %s" % (cs.steps_text(r.case, r.step)[-1:], r.args),
            "public_state_before_the_call": "LG " + " ".join(r.state), "nets": r.nets,
            "implementation_output": r.mine, "fresh_circuit_with_the_same_state": r.fresh}


def report(ctx, res):
    """returns the number of concrete violations reported"""
    bad = res["illegal"] + res["failure_moved"] + res["trivial_failed"]
    for r, why in bad[:3]:
        ctx.violation("C01 violated inside a sequence of public edits and placement calls on one Circuit: " + why, dict(detail(r), why=why))
    for case, text in res["anomalies"][:3]:
        ctx.violation("a sequence of public edits and legalize/placeDetailed calls did not run through: " + text[:200],
                      {"case": case, "format": "see harness/circseq.cpp header (SP)", "implementation_output": text[:400], "why": text[:200]})
    if res["differ"] and not bad and not res["anomalies"]:
        r, bad_fresh = res["differ"][0]
        ctx.violation("a Circuit with a history of public edits and a freshly built circuit holding the same public state give different results "
                      "for the same placement call (%d of %d calls); both results satisfy C01, no circuit violating C01 found"
                      % (len(res["differ"]), res["stats"]["legalize_calls"] + res["stats"]["placeDetailed_calls"]),
                      dict(detail(r), broken="correspondence: the model (coq/Legalizer.v, theorems of Properties_C01.v) is a function of the circuit's public "
                                             "state; the implementation's result depends on the history of the object"), found_input=False)
    return len(bad) + len(res["anomalies"])


def summary(res):
    d = dict(res["stats"])
    d.update({k: res[k] for k in ("in_domain_calls", "returned_in_domain", "calls_after_an_earlier_stage", "outcomes")})
    d["returned_in_domain_calls_with_a_setupRows_step_before_them"] = res["setup_rows_before_call"]
    d.update({"returned_placements_moving_a_cell": res["moved_cells"], "illegal_results": len(res["illegal"]), "failures_leaving_a_modified_placement": len(res["failure_moved"]),
              "failures_on_trivially_feasible_states": len(res["trivial_failed"]), "results_differing_from_fresh_circuit": len(res["differ"]),
              "steps_not_run_through": len(res["anomalies"])})
    return d


def replay_case(case):
    res = run_stage_sequences(0, 0, [case])
    print("case :", case)
    for t in cs.steps_text(case):
        print("  step", t)
    for c, text in res["anomalies"]:
        print("NOT RUN THROUGH:", text[:300])
    n = 0
    for (r, why) in res["illegal"] + res["failure_moved"] + res["trivial_failed"]:
        n += 1
        print("after step %d: state LG %s\n  object with history: %s\n  fresh circuit      : %s\n  %s" % (r.step, " ".join(r.state), r.mine, r.fresh, why))
    for r, _ in res["differ"]:
        n += 1
        print("after step %d: state LG %s\n  object with history: %s\n  fresh circuit      : %s\n  DIFFERENT" % (r.step, " ".join(r.state), r.mine, r.fresh))
    print("placement calls: %d, bad: %d" % (res["stats"]["legalize_calls"] + res["stats"]["placeDetailed_calls"], n))
    return 1 if n or res["anomalies"] else 0
