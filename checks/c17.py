"""C17 -- the continuous wirelength solver honours real-valued net weights.
Proof: coq/Properties_C17.v over coq/Quad.v (matrix assembly of NetModel/MatrixCreator over Q): homogeneity of
every model in weights and penalty strengths, invariance of the solution set, normal equations / least-squares
optimum for two-pin nets and the star model, truncating container refuted (F12).
Tie (harness/quad.cpp, which #includes net_model.cpp of the tree under test):
  ASM   triplets (duplicates summed, sorted), rhs, initial guess, stored net weights of the C++ against the extracted
        model: EXACT when the C++ assembly raised no FE_INEXACT (dyadic class), relative 1e-5 otherwise;
        + the statement on the C++ output alone: weights*2 and *0.5 scale every triplet/rhs entry exactly (harness),
          M x - b = gradient of the documented objective at a test point for addBipoint/createStar(topo) (here)
        + streams "coin" (ASM), "scoin" (SOLVE), "fcoin" (FASM) of harness/quad.cpp: EXACT coincidences of pin positions for the four
          placement-based models (all pins of a net at one position, two coincident, on a fixed pin, ties at the min/max pin, distance
          eps/2, eps, 2 eps, stacked cells, penalty target at the placement): the entries are decided by the floor weight / max(eps, dist)
          that Quad.v and QuadFloat.v both contain; a non-finite entry of the C++ system (model finite) or a non-finite solver coordinate
          is a violation with the case line
  CASM / CSOLVE  the same two ties with the NetModel taken from NetModel::xTopology / yTopology of a CIRCUIT whose nets have several pins on
        one movable cell (a pin listed twice, pins aligned in one axis, all pins on one cell): the model and the oracles receive the addNet calls
        with EVERY pin of the circuit counted (circ_convert), so a topology that merges or drops pins changes w/n, w/(n-1) and is caught
  SOLVE solveStar/solve/solveWithPenalty/solveB2B with all weights and strengths times 2, 1/4, 1024 (bitwise equal
        results) and times 2.5, 7 (within SOLVE_TOL of the coordinate span, anchored systems only)   [validated, not proved]
  PLACE Circuit::placeGlobal with weights and penalty.initialValue times 2, 1/2: every callback and the result equal;
        times 2.5, 7: first lower-bound callback within 1 + 1e-3 * span; x/yTopology store the circuit's weights.
        PLACECB: the same with a callback that resizes cells (setCellWidth/Height), sets net weights or only reads at given
        callbacks of the run; factors 4 and 1/8: identical traces (placements, sizes, number of steps) and results.
        Stream "placep": the same with a tail of ACCEPTED parameter values other than the defaults (global.noise exactly 0,
        every checked field of GlobalPlacerParameters at the ends of its accepted interval; see genPlaceP in harness/quad.cpp).
  FASM  the assembly at weights/strengths * 1 and * 2^k against the Flocq binary32 model coq/QuadFloat.v evaluated inside Coq
        (vm_compute), BIT FOR BIT; + the statement of c17_float_assembly_pow2_exact on the C++ output (side condition true in
        both runs => every triplet value and rhs entry is ldexp(original, k))
  SOLVEK solve with weights/strengths * 2^k, k over the whole window in which the binary32 assembly is exactly scaled (fs_ok of the Flocq
        model true in both runs): the solution must be bitwise the same (finding F22 on the unrepaired tree)."""
import json
import math
import struct
from fractions import Fraction

from tools import common

LEVEL = "proof"
REL = Fraction(1, 100000)          # stated tolerance of the non-exact comparisons
SOLVE_TOL = 5e-3                   # non-dyadic factors: |x_k - x_1| <= SOLVE_TOL * span (measured max over 5.4e5 comparisons: 3.6e-4)
REG = Fraction(11258999, 1 << 50)  # 1.0e-8f
N_COIN_Q, N_SCOIN_Q, N_FCOIN_Q = 1500, 400, 40   # quick-tier sizes of the exact-coincidence streams (ASM, SOLVE, FASM lines)


# ---------------------------------------------------------------- parsing
class Rd:
    def __init__(self, toks):
        self.t, self.p = toks, 0

    def nx(self):
        v = int(self.t[self.p]); self.p += 1
        return v

    def q(self):
        n = self.nx(); e = self.nx()
        return Fraction(n, 1 << e)


def read_body(r):
    b = {"mode": r.nx(), "nc": r.nx(), "eps": r.q(), "nets": []}
    for _ in range(r.nx()):
        npins = r.nx(); w = r.q()
        pins = [(r.nx(), r.q()) for _ in range(npins)]
        fx = r.nx()
        ext = (r.q(), r.q()) if fx else None
        b["nets"].append({"w": w, "pins": pins, "ext": ext})
    b["pl"] = [r.q() for _ in range(r.nx())]
    b["pen"] = None
    if r.nx():
        cut = r.q()
        b["pen"] = (cut, [(r.q(), r.q()) for _ in range(b["nc"])])
    return b


def netmodel_pins(b):
    """the pin lists NetModel::addNet stores (independent re-statement of net_model.cpp:115-147); nets with <= 1 pin are dropped"""
    out = []
    for n in b["nets"]:
        pins = list(n["pins"])
        if not pins:
            continue
        if n["ext"] is not None:
            mn, mx = n["ext"]
            pins.append((-1, mn))
            if mx != mn:
                pins.append((-1, mx))
        if len(pins) <= 1:
            continue
        out.append((n["w"], pins))
    return out


NONFINITE = ("nan", "inf", "-inf", "huge")      # printed by harness/quad.cpp showf for NaN, +-infinity and values above 2^62


def fr_impl(s):
    n, e = s.split()
    if n in NONFINITE:
        return n
    return Fraction(int(n), 1 << int(e))


def first_nonfinite(isys):
    """(description, key) of the first matrix / rhs / initial entry of the C++ system that is not a finite number of moderate size, or None"""
    for r, c, v in isys["trips"]:
        if isinstance(v, str):
            return "matrix entry (%d, %d) = %s" % (r, c, v), ("trips", (r, c))
    for name in ("rhs", "init"):
        for i, v in enumerate(isys[name]):
            if isinstance(v, str):
                return "%s[%d] = %s" % ("rhs" if name == "rhs" else "initial", i, v), (name, i)
    return None


def fr_model(s):
    a, b = s.split("/")
    neg = a.startswith("-")
    a = a.lstrip("-")
    v = Fraction(int(a[1:], 2), int(b[1:], 2))
    return -v if neg else v


def parse_sys(txt, fr):
    parts = [p.strip() for p in txt.split("|")]
    n = int(parts[0])
    trips = []
    if parts[1]:
        for t in parts[1].split(";"):
            r, c, v = t.split(" ", 2)
            trips.append((int(r), int(c), fr(v)))
    vec = lambda p: [fr(x) for x in p.split(";")] if p else []
    ntrips = None
    if len(parts) >= 7:                                      # what solve() hands to Eigen: check(); normalize(); finalize()
        ntrips = [(int(t.split(" ", 2)[0]), int(t.split(" ", 2)[1]), fr(t.split(" ", 2)[2])) for t in parts[5].split(";")] if parts[5] else []
    return {"n": n, "trips": trips, "rhs": vec(parts[2]), "init": vec(parts[3]), "w": vec(parts[4]),
            "ntrips": ntrips, "nrhs": vec(parts[6]) if len(parts) >= 7 else None}


def canon(trips):
    d = {}
    for r, c, v in trips:
        d[(r, c)] = d.get((r, c), 0) + v
    return d


def pmax(b):
    m = Fraction(1)
    for n in b["nets"]:
        for _, o in n["pins"]:
            m = max(m, abs(o))
        if n["ext"]:
            m = max(m, abs(n["ext"][0]), abs(n["ext"][1]))
    for p in b["pl"]:
        m = max(m, abs(p))
    if b["pen"]:
        for t, _ in b["pen"][1]:
            m = max(m, abs(t))
    return m


def compare_sys(impl, model, exact, P):
    """None when equal (exactly / within REL), else a description of the first difference"""
    if impl["n"] != model["n"]:
        return "matrix size %d vs model %d" % (impl["n"], model["n"])
    ci, cm = canon(impl["trips"]), canon(model["trips"])
    if set(ci) != set(cm):
        return "non-zero pattern differs: only in C++ %s, only in model %s" % (sorted(set(ci) - set(cm))[:3], sorted(set(cm) - set(ci))[:3])
    diag = {}
    for (r, c), v in cm.items():
        if r == c:
            diag[r] = abs(v)
    for k in sorted(ci):
        a, m = ci[k], cm[k]
        if a != m and (exact or abs(a - m) > REL * max(abs(a), abs(m))):
            return "matrix entry %s: C++ %s model %s" % (k, float(a), float(m))
    if len(impl["rhs"]) != len(model["rhs"]) or len(impl["init"]) != len(model["init"]):
        return "vector sizes differ"
    for i, (a, m) in enumerate(zip(impl["rhs"], model["rhs"])):
        if a != m and (exact or abs(a - m) > REL * (diag.get(i, 0) * 2 * P + abs(m))):
            return "rhs[%d]: C++ %s model %s" % (i, float(a), float(m))
    for i, (a, m) in enumerate(zip(impl["init"], model["init"])):
        if a != m and (exact or abs(a - m) > REL * 2 * P):
            return "initial[%d]: C++ %s model %s" % (i, float(a), float(m))
    if exact and impl.get("ntrips") is not None and model.get("ntrips") is not None:
        # the normalised system (MatrixCreator::normalize, exact power-of-two scaling) is compared only in the exact class: with
        # rounding, max|b| of the C++ and of the Q model may fall on different sides of a power of two
        if canon(impl["ntrips"]) != canon(model["ntrips"]) or impl["nrhs"] != model["nrhs"]:
            return "system handed to Eigen after normalize(): C++ rhs %s, model rhs %s" % ([float(x) for x in impl["nrhs"]], [float(x) for x in model["nrhs"]])
    if impl["w"] != model["w"]:
        return "stored net weights: C++ %s model %s" % ([float(x) for x in impl["w"]], [float(x) for x in model["w"]])
    return None


def normal_equations(b, impl, exact, P):
    """modes 0 (createStar(topo)) and 5 (addBipoint on every net): M x - b of the C++ system must be the gradient of the
    documented weighted quadratic objective (with the weights as GIVEN) at a test point; None when it is"""
    nets = netmodel_pins(b)
    nc = b["nc"]
    nstar = sum(1 for w, p in nets if len(p) > 2 and len({c for c, _ in p}) > 1) if b["mode"] == 0 else 0
    n = nc + nstar
    if impl["n"] != n:
        return "matrix size %d, expected %d unknowns" % (impl["n"], n)
    x = [Fraction((7 * i * i + 3 * i) % 23 - 11) for i in range(n)]
    pos = lambda p: (x[p[0]] if p[0] >= 0 else 0) + p[1]
    g = [Fraction(0)] * n
    wsum = [Fraction(0)] * n
    touched = [False] * n
    k = nc
    for w, pins in nets:
        if b["mode"] == 5 or len(pins) <= 2 or len({c for c, _ in pins}) == 1:      # a net on one cell goes to addBipoint (F25)
            p0, p1 = pins[0], pins[1]
            if p0[0] == p1[0]:
                continue
            d = w * (pos(p0) - pos(p1))
            for p, sg in ((p0, 1), (p1, -1)):
                if p[0] >= 0:
                    g[p[0]] += sg * d; wsum[p[0]] += abs(w); touched[p[0]] = True
        else:
            ws = w / len(pins)
            for p in pins:
                d = ws * (pos(p) - x[k])
                g[k] -= d; wsum[k] += abs(ws); touched[k] = True
                if p[0] >= 0:
                    g[p[0]] += d; wsum[p[0]] += abs(ws); touched[p[0]] = True
            k += 1
    res = [-v for v in impl["rhs"]]
    for r, c, v in impl["trips"]:
        res[r] += v * x[c]
    for i in range(n):
        want = g[i] if touched[i] else REG * x[i]
        if res[i] != want and (exact or abs(res[i] - want) > REL * (wsum[i] * 2 * (P + 11) + abs(want))):
            return ("row %d: (M x - b) = %s but the gradient of the documented objective (weights as given) is %s at x = %s"
                    % (i, float(res[i]), float(want), [int(v) for v in x]))
    return None


def floats(hexes):
    return [struct.unpack("<f", struct.pack("<I", int(h, 16)))[0] for h in hexes.split()]


def anchored(b, touched_only=False):
    """every movable cell is tied (through nets) to a fixed pin or carries a penalty: the system is non-singular without the regulariser
    (touched_only: cells no net touches are left out -- the fixed cells of a circuit are such unknowns of its NetModel, x = 0 by the regulariser)"""
    if b["pen"] and all(s > 0 for _, s in b["pen"][1]):
        return True
    par = list(range(b["nc"] + 1))            # node nc = "fixed"

    def find(a):
        while par[a] != a:
            par[a] = par[par[a]]; a = par[a]
        return a
    for w, pins in netmodel_pins(b):
        if b["mode"] == 5:
            pins = pins[:2]
        ids = [p[0] if p[0] >= 0 else b["nc"] for p in pins]
        for i in ids[1:]:
            par[find(i)] = find(ids[0])
    touched = {p[0] for _, pins in netmodel_pins(b) for p in pins}
    return all(find(c) == find(b["nc"]) for c in range(b["nc"]) if not touched_only or c in touched)


def f32(x):
    return struct.unpack("<f", struct.pack("<f", x))[0]


def coincidences(b):
    """classes of EXACT coincidence present in a placement-based case (modes 1..4): pin positions are the binary32 values pl[c] + offset
    (binary64 sum rounded once to binary32 = the correctly rounded binary32 sum) and are compared bit for bit"""
    out = set()
    if not 1 <= b["mode"] <= 4 or len(b["pl"]) < b["nc"]:
        return out
    pl = [float(p) for p in b["pl"]]
    eps = float(b["eps"])
    for _, pins in netmodel_pins(b):
        pos = [f32((pl[c] if c >= 0 else 0.0) + float(o)) for c, o in pins]
        groups = {}
        for (c, _), x in zip(pins, pos):
            groups.setdefault(x, []).append(c)
        deg = "3plus" if len(pins) >= 3 else "2pin"
        if len(groups) == 1:
            out.add("all_pins_of_a_%s_net_%s" % (deg, "with_fixed_pin" if any(c < 0 for c, _ in pins) else "movable_only"))
        elif len(groups) < len(pins):
            for x, cs in groups.items():
                if len(cs) > 1:
                    out.add("some_pins_%s" % ("with_fixed_pin" if any(c < 0 for c in cs) else "movable_only"))
                    if x in (min(pos), max(pos)):
                        out.add("tie_at_the_min_or_max_pin")
        ds = [abs(x - y) for i, x in enumerate(pos) for y in pos[i + 1:]]
        if any(0 < d < eps for d in ds):
            out.add("distance_below_epsilon")
        if any(d == eps for d in ds):
            out.add("distance_equal_to_epsilon")
    if b["pen"] and any(t == p for (t, _), p in zip(b["pen"][1], b["pl"])):
        out.add("penalty_target_at_the_placement")
    return out


def count_coincidences(stats, b, l):
    cs = coincidences(b)
    d = stats.setdefault("coincidences", {}).setdefault(["", "B2B", "Star", "Clique", "LightStar"][b["mode"]] if 1 <= b["mode"] <= 4 else "other", {})
    for c in cs:
        d[c] = d.get(c, 0) + 1
    if any(c.startswith("all_pins_of_a_3plus") for c in cs):
        stats.setdefault("collapsed", set()).add(l)
    return cs


# ---------------------------------------------------------------- binary32 tie (Flocq model coq/QuadFloat.v, theorem c17_float_*)
# FASM: the underflow witness of QuadFloatProofs.fassembly_underflow_witness (one cell, net {cell 0, fixed pin at 0.375}, weight
# (2^23+1) 2^-23, k = -126, addBipoint): the scaled right-hand side is NOT 2^-126 times the original one
FASM_WITNESS = "FASM -126 5 1 1 0 1 2 8388609 23 0 0 0 -1 3 3 0 0 0"
FLOAT_FLAGS = ("harness and library built with g++ -std=gnu++17 -O1, x86-64 SSE scalar arithmetic, no -ffast-math, no -mfma (no contraction): "
               "one C++ float operator = one IEEE-754 binary32 operation, round to nearest even")


class RdF(Rd):
    def q(self):
        n = self.nx(); e = self.nx()
        return Fraction(n, 1 << e) if e >= 0 else Fraction(n * (1 << -e))


def dyad(fr):
    """dyadic Fraction -> (m, e), fr = m * 2^e, m odd (or 0, 0)"""
    if fr == 0:
        return 0, 0
    m, e = fr.numerator, -(fr.denominator.bit_length() - 1)
    while m % 2 == 0:
        m //= 2; e += 1
    return m, e


def f32_encode(fr, neg_zero=False):
    """bit pattern of a dyadic Fraction that is exactly a binary32 number, else None"""
    if fr == 0:
        return 0x80000000 if neg_zero else 0
    m, e = dyad(fr)
    sign = 0x80000000 if m < 0 else 0
    m = abs(m)
    nb = m.bit_length()
    if nb > 24 or e < -149 or e + nb > 128:
        return None
    if e + nb - 1 >= -126:                      # normal: mantissa widened to 24 bits
        m <<= 24 - nb; e -= 24 - nb
        return sign | ((e + 150) << 23) | (m - (1 << 23))
    return sign | (m << (e + 149))              # subnormal: exponent -149


def f32_decode(u):
    """bit pattern -> (sign bit, Fraction) or None for inf/NaN"""
    s, ex, mant = u >> 31, (u >> 23) & 0xFF, u & 0x7FFFFF
    if ex == 0xFF:
        return None
    v = Fraction(mant, 1 << 149) if ex == 0 else Fraction(mant + (1 << 23)) * Fraction(2) ** (ex - 150)
    return s, (-v if s else v)


def f32_ldexp_exact(u, k):
    """bits of (value of u) * 2^k when that is exactly a binary32 number (sign of zero kept), else None"""
    d = f32_decode(u) if u is not None else None
    if d is None:
        return None
    return f32_encode(d[1] * Fraction(2) ** k, neg_zero=bool(d[0]))


def spec_bits(tok):
    """'S754_finite false 8388611 (-2)' etc. (as printed by Coq) -> binary32 bit pattern (None for NaN)"""
    t = tok.replace("SpecFloat.", "").replace("(", " ").replace(")", " ").split()
    sign = 1 << 31 if len(t) > 1 and t[1] == "true" else 0
    if t[0] == "S754_zero":
        return sign
    if t[0] == "S754_infinity":
        return sign | (0xFF << 23)
    if t[0] == "S754_nan":
        return None
    m, e = int(t[2]), int(t[3])
    if m < (1 << 23):
        return sign | m if e == -149 else None
    return sign | ((e + 150) << 23) | (m - (1 << 23))


def gal_f(fr):
    m, e = dyad(fr)
    return "(f_of_me (%d) (%d))" % (m, e)


def gal_list(xs):
    return "[" + "; ".join(xs) + "]"


def gal_sys(b, nets, strengths, wrap="fsys_dump (ffinalize (%s))"):
    nm = "(fbuild_nm %d%%nat %s)" % (b["nc"], gal_list(
        "(%s, %s)" % (gal_f(w), gal_list("((%d), %s)" % (c, gal_f(o)) for c, o in pins)) for w, pins in nets))
    mode = b["mode"]
    pl = gal_list(gal_f(p) for p in b["pl"])
    if mode == 0:
        s = "fcreate_star0 %s" % nm
    elif mode <= 4:
        s = "fcreate %s %s %s %s" % (["B2B", "Star", "Clique", "LightStar"][mode - 1], nm, pl, gal_f(b["eps"]))
    else:
        s = ("fcreate_bipoint0 %s" if mode == 5 else "fcreate_clique0 %s") % nm
    if b["pen"]:
        cut, ts = b["pen"]
        s = "fadd_penalty %s %s %s %s (%s)" % (pl, gal_list(gal_f(t) for t, _ in ts), gal_list(gal_f(x) for x in strengths), gal_f(cut), s)
    return wrap % s


def parse_dump(txt):
    import re
    m = re.match(r"^\(\[(.*?)\], \[(.*?)\], \[(.*?)\], \[(.*?)\], (true|false)\)$", txt.replace("SpecFloat.", "").replace("[]", "[ ]"))
    if not m:
        return None
    sp = lambda p: [x.strip() for x in p.split(";") if x.strip()]
    rc = [int(x.replace("(", "").replace(")", "")) for x in sp(m.group(1))]
    return {"rc": list(zip(rc[0::2], rc[1::2])), "vals": [spec_bits(x) for x in sp(m.group(2))],
            "rhs": [spec_bits(x) for x in sp(m.group(3))], "init": [spec_bits(x) for x in sp(m.group(4))], "ok": m.group(5) == "true"}


def parse_fasm_impl(txt):
    p = [x.strip() for x in txt.split("|")]
    if len(p) not in (5, 7):
        return None
    trips = [t.split() for t in p[1].split(";")] if p[1] else []
    nan = lambda u: None if (u >> 23) & 0xFF == 0xFF and u & 0x7FFFFF else u          # NaN payloads and signs are not modelled
    hx = lambda q: [nan(int(x, 16)) for x in q.split(";")] if q else []
    return {"n": int(p[0].split()[0]), "pre": int(p[0].split()[1]), "rc": [(int(t[0]), int(t[1])) for t in trips], "vals": [nan(int(t[2], 16)) for t in trips],
            "rhs": hx(p[2]), "init": hx(p[3]), "w": hx(p[4]),
            # what MatrixCreator::solve hands to Eigen (check(); normalize(); finalize()): same rows/columns, values and rhs
            "nvals": hx(p[5]) if len(p) == 7 else None, "nrhs": hx(p[6]) if len(p) == 7 else None}


def far_unanchored(b):
    """finding F30: no fixed pin at all, a penalty whose targets are at least 2^14 away from the placement the nets are built around
    (strength / distance is then below the binary32 resolution of the net weights on the diagonal)"""
    if not b["pen"] or any(n["ext"] is not None or any(c < 0 for c, _ in n["pins"]) for n in b["nets"]):
        return False
    pl = b["pl"] or [Fraction(0)] * b["nc"]
    return any(abs(t - pl[i]) >= (1 << 14) for i, (t, _) in enumerate(b["pen"][1]) if i < len(pl))


def single_cell_star_net(b, kind=None):
    """finding F25: a net of more than two pins, all on one cell, in a model that creates star points (createStar(topo), Star, LightStar;
    SOLVE kinds 0 and 5 go through createStar(topo))"""
    return (b["mode"] in (0, 2, 4) or kind in (0, 5)) and any(len(pins) > 2 and len({c for c, _ in pins}) == 1 for _, pins in netmodel_pins(b))


def nonfinite_bits(u):
    return u is None or (u >> 23) & 0xFF == 0xFF


def float_tie(ctx, harness, count, diffs, concrete, only=None, ccount=0):
    """the assembly of the compiled library against the Flocq binary32 model evaluated inside Coq by vm_compute, bit for bit, at
    weights/strengths * 1 and * 2^k; and the statement of c17_float_assembly_pow2_exact on the C++ output"""
    lines = only or ([FASM_WITNESS] + common.corpus("C17", ("FASM ",)) + common.harness_gen(harness, ["fasm", ctx.seed, count])
                     + (common.harness_gen(harness, ["fcoin", ctx.seed, ccount]) if ccount else []))
    impl, _, _ = common.run_both([harness, "run"], None, lines)
    info = {"cases": len(lines), "values_compared_bit_for_bit": 0, "cases_equal_bit_for_bit": 0, "scaled_weight_not_a_binary32_number": 0,
            "side_condition_true_in_both_runs": 0, "of_which_scaled_exactly_on_the_cpp": 0, "side_condition_false": 0,
            "side_condition_false_and_cpp_not_scaled_exactly": 0, "witness_reproduced": False, "flags": FLOAT_FLAGS,
            "modes": {}, "samples": lines[1:3] + lines[-1:], "exact_coincidence_cases_fcoin_stream": ccount, "coincidences": {},
            "cases_with_a_collapsed_3plus_pin_net": 0, "cpp_nonfinite_where_model_finite": 0}
    todo, exprs = [], []
    for l, out in zip(lines, impl):
        t = l.split()
        k = int(t[1])
        b = read_body(RdF(t[2:]))
        runs = [parse_fasm_impl(x) for x in out.split(" || ")]
        if len(runs) != 2 or None in runs:
            concrete.append((l, "assembly did not return a system: " + out[:200], out[:300])); continue
        nets = netmodel_pins(b)
        f = Fraction(2) ** k
        st = [s for _, s in b["pen"][1]] if b["pen"] else []
        if any(f32_encode(w * f) is None for w, _ in nets) or any(f32_encode(s * f) is None for s in st):
            info["scaled_weight_not_a_binary32_number"] += 1            # the hypothesis "multiplied by 2^k exactly" does not hold
            continue
        todo.append((l, k, b, runs))
        exprs.append(gal_sys(b, nets, st))
        exprs.append(gal_sys(b, [(w * f, p) for w, p in nets], [s * f for s in st]))
        exprs.append(gal_sys(b, nets, st, wrap="fsys_dump (fsolver_input (%s))"))
        exprs.append(gal_sys(b, [(w * f, p) for w, p in nets], [s * f for s in st], wrap="fsys_dump (fsolver_input (%s))"))
        info["modes"][b["mode"]] = info["modes"].get(b["mode"], 0) + 1
        count_coincidences(info, b, l)
    res = common.vm_eval("C17f", "From Coq Require Import List ZArith. From Flocq Require Import Core BinarySingleNaN. Import ListNotations. "
                                 "Require Import CV.Quad CV.QuadFloat. Local Open Scope Z_scope.", exprs, timeout=1500) if exprs else []
    if res is None:
        diffs.append((lines[0], "vm_compute evaluation of the binary32 model (QuadFloat.fsys_dump) failed", "", False))
        info.pop("collapsed", None)
        return info
    for j, (l, k, b, runs) in enumerate(todo):
        mods = [parse_dump(res[4 * j]), parse_dump(res[4 * j + 1])]
        nmods = [parse_dump(res[4 * j + 2]), parse_dump(res[4 * j + 3])]
        if None in mods or None in nmods:
            diffs.append((l, "binary32 model output not understood: " + res[4 * j][:120], "", False)); continue
        bad = None
        # a value of the C++ system that is infinite or NaN where the binary32 model of the assembly, on the same finite inputs, computes
        # only finite values (no overflow anywhere): a real violation with this case as the failing input
        nf = None
        for name, r, m in (("weights*1", runs[0], mods[0]), ("weights*2^%d" % k, runs[1], mods[1])):
            if nf is None and not any(nonfinite_bits(u) for key in ("vals", "rhs", "init") for u in m[key]):
                for key in ("vals", "rhs", "init"):
                    i = next((i for i, u in enumerate(r[key]) if nonfinite_bits(u)), None)
                    if i is not None and nf is None:
                        at = "matrix entry (%d, %d)" % r["rc"][i] if key == "vals" and i < len(r["rc"]) else "%s[%d]" % (key, i)
                        mv = m[key][i] if i < len(m[key]) else None
                        nf = ("%s: %s has bits %s (infinite or NaN) although every input is finite; the Flocq binary32 model of the assembly "
                              "(QuadFloat.v: net weight / max(epsilon, distance)) computes only finite values for this case, here %s"
                              % (name, at, "NaN" if r[key][i] is None else "%08x" % r[key][i],
                                 "bits %08x = %r" % (mv, floats("%x" % mv)[0]) if mv is not None else "no such entry"))
        if nf:
            info["cpp_nonfinite_where_model_finite"] += 1
            concrete.append((l, "the assembled system has a non-finite value: " + nf, impl[lines.index(l)][:300]))
            continue
        for name, r, m in (("weights*1", runs[0], mods[0]), ("weights*2^%d" % k, runs[1], mods[1])):
            for key in ("rc", "vals", "rhs", "init"):
                if r[key] != m[key]:
                    i = next((i for i in range(min(len(r[key]), len(m[key]))) if r[key][i] != m[key][i]), -1)
                    bad = bad or "%s, %s[%d]: C++ %s, binary32 model %s" % (name, key, i, r[key][i] if i >= 0 else len(r[key]), m[key][i] if i >= 0 else len(m[key]))
            info["values_compared_bit_for_bit"] += len(r["vals"]) + len(r["rhs"]) + len(r["init"])
        for name, r, m in (("weights*1", runs[0], nmods[0]), ("weights*2^%d" % k, runs[1], nmods[1])):
            if r["nvals"] is not None and (r["nvals"] != m["vals"] or r["nrhs"] != m["rhs"]):     # normalize(): QuadFloat.fnormalize
                key, mk = ("nvals", "vals") if r["nvals"] != m["vals"] else ("nrhs", "rhs")
                i = next((i for i in range(min(len(r[key]), len(m[mk]))) if r[key][i] != m[mk][i]), -1)
                bad = bad or "%s, system handed to Eigen after normalize(), %s[%d]: C++ %s, binary32 model %s" % (
                    name, mk, i, r[key][i] if i >= 0 else len(r[key]), m[mk][i] if i >= 0 else len(m[mk]))
            if r["nvals"] is not None:
                info["values_compared_bit_for_bit"] += len(r["nvals"]) + len(r["nrhs"])
        if bad and single_cell_star_net(b) and ctx.known_finding("F25"):
            continue                                           # the models follow the repaired code (no star point for a net on one cell)
        for name, r, fac in (("weights*1", runs[0], 1), ("weights*2^%d" % k, runs[1], Fraction(2) ** k)):
            given = [f32_encode(w * fac) for w, _ in netmodel_pins(b)]
            if r["w"] != given:
                bad = bad or "%s: NetModel::netWeight() returns bits %s for nets added with weights of bits %s" % (name, r["w"], given)
        if bad:
            diffs.append((l, "assembly differs bit for bit from the binary32 model QuadFloat.v: " + bad, impl[lines.index(l)][:300], False))
        else:
            info["cases_equal_bit_for_bit"] += 1
        # the statement on the C++ output: same pattern, every value of the scaled run = ldexp(original value, k) exactly
        a, c = runs
        pre = a["pre"]                                              # triplets emitted before finalize(); the 1.0e-8f entries follow, unscaled
        exact = (a["rc"] == c["rc"] and a["init"] == c["init"] and len(a["rhs"]) == len(c["rhs"]) and c["pre"] == pre
                 and all(c["vals"][i] == f32_ldexp_exact(a["vals"][i], k) for i in range(pre))
                 and a["vals"][pre:] == c["vals"][pre:]
                 and all(c["rhs"][i] == f32_ldexp_exact(a["rhs"][i], k) for i in range(len(a["rhs"]))))
        if l in info.get("collapsed", ()):
            info["cases_with_a_collapsed_3plus_pin_net"] += 1
        if mods[0]["ok"] and mods[1]["ok"]:
            info["side_condition_true_in_both_runs"] += 1
            # c17_float_solver_input_pow2_identical on the C++ output: with a non-zero right-hand side the two systems handed to Eigen are the same bits
            if a["nvals"] is not None and any(u is not None and u & 0x7FFFFFFF for u in a["rhs"]):
                info["solver_input_compared_across_runs"] = info.get("solver_input_compared_across_runs", 0) + 1
                if a["nvals"] != c["nvals"] or a["nrhs"] != c["nrhs"]:
                    concrete.append((l, "weights and strengths times 2^%d: after normalize() MatrixCreator::solve does not hand the same system to Eigen "
                                        "although the assembly is exactly scaled (fs_ok true in both runs, non-zero right-hand side: "
                                        "c17_float_solver_input_pow2_identical)" % k, impl[lines.index(l)][:300]))
            if exact:
                info["of_which_scaled_exactly_on_the_cpp"] += 1
            else:
                concrete.append((l, "weights and strengths times 2^%d: the C++ system is not the original one with every value multiplied by 2^%d "
                                    "although no operation overflowed or left the normal range (side condition fs_ok of "
                                    "c17_float_assembly_pow2_exact true in both runs)" % (k, k), impl[lines.index(l)][:300]))
        else:
            info["side_condition_false"] += 1
            if not exact:
                info["side_condition_false_and_cpp_not_scaled_exactly"] += 1
                if l == FASM_WITNESS:
                    info["witness_reproduced"] = True
    info.pop("collapsed", None)
    return info


# The conjugate gradient is NOT modelled.  Gating stream SOLVEK: every weight and penalty strength times 2^k, for k over the whole window in
# which the binary32 assembly is exactly scaled (side condition fs_ok of c17_float_assembly_pow2_exact true in both runs, evaluated on the
# Flocq model inside Coq): there, since the repair of F22 (normalize()), the solver receives THE SAME system for both runs
# (c17_float_solver_input_pow2_identical; before the repair: (A + D, b, x0) and (2^k A + D, 2^k b, x0)) and the property demands the same
# solution, bit for bit.  Finding F22: Eigen's kernel compares |r|^2 with max(tol^2 |b|^2, FLT_MIN) and computes |b|^2, |r|^2 in binary32,
# so the unrepaired MatrixCreator::solve is exact only for about -44 <= k <= 52 on this distribution; the repair normalises (A, b) by a power
# of two.  Witness (corpus/C17): one cell, net to two fixed pins, tolerance 1e-4, k = -64: the solver returns its initial guess 0, not 68.17.
SOLVEK_KS = (-112, -96, -80, -64, -48, -30, 30, 48, 64, 80, 96, 112)


def check_solvek(ctx, harness, solve_lines, per_line, stats, only=None):
    """returns (violations with concrete input [(case, why)], statistics)"""
    cases = list(only or common.corpus("C17", ("SOLVEK ",)))
    for i, l in enumerate(solve_lines):
        body = l.split(" ", 1)[1]
        cases += ["SOLVEK %d %s" % (SOLVEK_KS[(i + j * len(SOLVEK_KS) // per_line) % len(SOLVEK_KS)], body) for j in range(per_line)]
    impl, _, _ = common.run_both([harness, "run"], None, cases, chunk=200)
    info = {"cases": len(cases), "gated_side_condition_true_in_both_runs": 0, "of_which_bitwise_equal": 0, "not_gated": 0,
            "note": "per k: [gated, bitwise different among the gated, not gated (fs_ok false or scaled weight not a binary32 number)]", "per_k": {}}
    exprs, index, parsed = [], {}, []
    for c in cases:
        t = c.split()
        k = int(t[1])
        r = RdF(t[2:]); r.nx(); r.q(); r.nx()                      # kind tol maxit
        b = read_body(r)
        nets = netmodel_pins(b)
        st = [x for _, x in b["pen"][1]] if b["pen"] else []
        f = Fraction(2) ** k
        ok = not (any(f32_encode(w * f) is None for w, _ in nets) or any(f32_encode(x * f) is None for x in st))
        keys = []
        for fac in ((Fraction(1), f) if ok else ()):
            e = gal_sys(b, [(w * fac, p) for w, p in nets], [x * fac for x in st], wrap="fs_ok (%s)")
            if e not in index:
                index[e] = len(exprs); exprs.append(e)
            keys.append(index[e])
        parsed.append((k, keys))
    res = common.vm_eval("C17k", "From Coq Require Import List ZArith. From Flocq Require Import Core BinarySingleNaN. Import ListNotations. "
                                 "Require Import CV.Quad CV.QuadFloat. Local Open Scope Z_scope.", exprs, timeout=1500) if exprs else []
    bad = []
    if res is None:
        info["error"] = "vm_compute evaluation of fs_ok failed: nothing gated"
        return bad, info
    for c, out, (k, keys) in zip(cases, impl, parsed):
        pk = info["per_k"].setdefault(str(k), [0, 0, 0])
        p = out.split(" | ")
        if len(p) != 2:
            bad.append((c, "solver did not return: " + out[:200])); continue
        if len(keys) != 2 or res[keys[0]] != "true" or res[keys[1]] != "true":
            info["not_gated"] += 1; pk[2] += 1
            continue
        info["gated_side_condition_true_in_both_runs"] += 1; pk[0] += 1
        if p[0] == p[1]:
            info["of_which_bitwise_equal"] += 1
            continue
        pk[1] += 1
        if abs(k) >= 40 and ctx.known_finding("F22"):
            continue
        x1, xk = floats(p[0]), floats(p[1])
        j = next((j for j in range(min(len(x1), len(xk))) if p[0].split()[j] != p[1].split()[j]), 0)
        bad.append((c, "solution changes when every weight and penalty strength is multiplied by 2^%d although the assembled system is exactly the "
                       "original one times 2^%d (no overflow, no subnormal intermediate: fs_ok true in both runs): x[%d] = %r vs %r"
                       % (k, k, j, x1[j] if j < len(x1) else None, xk[j] if j < len(xk) else None)))
    return bad, info

# ---------------------------------------------------------------- run
def check_asm(ctx, lines, impl, model, stats):
    """returns (violations with concrete input, model/impl differences)"""
    concrete, diffs = [], []
    for l, i, m in zip(lines, impl, model):
        b = read_body(Rd(l.split()[1:]))
        if " # IX=" not in i:
            concrete.append((l, "assembly did not return a system: " + i[:200], i[:300]))
            continue
        body, verd = i.rsplit(" # ", 1)
        exact = verd.startswith("IX=0")
        h = verd.split("H=", 1)[1]
        isys = parse_sys(body, fr_impl)
        P = pmax(b)
        stats["exact" if exact else "toleranced"] += 1
        stats["mode%d" % b["mode"]] = stats.get("mode%d" % b["mode"], 0) + 1
        nets = netmodel_pins(b)
        if any(w < 1 or w.denominator != 1 for w, _ in nets):
            stats["with_fractional_weight"] += 1
        if len(nets) and any(len({c for c, _ in p}) > 1 for _, p in nets):
            stats["nontrivial"].add(l)
        count_coincidences(stats, b, l)
        why = None
        nf = first_nonfinite(isys)
        if nf:
            want = "not available"
            if " ## " in m:
                msys = parse_sys(m.split(" ## ")[0], fr_model)
                kind, key = nf[1]
                v = canon(msys["trips"]).get(key) if kind == "trips" else (msys[kind][key] if key < len(msys[kind]) else None)
                want = "%s (= %r)" % (v, float(v)) if v is not None else "no such entry"
            concrete.append((l, "the assembled system has a non-finite value although every weight, offset, position and distance of the case is finite: %s; "
                                "the exact model over Q of the assembly (net weight / max(epsilon, distance), Quad.v; duplicate triplets summed) gives %s: the pull of the net is "
                                "not proportional to its weight and the solve returns NaN" % (nf[0], want), i[:300]))
            continue
        if h != "OK":
            why = "homogeneity of the assembled system fails on the C++: " + h
        elif b["mode"] in (0, 5):
            ne = normal_equations(b, isys, exact, P)
            if ne:
                why = "assembled system is not the normal equations of the documented objective: " + ne
        if why is None and [x for x in isys["w"]] != [w for w, _ in nets]:
            why = "NetModel::netWeight() returns %s for nets added with weights %s" % ([float(x) for x in isys["w"]], [float(w) for w, _ in nets])
        if " ## " not in m:
            diffs.append((l, "model driver: " + m[:100], "", False))
            if why:
                concrete.append((l, why, i[:300]))
            continue
        mrep, mtrunc = m.split(" ## ")
        d = compare_sys(isys, parse_sys(mrep, fr_model), exact, P)
        if (d or why) and single_cell_star_net(b) and ctx.known_finding("F25"):
            continue                                           # the models follow the repaired code (no star point for a net on one cell)
        if d:
            f12 = compare_sys(isys, parse_sys(mtrunc, fr_model), exact, P) is None
            diffs.append((l, d, i[:300], f12))
            if why and f12:
                why += " [the C++ system equals the model with the truncating container of the unchanged tree: finding F12, std::vector<int> netWeight_]"
        if why:
            concrete.append((l, why, i[:300]))
    return concrete, diffs


# ---------------------------------------------------------------- least-squares oracle on SOLVER OUTPUT (SOLVE kind 0 = solveStar(params))
# The system of createStar(topo) is the normal-equation system of the documented objective: a net of <= 2 pins (or with all pins on one
# cell) is a two-pin term w (p0 - p1)^2 / 2, a net of n > 2 pins a star  sum_p (w / n) (p - s)^2 / 2  with one extra unknown s.  Both are
# rebuilt here over the RATIONALS from the case line alone (weights as given), independently of MatrixCreator.
LS_ULPS = 64      # allowance for binary32 rounding inside the conjugate gradient, in units of 2^-24 of |A||x| + |b|


def ls_gradient(b, x, stars, absolute=False):
    """gradient (= M x - rhs of the full system, star unknowns last) of the objective at cells x, star points `stars`; with
    absolute=True every term enters with its absolute value (the |A||x| + |b| scale of the rounding allowance)"""
    nets = netmodel_pins(b)
    nc = b["nc"]
    g = [Fraction(0)] * (nc + len(stars))
    a = abs if absolute else (lambda v: v)
    pos = lambda p: (x[p[0]] if p[0] >= 0 else 0) + p[1]
    k = nc
    for w, pins in nets:
        if len(pins) <= 2 or len({c for c, _ in pins}) == 1:
            p0, p1 = pins[0], pins[1]
            if p0[0] == p1[0]:
                continue
            d = (abs(w) * (abs(pos(p0)) + abs(pos(p1)))) if absolute else w * (pos(p0) - pos(p1))
            if p0[0] >= 0:
                g[p0[0]] += d
            if p1[0] >= 0:
                g[p1[0]] += d if absolute else -d
        else:
            ws = w / len(pins)
            for p in pins:
                d = (abs(ws) * (abs(pos(p)) + abs(stars[k - nc]))) if absolute else ws * (pos(p) - stars[k - nc])
                g[k] += d if absolute else -d
                if p[0] >= 0:
                    g[p[0]] += d
            k += 1
    return g


def ls_star_optimum(b, x):
    """the optimal star point of every star net for the cell positions x: the mean of its pin positions"""
    pos = lambda p: (x[p[0]] if p[0] >= 0 else 0) + p[1]
    return [sum(pos(p) for p in pins) / len(pins) for w, pins in netmodel_pins(b)
            if not (len(pins) <= 2 or len({c for c, _ in pins}) == 1)]


def ls_residual(b, tol, xs):
    """(norm of the reduced residual, bound) of the solver output xs (binary32 cell coordinates) for the star system of body b.
    Eigen's ConjugateGradient stops when ||rho||_2 <= tol ||rhs||_2 for its recurrence residual rho of the FULL system (normalize() scales
    matrix and rhs by one power of two: relative quantities are unchanged; the 1e-8 regulariser sits only on rows no net touches, whose
    residual row is 0).  Eliminating the star unknowns s (optimal s = mean of the pins) gives the residual of the reduced system in the
    cells alone, r_red = r_c - A_cs A_ss^-1 r_s with ||A_cs A_ss^-1||_2 <= sqrt(#stars).  Hence
        ||r_red||_2 <= (1 + sqrt(#stars)) * (tol * ||rhs||_2 + LS_ULPS * 2^-24 * || |A||x| + |rhs| ||_2)
    where the second term allows for the binary32 rounding of the recurrence (measured on 3011 runs of the unchanged tree: the left side is at
    most 2.9 tol ||rhs||_2 at tol = 1e-6, median 0.006; a solver that is scale-covariant but wrong by a few per cent is off by 1e4 .. 1e6)."""
    nc = b["nc"]
    x = [Fraction(v) for v in xs[:nc]]
    stars = ls_star_optimum(b, x)
    red = ls_gradient(b, x, stars)[:nc]
    zero = [Fraction(0)] * nc
    rhs = ls_gradient(b, zero, [Fraction(0)] * len(stars))
    scale = ls_gradient(b, x, stars, absolute=True)
    n2 = lambda v: math.sqrt(float(sum(t * t for t in v)))
    bound = (1 + math.sqrt(len(stars))) * (float(tol) * n2(rhs) + LS_ULPS * 2.0 ** -24 * n2(scale))
    return n2(red), bound, n2(rhs), len(stars)


def check_solve(lines, impl, stats, ctx=None, circ=False):
    bad = []
    for l, i in zip(lines, impl):
        toks = l.split()
        r = Rd(toks[1:]); kind = r.nx(); tol = r.q(); r.nx()
        b = read_body(r)
        parts = i.split(" | ")
        if len(parts) != 8:
            bad.append((l, "solver did not return: " + i[:200])); continue
        base = parts[0]
        stats["solve_kind%d" % kind] = stats.get("solve_kind%d" % kind, 0) + 1
        if count_coincidences(stats.setdefault("solve_stream", {}), b, l):
            stats["solve_with_exact_coincidence"] = stats.get("solve_with_exact_coincidence", 0) + 1
        j = next((j for j, h in enumerate(base.split()) if nonfinite_bits(int(h, 16))), None)
        if j is not None and ctx is not None and single_cell_star_net(b, kind) and ctx.known_finding("F25"):
            continue                                           # a star point on a net whose pins are all on one cell: singular system
        if j is not None and ctx is not None and far_unanchored(b) and ctx.known_finding("F30"):
            continue                                           # the penalty anchor is lost in the binary32 sum on the diagonal
        if j is not None:
            bad.append((l, "the solver returns a non-finite coordinate although every weight, strength, offset and position of the case is finite: "
                           "x[%d] has bits %s (%r)" % (j, base.split()[j], floats(base.split()[j])[0])))
            continue
        if kind == 0:
            # the least-squares clause on the solver's OUTPUT (two-pin and star terms, exact rational residual): a solution that is
            # scale-covariant but wrong is caught here
            xs0 = floats(base)
            res, bound, nrhs, nstar = ls_residual(b, tol, xs0)
            ls = stats.setdefault("least_squares_oracle", {"solutions_checked": 0, "with_star_nets": 0, "zero_rhs": 0, "max_residual_over_bound": 0.0,
                                                           "perturbed_solutions_tried": 0, "perturbed_solutions_rejected": 0})
            ls["solutions_checked"] += 1
            ls["with_star_nets"] += 1 if nstar else 0
            ls["zero_rhs"] += 1 if nrhs == 0 else 0
            if bound > 0:
                ls["max_residual_over_bound"] = max(ls["max_residual_over_bound"], res / bound)
            if not res <= bound:
                bad.append((l, "solveStar returns x = %s which is not the least-squares optimum of the documented objective: the exact residual of the "
                               "normal equations (star points eliminated) has norm %g > %g = (1 + sqrt(%d stars)) (tol %g * |rhs| %g + %d * 2^-24 * | |A||x| + |rhs| |)"
                            % (xs0[:8], res, bound, nstar, float(tol), nrhs, LS_ULPS)))
                continue
            if (anchored(b) or (circ and anchored(b, True) and any(c == 0 for _, pins in netmodel_pins(b) for c, _ in pins))) and nrhs > 0 and xs0:
                # discrimination: the same solution with cell 0 moved by 1 % of the coordinate span must be REJECTED by the oracle
                pert = list(xs0); pert[0] = f32(pert[0] + 0.01 * float(2 * pmax(b)))
                r2, b2, _, _ = ls_residual(b, tol, pert)
                ls["perturbed_solutions_tried"] += 1
                ls["perturbed_solutions_rejected"] += 1 if r2 > b2 else 0
        for f, p in zip((2, 0.25, 1024, "2^-20", "2^-24"), parts[1:4] + parts[6:8]):
            if p != base:
                x1, xk = floats(base), floats(p)
                j = next((j for j in range(len(x1)) if base.split()[j] != p.split()[j]), 0)
                bad.append((l, "solution changes bitwise when every weight and penalty strength is multiplied by %s: x[%d] = %r vs %r"
                            % (f, j, x1[j], xk[j] if j < len(xk) else None)))
                break
        else:
            if anchored(b):
                span = float(2 * pmax(b))
                x1 = floats(base)
                for f, p in zip((2.5, 7), parts[4:6]):
                    xk = floats(p)
                    dmax = max([abs(a - c) for a, c in zip(x1, xk)] + [0.0])
                    stats["solve_max_rel_dev"] = max(stats["solve_max_rel_dev"], dmax / span)
                    if not dmax <= SOLVE_TOL * span:
                        bad.append((l, "solution moves by %g (> %g = %g of the coordinate span %g) when every weight and penalty strength is multiplied by %s"
                                    % (dmax, SOLVE_TOL * span, SOLVE_TOL, span, f)))
                        break
                stats["solve_nondyadic_compared"] += 1
    return bad


PLACE_PARAM_NAMES = {0: "effort", 1: "maxNbSteps", 2: "nbInitialSteps", 3: "nbStepsBeforeRoughLegalization", 4: "gapTolerance", 5: "distanceTolerance",
                     6: "penaltyUpdateDistance", 7: "penaltyUpdateBackoff", 8: "exportBlending", 9: "noise", 10: "penalty.cutoffDistance",
                     11: "penalty.cutoffDistanceUpdateFactor", 12: "penalty.areaExponent", 13: "penalty.updateFactor", 14: "penalty.targetBlending",
                     15: "penalty.initialValue", 16: "approximationDistance", 17: "approximationDistanceUpdateFactor",
                     18: "maxNbConjugateGradientSteps", 19: "conjugateGradientErrorTolerance", 20: "roughLegalization.nbSteps", 21: "binSize",
                     22: "lineReoptSize", 23: "lineReoptOverlap", 24: "diagReoptSize", 25: "diagReoptOverlap", 26: "squareReoptSize",
                     27: "squareReoptOverlap", 28: "quadraticPenalty", 29: "roughLegalization.targetBlending", 30: "costModel",
                     31: "unidimensionalTransport", 32: "sideMargin", 33: "coarseningLimit"}
N_PLACEP_Q = 250      # quick tier: PLACE cases with a parameter tail (noise exactly 0 in 60 %, the other global parameters at accepted bounds)


def check_place(lines, impl, stats):
    bad = []
    for l, i in zip(lines, impl):
        t = l.split()
        W = int(t[4]); nrows = int(t[5]); rowh = int(t[6])
        if i.startswith("REJECTED"):
            # the parameter tail is outside what ColoquinteParameters::check() accepts: outside the domain of C17 (counted, never silent)
            stats["place_rejected_parameter_sets"] = stats.get("place_rejected_parameter_sets", 0) + 1
            continue
        if " # W" not in i:
            bad.append((l, "placeGlobal did not return: " + i[:200])); continue
        body, wts = i.split(" # W")
        parts = body.split(" | ")
        if len(parts) != 5:
            bad.append((l, "placeGlobal did not return for every factor: " + i[:200])); continue
        # weights given (circuit order) vs weights read back from the x topology (nets with <= 1 pin are dropped: compare as multisets of the kept ones)
        r = Rd(t[1:]); [r.nx() for _ in range(6)]; nc = r.nx(); cells = [(r.nx(), r.nx(), r.nx(), r.nx()) for _ in range(nc)]
        given = []
        for _ in range(r.nx()):
            npins = r.nx(); w4 = r.nx(); pins = [(r.nx(), r.nx(), r.nx()) for _ in range(npins)]
            mov = [p for p in pins if not cells[p[0]][1]]
            nfixed = len(pins) - len(mov)
            if mov and (len(mov) + (1 if nfixed else 0) >= 2 or nfixed >= 2):
                given.append(Fraction(w4, 4))
        # parameter tail (stream "placep"): accepted values other than the defaults
        par = {}
        if r.p < len(r.t):
            for _ in range(r.nx()):
                pid = r.nx(); par[pid] = Fraction(r.nx(), r.nx())
        # the tolerance clause for the factors 2.5 and 7 is stated for a CG tolerance in [1e-6, 1e-4] and >= 100 iterations (domain of this
        # check): a deliberately unconverged conjugate gradient (<= 2 iterations, stop at a relative residual of 1) or one that cannot reach
        # its threshold in binary32 (1e-8: it runs to the iteration limit) may stop elsewhere; the power-of-two clause is compared always
        loose_cg = par.get(18, 1000) < 100 or (19 in par and not Fraction(1, 1000000) <= par[19] <= Fraction(1, 10000))
        trace = [s.split()[0] for s in parts[0].split(";") if s.strip()]
        pen_steps = max(0, trace.count("TL") - 1 - int(par.get(2, 0)))      # lower-bound steps solved WITH the penalty term
        pst = stats.setdefault("place_stream", {"with_parameter_tail": 0, "noise_exactly_0": 0, "noise_0_with_penalty_steps": 0,
                                                "with_penalty_steps": 0, "penalty_steps_total": 0, "penalty_update_callbacks": 0,
                                                "nondyadic_factors_skipped_unconverged_cg": 0, "parameter_values": {}})
        if par:
            pst["with_parameter_tail"] += 1
            for pid, v in par.items():
                key = "%s=%s" % (PLACE_PARAM_NAMES.get(pid, pid), v)
                pst["parameter_values"][key] = pst["parameter_values"].get(key, 0) + 1
        if par.get(9) == 0:
            pst["noise_exactly_0"] += 1
            pst["noise_0_with_penalty_steps"] += 1 if pen_steps else 0
        pst["with_penalty_steps"] += 1 if pen_steps else 0
        pst["penalty_steps_total"] += pen_steps
        pst["penalty_update_callbacks"] += trace.count("TP")
        for side in wts.split(" / "):
            back = [fr_impl(" ".join(side.split()[k:k + 2])) for k in range(0, len(side.split()), 2)]
            if len(back) == len(given) and back != given:
                bad.append((l, "NetModel::x/yTopology stores net weights %s for a circuit with weights %s" % ([float(x) for x in back], [float(x) for x in given])))
                break
        else:
            for f, p in zip((2, 0.5), parts[1:3]):
                if p != parts[0]:
                    a, c = parts[0].split(";"), p.split(";")
                    j = next((j for j in range(min(len(a), len(c))) if a[j] != c[j]), min(len(a), len(c)))
                    bad.append((l, "placeGlobal differs when all net weights and penalty.initialValue are multiplied by %s: exposed placement #%d is '%s' vs '%s'"
                                % (f, j, a[j][:120] if j < len(a) else "<none>", c[j][:120] if j < len(c) else "<none>")))
                    break
            else:
                span = max(W, nrows * rowh)
                first = [int(v) for v in parts[0].split(";")[0].split()[1:]]
                if loose_cg:
                    pst["nondyadic_factors_skipped_unconverged_cg"] += 1
                for f, p in zip((2.5, 7), [] if loose_cg else parts[3:5]):
                    fk = [int(v) for v in p.split(";")[0].split()[1:]]
                    dmax = max(abs(a - c) for a, c in zip(first, fk))
                    stats["place_max_dev"] = max(stats["place_max_dev"], dmax)
                    if dmax > 1 + 1e-3 * span:
                        bad.append((l, "first lower-bound placement moves by %d (> 1 + 1e-3 * %d) when all weights and penalty.initialValue are multiplied by %s" % (dmax, span, f)))
                        break
        stats["place"] += 1
    return bad


N_PLACECB_Q = 150     # quick tier: PLACECB cases (placeGlobal with a callback that resizes cells / sets net weights / only reads in mid-run)
PLACECB_FACTORS = (4, 0.125)


def check_placecb(lines, impl, stats):
    """PLACECB: the runs at factor 1, 4 and 1/8 (net weights, setNetWeights arguments and penalty.initialValue scaled together) must show the
    same placements at every callback, take the same number of steps and return the same placement, exactly as check_place demands for the
    factors 2 and 1/2 without callback: powers of two, moderate magnitudes (the domain of the binary32 theorems)"""
    bad = []
    pst = stats.setdefault("placecb_stream", {"cases": 0, "rejected_parameter_sets": 0, "actions_fired": {"read_only": 0, "setCellWidth": 0, "setCellHeight": 0, "setNetWeights": 0},
                                              "cases_with_a_resize": 0, "cases_with_penalty_steps_after_a_resize": 0,
                                              "penalty_steps_after_a_resize_total": 0, "cases_no_action_reached": 0, "callbacks_total": 0})
    names = {"A0": "read_only", "A1": "setCellWidth", "A2": "setCellHeight", "A3": "setNetWeights"}
    for l, i in zip(lines, impl):
        pst["cases"] += 1
        if i.startswith("REJECTED"):
            pst["rejected_parameter_sets"] += 1
            continue
        if " # W" not in i:
            bad.append((l, "placeGlobal with a callback did not return: " + i[:200])); continue
        parts = i.split(" # W")[0].split(" | ")
        if len(parts) != 3:
            bad.append((l, "placeGlobal with a callback did not return for every factor: " + i[:200])); continue
        tr = [e.split()[0] for e in parts[0].split(";") if e.strip()]
        pst["callbacks_total"] += sum(1 for e in tr if e in ("TL", "TU", "TP"))
        fired = [e for e in tr if e in names]
        for e in fired:
            pst["actions_fired"][names[e]] += 1
        if not fired:
            pst["cases_no_action_reached"] += 1
        rz = next((k for k, e in enumerate(tr) if e in ("A1", "A2")), None)
        if rz is not None:
            pst["cases_with_a_resize"] += 1
            ub = next((k for k in range(rz, len(tr)) if tr[k] == "TU"), None)      # the size update is consumed at the start of the next runUB
            after = tr[ub:].count("TL") if ub is not None else 0
            pst["penalty_steps_after_a_resize_total"] += after
            pst["cases_with_penalty_steps_after_a_resize"] += 1 if after else 0
        for f, p in zip(PLACECB_FACTORS, parts[1:]):
            if p != parts[0]:
                a, c = parts[0].split(";"), p.split(";")
                j = next((j for j in range(min(len(a), len(c))) if a[j] != c[j]), min(len(a), len(c)))
                bad.append((l, "placeGlobal with a callback that %s in mid-run differs when all net weights and penalty.initialValue are multiplied by %s: "
                               "%d vs %d trace entries; entry #%d is '%s' vs '%s'"
                            % (" / ".join(sorted(set(names[e] for e in fired))) or "only observes", f, len(a), len(c), j,
                               a[j][:120] if j < len(a) else "<none>", c[j][:120] if j < len(c) else "<none>")))
                break
        stats["place"] += 1
    return bad


# ---------------------------------------------------------------- net models built from a CIRCUIT (CASM / CSOLVE lines of harness/quad.cpp)
# The harness builds a Circuit and takes the NetModel from NetModel::xTopology / yTopology (the path Circuit::placeGlobal uses).  What
# that net model must be is restated here from the circuit alone (trusted Python glue, a few lines): ONE ENTRY PER PIN of the circuit --
# a pin of a movable cell gives (cell, offset - placed size / 2), the pins of fixed cells give the extent [min, max] of their positions
# clamped to the placement area (bounding box of the rows) -- and the resulting addNet calls are the ASM / SOLVE line handed to the
# extracted Coq model (Quad.v) and to the oracles (normal equations, least-squares residual).  N orientation (the default) only.
N_CASM_Q, N_CSOLVE_Q = 2000, 600


def qtok(v):
    v = Fraction(v)
    e = v.denominator.bit_length() - 1
    assert v.denominator == 1 << e
    return "%d %d" % (v.numerator, e)


def circ_convert(line, stats=None):
    """CASM / CSOLVE case line -> the ASM / SOLVE line whose addNet calls are what x/yTopology must produce (every pin counted)"""
    t = line.split()
    r = Rd(t[1:])
    head = []
    if t[0] == "CSOLVE":
        head = [str(r.nx()) for _ in range(4)]                    # kind tolN tolE maxit
    axis, mode = r.nx(), r.nx()
    eps = (r.nx(), r.nx())
    W, nrows, rowh, ox, oy, nc = (r.nx() for _ in range(6))
    cells = [tuple(r.nx() for _ in range(5)) for _ in range(nc)]   # w h fixed x y
    amin, amax = (ox, ox + W) if axis == 0 else (oy, oy + nrows * rowh)
    out = [str(mode), str(nc), "%d %d" % eps]
    nets = []
    for _ in range(r.nx()):
        npins = r.nx(); w = (r.nx(), r.nx())
        pins = [(r.nx(), r.nx(), r.nx()) for _ in range(npins)]
        mov, fixed = [], []
        for c, xo, yo in pins:
            cw, chh, fx, x, y = cells[c]
            off, size, base = (xo, cw, x) if axis == 0 else (yo, chh, y)
            if fx:
                fixed.append(base + off)
            else:
                mov.append((c, Fraction(off) - Fraction(size, 2)))
        s = "%d %d %d" % (len(mov), w[0], w[1]) + "".join(" %d %s" % (c, qtok(o)) for c, o in mov)
        if fixed:
            s += " 1 %s %s" % (qtok(max(min(fixed), amin)), qtok(min(max(fixed), amax)))
        else:
            s += " 0"
        nets.append(s)
        if stats is not None:
            st = stats
            st["nets"] = st.get("nets", 0) + 1
            mc = [c for c, _, _ in pins if not cells[c][2]]
            same = len(set(mov)) < len(mov)
            ident = len({p for p in pins if not cells[p[0]][2]}) < len(mc)
            st["nets_with_two_pins_of_one_movable_cell"] = st.get("nets_with_two_pins_of_one_movable_cell", 0) + (len(set(mc)) < len(mc))
            st["nets_with_a_movable_pin_listed_twice"] = st.get("nets_with_a_movable_pin_listed_twice", 0) + ident
            st["nets_with_pins_of_one_cell_coinciding_in_this_axis_only"] = st.get("nets_with_pins_of_one_cell_coinciding_in_this_axis_only", 0) + (same and not ident)
            st["nets_with_pins_of_one_cell_coinciding_in_this_axis"] = st.get("nets_with_pins_of_one_cell_coinciding_in_this_axis", 0) + same
            st["nets_all_on_one_movable_cell"] = st.get("nets_all_on_one_movable_cell", 0) + (not fixed and len(set(mc)) == 1 and len(mc) >= 2)
            st["nets_all_on_one_movable_cell_3plus_pins"] = st.get("nets_all_on_one_movable_cell_3plus_pins", 0) + (not fixed and len(set(mc)) == 1 and len(mc) >= 3)
            st["nets_with_fixed_pins"] = st.get("nets_with_fixed_pins", 0) + bool(fixed)
            st["nets_with_extent_clamped_to_the_area"] = st.get("nets_with_extent_clamped_to_the_area", 0) + bool(fixed and (min(fixed) < amin or max(fixed) > amax))
            if same and mode in (0, 2):
                st["star_nets_whose_pin_count_a_merge_would_change"] = st.get("star_nets_whose_pin_count_a_merge_would_change", 0) + 1
    if stats is not None:
        stats["axis_%s" % "xy"[axis]] = stats.get("axis_%s" % "xy"[axis], 0) + 1
    out.append(str(len(nets)))
    out += nets
    out += t[1 + r.p:]                                            # placement, penalty: verbatim
    return ("SOLVE " + " ".join(head) + " " if head else "ASM ") + " ".join(out)


def circ_note(case, conv):
    return (" [net model built by NetModel::%sTopology from the circuit of the case line (%s); the equivalent addNet calls with EVERY pin of the "
            "circuit counted are the line: %s]" % ("xy"[int(case.split()[5 if case.startswith("CSOLVE") else 1])], case.split()[0], conv[:400]))


def check_circ(ctx, harness, driver, casm, csolve, stats):
    """-> (concrete assembly violations, model/impl differences, solver violations), all reported on the CASM / CSOLVE case lines"""
    cst = stats.setdefault("circuit_stream", {})
    conv = [circ_convert(l, cst) for l in casm]
    impl, model = [], []
    if casm:
        impl, _, _ = common.run_both([harness, "run"], None, casm, chunk=250)
        model, _, _ = common.run_both([driver], None, conv, chunk=250)             # the extracted Coq model on the converted lines
    sub = {"exact": 0, "toleranced": 0, "with_fractional_weight": 0, "nontrivial": set()}
    concrete, diffs = check_asm(ctx, conv, impl, model, sub)
    back = dict(zip(conv, casm))
    concrete = [(back[l], why + circ_note(back[l], l), out) for l, why, out in concrete]
    diffs = [(back[l], d + circ_note(back[l], l), out, f12) for l, d, out, f12 in diffs]
    cst.update({"casm_lines": len(casm), "casm_compared_exactly": sub["exact"], "casm_compared_with_relative_1e-5": sub["toleranced"],
                "casm_by_mode": {k: v for k, v in sub.items() if k.startswith("mode")}})
    sconv = [circ_convert(l, cst) for l in csolve]
    simpl = common.run_both([harness, "run"], None, csolve, chunk=200)[0] if csolve else []
    ssub = {"solve_nondyadic_compared": 0, "solve_max_rel_dev": 0.0}
    sback = dict(zip(sconv, csolve))
    sbad = [(sback[l], why + circ_note(sback[l], l)) for l, why in check_solve(sconv, simpl, ssub, ctx, circ=True)]
    cst.update({"csolve_lines": len(csolve), "csolve_by_kind": {k: v for k, v in ssub.items() if k.startswith("solve_kind")},
                "csolve_least_squares_oracle": ssub.get("least_squares_oracle", {}), "csolve_max_rel_dev": ssub["solve_max_rel_dev"]})
    return concrete, diffs, sbad



def run(ctx):
    proof_ok, proof = common.proof_status(ctx, "C17")
    harness = common.build_harness("quad")
    driver = common.build_driver("quad")
    q = ctx.quick
    seeds = [ctx.seed] if q else [ctx.seed, ctx.seed + 1000, ctx.seed + 2000]
    asm = common.corpus("C17", ("ASM ",))
    solve = common.corpus("C17", ("SOLVE ",))
    place = common.corpus("C17", ("PLACE ",))
    for s in seeds:
        asm += common.harness_gen(harness, ["asm", s, (4000 if q else 60000) // len(seeds)])
        solve += common.harness_gen(harness, ["solve", s, (1500 if q else 30000) // len(seeds)])
        solve += common.harness_gen(harness, ["far", s, (150 if q else 3000) // len(seeds)])       # no fixed pin, targets up to 2^22 away (F30)
        solve += common.harness_gen(harness, ["self", s, (150 if q else 3000) // len(seeds)])      # nets with all pins on one cell, no penalty (F25)
        place += common.harness_gen(harness, ["place", s, (40 if q else 600) // len(seeds)])
        # accepted parameter values other than the defaults: global.noise exactly 0, every checked field at its accepted bounds
        place += common.harness_gen(harness, ["placep", s, (N_PLACEP_Q if q else 3000) // len(seeds)])
        # exact coincidences of pin positions (all pins of a net at one position, two coincident, on a fixed pin, stacked cells), models 1..4
        asm += common.harness_gen(harness, ["coin", s, (N_COIN_Q if q else 30000) // len(seeds)])
        solve += common.harness_gen(harness, ["scoin", s, (N_SCOIN_Q if q else 9000) // len(seeds)])
    stats = {"exact": 0, "toleranced": 0, "with_fractional_weight": 0, "nontrivial": set(), "solve_nondyadic_compared": 0,
             "solve_max_rel_dev": 0.0, "place": 0, "place_max_dev": 0}
    impl, model, _ = common.run_both([harness, "run"], [driver], asm, chunk=250)
    concrete, diffs = check_asm(ctx, asm, impl, model, stats)
    simpl, _, _ = common.run_both([harness, "run"], None, solve, chunk=200)
    sbad = check_solve(solve, simpl, stats, ctx)
    # net models built from a CIRCUIT through x/yTopology: several pins on one movable cell (listed twice, aligned in one axis, all on one cell)
    casm, csolve = common.corpus("C17", ("CASM ",)), common.corpus("C17", ("CSOLVE ",))
    for s in seeds:
        casm += common.harness_gen(harness, ["casm", s, (N_CASM_Q if q else 40000) // len(seeds)])
        csolve += common.harness_gen(harness, ["csolve", s, (N_CSOLVE_Q if q else 12000) // len(seeds)])
    cconcrete, cdiffs, csbad = check_circ(ctx, harness, driver, casm, csolve, stats)
    concrete = cconcrete + concrete
    diffs = cdiffs + diffs
    cst = stats["circuit_stream"]
    if not (cst.get("nets_with_a_movable_pin_listed_twice") and cst.get("nets_with_pins_of_one_cell_coinciding_in_this_axis_only")
            and cst.get("nets_all_on_one_movable_cell_3plus_pins") and cst.get("csolve_least_squares_oracle", {}).get("perturbed_solutions_rejected")):
        ctx.violation("the circuit-built net model stream does not contain the net shapes it is for: %s" % cst,
                      {"broken": "harness/quad.cpp genCirc / checks/c17.py check_circ", "statistics": cst}, found_input=False)

    def is_far(l):                                                   # finding F30 (also finite garbage: the anchors are partly lost)
        t = l.split()
        if t[0] != "SOLVE":
            return False
        r = Rd(t[1:]); r.nx(); r.q(); r.nx()
        return far_unanchored(read_body(r))
    sbad = [(l, why) for l, why in sbad if not (is_far(l) and ctx.known_finding("F30"))]
    sbad = csbad + sbad
    lso = stats.get("least_squares_oracle", {})
    if not lso.get("solutions_checked") or (lso.get("perturbed_solutions_tried") and not lso.get("perturbed_solutions_rejected")):
        # the residual oracle was never evaluated, or it accepts solutions moved by 1 % of the span: it decides nothing
        ctx.violation("the least-squares oracle on the solver output is not effective in this run: %s" % lso,
                      {"broken": "checks/c17.py ls_residual (residual oracle of SOLVE kind 0)", "statistics": lso}, found_input=False)
    pimpl, _, _ = common.run_both([harness, "run"], None, place, chunk=3)
    pbad = check_place(place, pimpl, stats)
    # PLACEAT (finding F30): circuits without fixed cells translated by offsets up to 2^22: the same relations, and no INT_MIN coordinate
    placeat = []
    for s in seeds:
        placeat += common.harness_gen(harness, ["placeat", s, (16 if q else 300) // len(seeds)])
    aimpl, _, _ = common.run_both([harness, "run"], None, placeat, chunk=3)
    stats["placeat"] = len(placeat)
    for l, i in zip(placeat, aimpl):
        if "-2147483648" in i.split(" # W")[0]:
            if ctx.known_finding("F30"):
                continue
            pbad.append((l, "Circuit::placeGlobal exposes the coordinate INT_MIN (a NaN of the continuous solver) for a circuit without fixed cells "
                            "translated by (%s, %s)" % tuple(l.split()[1:3])))
        else:
            pbad += [(l, why) for _, why in check_place(["PLACE " + " ".join(l.split()[3:])], [i], stats)]
    # placeGlobal WITH callbacks that do something legitimate in mid-run (resize cells, set net weights, read): traces at factors 1, 4, 1/8
    placecb = common.corpus("C17", ("PLACECB ",))
    for sd in seeds:
        placecb += common.harness_gen(harness, ["placecb", sd, (N_PLACECB_Q if q else 3000) // len(seeds)])
    cimpl, _, _ = common.run_both([harness, "run"], None, placecb, chunk=3)
    cbad = check_placecb(placecb, cimpl, stats)
    pcs = stats["placecb_stream"]
    if not cbad and pcs["cases_with_penalty_steps_after_a_resize"] * 5 < len(placecb):
        ctx.violation("fewer than a fifth of the PLACECB cases reach a lower-bound step with a penalty after a cell resize made by the callback: %s" % pcs,
                      {"broken": "harness/quad.cpp stream placecb / checks/c17.py check_placecb", "statistics": pcs}, found_input=False)
    fdiffs, fconcrete = [], []
    finfo = float_tie(ctx, harness, 45 if q else 600, fdiffs, fconcrete, ccount=N_FCOIN_Q if q else 400)
    kbad, cginfo = check_solvek(ctx, harness, [l for l in solve if l.startswith("SOLVE ")][:(20 if q else 300)], 6 if q else 12, stats)
    sbad += kbad
    concrete += fconcrete
    diffs += fdiffs

    for l, why, out in concrete[:2]:
        ctx.violation("C17 violated by /repo (matrix assembly): " + why,
                      {"case": l, "format": "see harness/quad.cpp header", "implementation_output": out, "why": why})
    for l, why in sbad[:2]:
        ctx.violation("C17 violated by /repo (continuous solver): " + why, {"case": l, "format": "see harness/quad.cpp header", "why": why})
    for l, why in pbad[:1] + cbad[:1]:
        ctx.violation("C17 violated by /repo (Circuit::placeGlobal): " + why, {"case": l, "format": "see harness/quad.cpp header", "why": why})
    found = bool(concrete or sbad or pbad or cbad)
    if diffs and not found:
        l, d, out, f12 = diffs[0]
        ctx.violation("correspondence Quad.v / QuadFloat.v <-> NetModel/MatrixCreator broken (%d of %d cases differ: %s); no input violating C17 found"
                      % (len(diffs), len(asm) + len(casm) + finfo["cases"], d),
                      {"broken": "correspondence of coq/Quad.v / coq/QuadFloat.v (theorems of Properties_C17.v)",
                       "first_difference": {"case": l, "what": d, "implementation": out}}, found_input=False)
    if not proof_ok and not found:
        ctx.violation("proof obligations of Properties_C17.v do not check", {"broken": "Properties_C17.v", "detail": proof}, found_input=False)
    nf12 = sum(1 for d in diffs if d[3])
    cov = dict(proof)
    nontriv = stats.pop("nontrivial")
    collapsed = stats.pop("collapsed", set())
    stats.get("solve_stream", {}).pop("collapsed", None)
    cov.update({"trusted_base": common.TRUSTED_BASE + [
                    "Eigen's conjugate gradient and all single-precision arithmetic are not modelled: the solver clauses (bitwise invariance under 2^k, "
                    "tolerance under 2.5 and 7) are VALIDATED by the runs of this check, not proved",
                    "Quad.v models floats by exact rationals (exact comparison only when the C++ assembly raised no FE_INEXACT); QuadFloat.v models "
                    "them by Flocq binary32 and is compared bit for bit (FASM stream); Flocq and the standard library's axioms of the real numbers "
                    "(sig_forall_dec, sig_not_dec, functional_extensionality_dep, classic) are trusted by the c17_float_* theorems",
                    "compiler: " + FLOAT_FLAGS],
                "binary32_tie": finfo, "cg_scale_window_measured": cginfo,
                "evaluations": len(asm) + len(solve) + len(place) + len(placecb) + len(casm) + len(csolve),
                "distinct_nontrivial": len(nontriv),
                "rule": "ASM case lines (distinct) with at least one net joining two different cells/fixed pins; all seven assembly entry points "
                        "(createStar(topo), B2B, Star, Clique, LightStar with placement, addBipoint, addClique), with and without addPenalty. "
                        "EXACT coincidences (binary32 pin positions pl[c] + offset equal bit for bit; measured per net model in distribution."
                        "coincidences and binary32_tie.coincidences): all pins of a net of >= 3 pins / of 2 pins at one position, with and without a "
                        "fixed pin; some pins coincident (with a fixed pin or movable only; tie at the min/max pin); distances below and exactly at "
                        "epsilon; penalty target at the placement.  On these the entries are fixed by the floor net weight / max(epsilon, distance) "
                        "of Quad.v (over Q) and QuadFloat.v (Flocq binary32): compared exactly / within 1e-5 (ASM) and bit for bit (FASM); an "
                        "infinite or NaN entry of the C++ system where the model is finite, and a non-finite solver coordinate, are violations "
                        "with the case line.  PLACE (Circuit::placeGlobal, distribution.place_stream): the stream 'placep' carries a parameter "
                        "tail with ACCEPTED non-default values (ColoquinteParameters::check() is called first; rejected sets are counted, "
                        "never silent): global.noise exactly 0 in 60 % (else 2, 1/1024, 1), and every field check() constrains "
                        "(nbInitialSteps, nbStepsBeforeRoughLegalization, gap/distance tolerance 0, penaltyUpdateDistance/Backoff, "
                        "exportBlending -0.5..1.5, penalty cutoff 1e-6..1000 / update factors 0.8, 1.2 / areaExponent 0.49, 1.01 / "
                        "updateFactor 1+2^-20, 2-2^-20 / targetBlending 0.1f, 1.1f / initialValue 2^-10..4, approximationDistance 1e-6..1000, "
                        "CG steps 1, 2 / tolerance 1e-8, 1, roughLegalization nbSteps 0, binSize 1, 25, reopt sizes 1..64, quadraticPenalty 0, 1, "
                        "targetBlending -0.1, 0.9f, all cost models, effort 1..9, maxNbSteps 1..24) at the ends of its accepted interval with "
                        "probability 25 % each; cases with lower-bound steps solved WITH the penalty term are counted (with_penalty_steps, "
                        "noise_0_with_penalty_steps); for 2 and 1/2 every exposed placement (tagged by step kind) and the result are "
                        "compared exactly, for 2.5 and 7 the first lower bound (skipped when the CG settings are outside [1e-6, 1e-4] / "
                        ">= 100 iterations).  PLACECB (distribution.placecb_stream): the circuits and parameter tails of 'placep' (>= 4 steps, "
                        "gap / distance tolerance 0 in 75 %) with 1..3 actions of the callback at callbacks 0..9: Circuit::setCellWidth (45 %: 35 % of the "
                        "movable cells by -2..+3), setCellHeight (20 %: one <-> two row heights), setNetWeights (15 %: new weights times the factor) -- the "
                        "setters Circuit::checkNotInUse does not refuse during a run -- or reads only (20 %); the traces (every exposed placement, the "
                        "sizes set, the number of steps) and the result at the factors 4 and 1/8 must equal those at factor 1 exactly; measured: actions "
                        "fired by kind, cases with lower-bound steps solved with a penalty AFTER a resize (a run fails when under a fifth of the cases).  "
                        "NET MODELS BUILT FROM A CIRCUIT (distribution.circuit_stream; CASM / CSOLVE lines): a Circuit of 2..8 cells (a quarter fixed, "
                        "widths 1..9, one or two row heights, N orientation) and 1..5 nets goes through NetModel::xTopology or yTopology -- the path "
                        "placeGlobal uses -- and the net model is assembled by createStar(topo), B2B, Star, Clique, LightStar (with / without addPenalty) "
                        "or solved (solveStar(params) 45 %, solve, solveWithPenalty, solveStar(pl), solveB2B, solve(solveStar)).  Net shapes: a pin of a "
                        "movable cell listed twice; two or three pins of one cell with equal x offset and different y (they coincide in the x model only); "
                        "equal y and different x; three to five pins of one cell mixing identical / aligned / distinct ones; ALL pins on one movable cell "
                        "(finding F25); ordinary nets on distinct cells; duplicated / aligned pins on a FIXED cell (merged into the clamped extent); pin "
                        "order shuffled in half.  The addNet calls the topology must make (ONE ENTRY PER PIN of the circuit; restated from the circuit in "
                        "checks/c17.py circ_convert) are given to the extracted model of Quad.v: the C++ system is compared with it exactly / within 1e-5 "
                        "like an ASM line, the normal-equation oracle (createStar) and the least-squares residual oracle (solveStar output) use the same "
                        "pin lists; a run fails when a shape is absent from the stream",
                "asm_cases_with_all_pins_of_a_3plus_pin_net_coincident": len(collapsed),
                "samples": [asm[0][:300], asm[len(asm) // 2][:300], solve[0][:300], place[0][:300], casm[0][:300], casm[len(casm) // 2][:300], csolve[0][:300]],
                "distribution": stats,
                "circuit_built_asm_cases": len(casm), "circuit_built_solve_cases": len(csolve),
                "asm_cases": len(asm), "solve_cases": len(solve), "place_cases": len(place), "placecb_cases": len(placecb),
                "compared_exactly": stats["exact"], "compared_with_relative_1e-5": stats["toleranced"],
                "model_vs_impl_differences": len(diffs), "differences_explained_by_truncating_model_F12": nf12,
                "impl_outputs_violating_statement": len(concrete) + len(sbad) + len(pbad) + len(cbad)})
    return ctx.finish(LEVEL, cov, [
        "domain: finite float inputs of moderate size (|coordinates| <= 100, weights in [1/32, 12], approximation and cutoff distances >= 0.1, "
        "CG tolerance in [1e-6, 1e-4]); no overflow/underflow; pin positions may coincide exactly (distance 0: the epsilon floor decides the entry)",
        "solver invariance is validated on %d SOLVE and %d PLACE cases (bitwise for 2^k; %g of the span for 2.5 and 7 on anchored systems; "
        "placeGlobal: only the first lower-bound placement is compared for non-dyadic factors, later steps take discrete decisions)" % (len(solve), len(place), SOLVE_TOL),
        "callbacks in mid-run (%d PLACECB cases): only the setters the in-use guard accepts during a run (setCellWidth, setCellHeight, setNetWeights) and reads; "
        "sizes stay >= 1 with the movable area under 85 %% of the free row area; factors 4 and 1/8 only (exact clause); setNetWeights has no effect on a running "
        "global placement in the present code (GlobalPlacer::updateNets is never called): the case class guards the day it has" % len(placecb),
        "power-of-two clause: PROVED for the assembly in binary32 under the side condition fs_ok (no overflow, no rounded intermediate at or below "
        "2^-126) in both runs; for the conjugate gradient (not modelled) it is VALIDATED by the SOLVE/PLACE runs (factors 2^-24 .. 2^10) and by the "
        "SOLVEK runs for k over the whole window in which fs_ok holds in both runs (cg_scale_window_measured); finding F22 (FIXED on /repo main by 7251876, "
        "MatrixCreator::normalize()): before the repair Eigen's absolute threshold FLT_MIN and its binary32 squared norms limited the exactness "
        "of the solve to about -44 <= k <= 52; a tree without the normalisation is reported as a violation",
        "only the SCALING clause is validated on solver / placer output: there is no residual or least-squares-optimum oracle on what solveStar / solve / solveWithPenalty / placeGlobal return "
        "(normal_equations checks the assembled system at one point); a scale-covariant but wrong solver would pass the SOLVE / SOLVEK / PLACE checks",
        "model tied to the code by comparison on the cases of this run"])


def replay(ctx, path):
    r = json.load(open(path))["replay"]
    case = r.get("case") or r["first_difference"]["case"]
    harness = common.build_harness("quad")
    driver = common.build_driver("quad")
    tag = case.split()[0]
    stats = {"exact": 0, "toleranced": 0, "with_fractional_weight": 0, "nontrivial": set(), "solve_nondyadic_compared": 0,
             "solve_max_rel_dev": 0.0, "place": 0, "place_max_dev": 0}
    print("case :", case)
    if tag == "ASM":
        impl, model, _ = common.run_both([harness, "run"], [driver], [case])
        print("impl :", impl[0][:2000])
        concrete, diffs = check_asm(ctx, [case], impl, model, stats)
        for _, why, _ in concrete:
            print("violation:", why)
        for _, d, _, f12 in diffs:
            print("model/impl difference:", d, "(C++ equals the truncating model: F12)" if f12 else "")
        return 1 if concrete or diffs else 0
    if tag in ("CASM", "CSOLVE"):
        cc, cd, cs = check_circ(ctx, harness, driver, [case] if tag == "CASM" else [], [case] if tag == "CSOLVE" else [], stats)
        print("equivalent addNet calls (every pin counted):", circ_convert(case)[:1500])
        for x in cc:
            print("violation:", x[1])
        for x in cs:
            print("violation:", x[1])
        for x in cd:
            print("model/impl difference:", x[1])
        return 1 if cc or cd or cs else 0
    if tag == "FASM":
        fdiffs, fconcrete = [], []
        info = float_tie(ctx, harness, 0, fdiffs, fconcrete, only=[case])
        print("binary32 tie:", {k: v for k, v in info.items() if k not in ("flags", "samples")})
        for _, why, _ in fconcrete:
            print("violation:", why)
        for _, d, _, _ in fdiffs:
            print("model/impl difference:", d)
        return 1 if fconcrete or fdiffs else 0
    if tag == "PLACEAT":
        impl, _, _ = common.run_both([harness, "run"], None, [case])
        print("impl :", impl[0][:2000])
        bad = ["INT_MIN coordinate exposed"] if "-2147483648" in impl[0].split(" # W")[0] else [w for _, w in check_place(["PLACE " + " ".join(case.split()[3:])], impl, stats)]
        for why in bad:
            print("violation:", why)
        return 1 if bad else 0
    if tag == "SOLVEK":
        bad, info = check_solvek(ctx, harness, [], 1, stats, only=[case])
        print("SOLVEK:", {k: v for k, v in info.items() if k != "note"})
        for _, why in bad:
            print("violation:", why)
        return 1 if bad else 0
    impl, _, _ = common.run_both([harness, "run"], None, [case])
    print("impl :", impl[0][:2000])
    bad = check_solve([case], impl, stats) if tag == "SOLVE" else check_placecb([case], impl, stats) if tag == "PLACECB" else check_place([case], impl, stats)
    for _, why in bad:
        print("violation:", why)
    return 1 if bad else 0
