"""C18, floating-point tie: the compiled Circuit::expandCellsToDensity / expandCellsByFactor / computeCellExpansion /
computeRowPlacementArea against the Flocq binary64/binary32 model coq/ExpandFloat.v evaluated INSIDE Coq by vm_compute
(common.vm_eval), integer for integer (row area, widths) and bit for bit (returned double, float factors), on
NON-dyadic arguments (decimal targets, margins, caps, factors, congestion values; circuits scaled by odd numbers) --
the cases the exact model of Expand.v can only compare with a tolerance.  <= 100 cases per run.

Doubles are passed to the harness as `num den` with den = 2^k <= 2^62 and |num| < 2^53 (exact), to Coq as
`d_of_me num (-k)` / `f_of_me num (-k)` (exact as well)."""
import re
import struct
from fractions import Fraction as F

from tools import common

IMPORTS = ("From Coq Require Import List ZArith. From Flocq Require Import Core BinarySingleNaN. Import ListNotations. "
           "Require Import CV.Orient CV.FreeSpace CV.Expand CV.SpreadFloat CV.ExpandFloat. Local Open Scope Z_scope.")


def d64(x):
    """nearest double of x as an exact Fraction"""
    return F(float(x))


def d32(x):
    return F(struct.unpack("f", struct.pack("f", float(x)))[0])


def me(q):
    """exact (m, e) with q = m * 2^e for a dyadic rational"""
    q = F(q)
    k = q.denominator.bit_length() - 1
    assert q.denominator == 1 << k and k <= 62 and abs(q.numerator) < (1 << 53), q
    return q.numerator, -k


def gdouble(q):
    return "(d_of_me (%d) (%d))" % me(q)


def gfloat(q):
    return "(f_of_me (%d) (%d))" % me(q)


def gen_cases(c18, seed, n_ed, n_ef, n_ce):
    """c18 = the module checks/c18.py (circuit generators, line format)"""
    import hashlib
    g = common.Rng(int(hashlib.sha256(("C18-float-%d" % seed).encode()).hexdigest()[:15], 16))
    dec = lambda lo, hi: d64(F(g.uni(lo, hi), 1000))
    lines = []
    for _ in range(n_ed):
        wide = g.coin(25)
        hr, rows, cells = c18.gen_wide(g) if wide else c18.gen_circuit(g)
        if g.coin(70) and not wide:
            rows, cells = c18.scale_circuit(rows, cells, g.choice([3, 7, 13, 37, 101, 1009, 10007, 65537]))
        m = g.choice([F(0), F(0), dec(10, 900), d64(F(1, 3)), d64(F(11, 10))])
        ra, _, _ = c18.row_area(c18.free_rows(rows, cells), m)
        ca = c18.movable_area(cells)
        if ca > 0 and ra > 0 and g.coin(70):
            t = d64(F(ca, ra) * (1 + F(g.uni(1, 3000), 1000)))
            if t >= 1:
                t = d64(F(ca, ra) * (1 + F(g.uni(1, 99), 1000)))
            if t >= 1 or t < F(1, 256):
                t = dec(50, 990)
        else:
            t = dec(50, 990)
        mew = g.choice([F(1), F(1), dec(50, 2000), d64(F(3, 10)), d64(F(7, 10))])
        lines.append("ED %s %s %s %s" % (c18.tok(t), c18.tok(m), c18.tok(mew), c18.case_circuit(rows, cells)))
    for _ in range(n_ef):
        wide = g.coin(25)
        hr, rows, cells = c18.gen_wide(g) if wide else c18.gen_circuit(g)
        if g.coin(70) and not wide:
            rows, cells = c18.scale_circuit(rows, cells, g.choice([3, 7, 13, 37, 101, 1009, 10007]))
        m = g.choice([F(0), F(0), dec(10, 900), d64(F(1, 3))])
        es = [F(1) if g.coin(25) else d32(1 + F(g.uni(1, 3000), 1000)) for _ in cells]
        if g.coin(4) and es:
            es[g.uni(0, len(es) - 1)] = g.choice([d32(F(9989, 10000)), d32(F(9991, 10000))])   # around 0.999f
        o = c18.oracle_ef(es, F(1), m, rows, cells)
        maxd = F(1)
        if not o["throw"] and o["ca"] > 0 and o["ra"] > 0:
            d, ed = F(o["ca"], o["ra"]), F(o["ea"], o["ra"])
            k = g.uni(0, 9)
            if k <= 5 and ed > d:
                maxd = d + F(g.uni(1, 999), 1000) * (ed - d)
            elif k == 6:
                maxd = dec(100, 1500)
        maxd = d64(maxd)
        if maxd < F(1, 256):
            maxd = F(1)
        lines.append("EF %s %s %s %d %s" % (c18.tok(maxd), c18.tok(m), c18.case_circuit(rows, cells), len(es),
                                             " ".join(c18.tok(e) for e in es)))
    for _ in range(n_ce):
        hr, rows, cells = c18.gen_circuit(g)
        xs = [c[0] for c in cells] + [c[0] + max(c[2], c[3]) for c in cells] + [0, 40]
        ys = [c[1] for c in cells] + [c[1] + max(c[2], c[3]) for c in cells] + [0, 40]
        lox, hix, loy, hiy = min(xs) - 3, max(xs) + 3, min(ys) - 3, max(ys) + 3
        regs = []
        for _ in range(g.uni(0, 6)):
            a, b = sorted((g.uni(lox, hix), g.uni(lox, hix)))
            cc, dd = sorted((g.uni(loy, hiy), g.uni(loy, hiy)))
            cg = g.choice([d32(F(g.uni(500, 2500), 1000)), d32(1 + F(1, 2 ** 23)), F(1), d32(F(g.uni(990, 1010), 1000))])
            regs.append(((a, b, cc, dd), cg))
        fp = g.choice([F(0), d32(F(g.uni(0, 1000), 1000)), d32(F(1, 10))])
        pf = g.choice([F(1), d32(1 + F(g.uni(0, 2000), 1000)), d32(F(13, 10))])
        if g.coin(4):
            fp, pf = g.choice([(d32(F(-1, 1000)), pf), (fp, d32(F(999, 1000)))])
        lines.append("CE %s %s %s %d %s" % (c18.tok(fp), c18.tok(pf), c18.case_circuit(rows, cells), len(regs),
                                             " ".join("%d %d %d %d %s" % (r + (c18.tok(cg),)) for r, cg in regs)))
    return lines


def gallina(c18, line):
    tag, par, rows, cells, extra = c18.parse_case(line)
    circ = c18.gcirc(rows, cells)
    if tag == "ED":
        t, m, mew = (gdouble(x) for x in par)
        return ("(row_placement_area_f %s %s, match expand_to_density_f_br %s %s %s %s with "
                "Some (c', _) => Some (map e_w (e_cells c')) | None => None end)" % (m, circ, t, m, mew, circ))
    if tag == "EF":
        maxd, m = (gdouble(x) for x in par)
        return ("(row_placement_area_f %s %s, match expand_by_factor_f_br [%s] %s %s %s with "
                "Some (c', r, _) => Some (map e_w (e_cells c'), B2SF r) | None => None end)"
                % (m, circ, "; ".join(gfloat(e) for e in extra), maxd, m, circ))
    fp, pf = (gfloat(x) for x in par)
    regs = "; ".join("({| minX := (%d); maxX := (%d); minY := (%d); maxY := (%d) |}, %s)" % (r + (gfloat(cg),))
                     for r, cg in extra)
    return ("match compute_expansion_f [%s] %s %s %s with Some l => Some (map B2SF l) | None => None end"
            % (regs, fp, pf, circ))


SF = re.compile(r"S754_(zero|infinity|nan|finite)(?:\s+(true|false))?(?:\s+(\d+)\s+\(?(-?\d+)\)?)?")


def sf_values(s):
    """the spec floats printed in s as exact values: Fraction, or ('zero'|'inf'|'nan', sign)"""
    out = []
    for kind, sign, m, e in SF.findall(s):
        neg = sign == "true"
        if kind == "finite":
            v = F(int(m)) * (F(2) ** int(e))
            out.append(-v if neg else v)
        else:
            out.append((kind, neg))
    return out


def hex_value(tok):
    import math
    x = float.fromhex(tok)
    if x == 0:
        return ("zero", math.copysign(1.0, x) < 0)
    if math.isinf(x):
        return ("infinity", x < 0)
    if math.isnan(x):
        return ("nan", False)
    return F(x)


def compare(line, impl, res):
    """None when the harness line equals the vm_compute normal form `res`, otherwise a description"""
    tag = line[:2]
    if impl.startswith(("SIG", "TIMEOUT", "SKIPPED", "?")):
        return "harness: " + impl[:80]
    if tag == "CE":
        if impl.startswith("THROW"):
            return None if res.strip() == "None" else "C++ throws, model returns " + res[:120]
        if res.strip() == "None":
            return "model throws, C++ returns " + impl[:120]
        got = [hex_value(t) for t in impl.split("#")[0].split()]
        want = sf_values(res)
        return None if got == want else "factors differ bit for bit: C++ %s, model %s" % (impl.split("#")[0].strip()[:200], res[:200])
    m = re.match(r"\(\s*(-?\d+)\s*,\s*(.*)\)\s*$", res, re.S)
    if not m:
        return "cannot parse the model result " + res[:120]
    ra_model, rest = int(m.group(1)), m.group(2).strip()
    if impl.startswith("THROW"):
        return None if rest == "None" else "C++ throws, model returns " + rest[:120]
    if rest == "None":
        return "model throws / runs out of fuel, C++ returns " + impl[:120]
    parts = [p.strip() for p in impl.split("#")[0].split("|")]
    ra_impl = int(parts[0].split()[0])
    if ra_impl != ra_model:
        return "computeRowPlacementArea: C++ %d, model %d" % (ra_impl, ra_model)
    widths = [int(x) for x in parts[1].split()]
    lm = re.search(r"\[(.*?)\]", rest, re.S)
    wm = [int(x) for x in re.findall(r"-?\d+", lm.group(1))] if lm else None
    if wm != widths:
        return "widths differ: C++ %s, model %s" % (widths, wm)
    if tag == "EF":
        got = hex_value(parts[2])
        want = sf_values(rest[lm.end():])
        if want != [got]:
            return "returned double differs bit for bit: C++ %s, model %s" % (parts[2], rest[lm.end():][:80])
    return None


def float_tie(ctx, c18, harness, counts=(36, 36, 24), extra_lines=()):
    """returns (info dict, list of (what, line, impl, model))"""
    lines = list(extra_lines) + gen_cases(c18, ctx.seed + 1818, *counts)
    lines = [l for l in lines if len(l) < 1500][:100]
    impl, _, _ = common.run_both([harness, "run"], None, lines)
    res = common.vm_eval("C18f", IMPORTS, [gallina(c18, l) for l in lines], timeout=900)
    info = {"cases": len(lines), "kinds": {k: sum(1 for l in lines if l[:2] == k) for k in ("ED", "EF", "CE")},
            "compared": "row area and widths integer for integer; returned double and float factors bit for bit; throws",
            "flags": "library and harness built with g++ -std=gnu++17 -O1 for x86-64 (SSE2 scalar arithmetic, FLT_EVAL_METHOD 0, "
                     "no -ffast-math, no -mfma: no contraction): one C++ operator = one IEEE-754 operation, round to nearest even",
            "expanding": 0, "differences": 0}
    if res is None:
        return info, [("vm_compute evaluation of the floating-point model ExpandFloat.v failed", "-", "", "")]
    bad = []
    for l, i, r in zip(lines, impl, res):
        d = compare(l, i, r)
        if d:
            bad.append((d, l, i, r))
        elif l[:2] != "CE" and not i.startswith("THROW"):
            tag, par, rows, cells, _ = c18.parse_case(l)
            w = [int(x) for x in i.split("#")[0].split("|")[1].split()]
            if w != [c[2] for c in cells]:
                info["expanding"] += 1
    info["differences"] = len(bad)
    return info, bad
