"""C06 -- global placement stays inside the placement area and exports the blend.
Proof: coq/Properties_C06.v over coq/Spread.v (exact rationals): spreading inside the bin, bin limits inside the
rows' bounding box, export = blend up to the rounding of std::round, frame of the export.
Tie (harness/global.cpp, ocaml/driver_global.ml):
  GP  Circuit::placeGlobal with a recording callback over the property's domain: the statement itself is evaluated
      on every exposed placement (centres inside the rows' bounding box, coordinates finite, no error); a replica of
      GlobalPlacer::place with access to the private state supplies the final LB/UB binary32 vectors, the grid limits
      and the final bins: model export on them == returned integers (+-1 and a rigorous rounding bound), model grid
      limits == C++ limits, model spreading == C++ spreadCoordX/Y on the final bins (rigorous tolerance).
      Independently of the replica, the returned integers are compared with the blend of the last lower-bound and the last
      upper-bound placements that the callbacks of Circuit::placeGlobal EXPOSED (cmp_exposed: derived tolerance
      1/2 + (|1-w|+|w|)/2 + binary32 error), so that internal state drifting away from what was exposed is a violation.
      A second stream ("gen gpc") has EXACT coincidences (floating groups with centred pins, nets whose pins all
      coincide, stacked twins, no fixed pin at all) for all four net models; the run is stopped at the first
      overflowed / non-finite exposed coordinate, which is a violation with the circuit.
      A third stream ("gen gpn") has circuits WITHOUT free capacity (every row covered by fixed obstructions: finding F28);
      they are judged and tied like the others: the model (Spread.circuit_grid_area) follows the repaired code, which gives
      such a circuit the grid of the rows' bounding box with zero capacity.
      A stream ("gen gpq", case tag GQ) has LEGITIMATE CALLBACKS IN THE MIDDLE OF A RUN: at 1-3 given callback numbers the callback of
      Circuit::placeGlobal resizes movable cells of positive area (setCellWidth / setCellHeight: unguarded setters, the supported way of
      inflation; never to or from a zero area; fixed cells untouched), 80 % of the circuits with a fixed cell of non-zero area.  Judged by the
      statement for the sizes OF THE MOMENT: completes without error, every exposed upper-bound centre inside the rows' bounding box with the
      placed size the export used (half a unit for an odd one), finite coordinates, frame; the exposed-blend comparison is made on the centres
      (each exposed corner with the size of its moment); the replica fires the same actions, so that the model ties stay on (export with the
      sizes at return, spreading with the demands of the moment).
  GR  DensityGrid::fromIspdCircuit alone: margin clipping + bin limits, exact.
  SP  spreadCoordX/Y on dyadic inputs (every binary32 operation exact): exact equality with the model.
  SF  spreadCoordX/Y on NON-dyadic inputs against the Flocq binary32 model coq/SpreadFloat.v evaluated inside Coq by
      vm_compute: bit-for-bit equality (float_tie, <= 100 cases per run), and the circuit of finding F21 through
      Circuit::placeGlobal (f21_replay).
Completion, finiteness and the binary32 rounding of blendPlacement / the solver are validated by these runs only
(not provable: Eigen CG); the binary32 arithmetic of spreadCells is modelled and analysed (Properties_C06.v, last section)."""
import json
from fractions import Fraction

from tools import common

LEVEL = "proof"
U = Fraction(1, 1 << 24)          # unit roundoff of binary32


def fr(m, e):
    return Fraction(m) * (Fraction(2) ** e)


def floats(tokens):
    """'m e m e ...' -> list of Fractions (None for a non-finite value)"""
    out = []
    for i in range(0, len(tokens) - 1, 2):
        if tokens[i] == "nan":
            out.append(None)
        else:
            out.append(fr(int(tokens[i]), int(tokens[i + 1])))
    return out


def binfrac(s):
    n, d = s.split("/")
    neg = n.startswith("-")
    v = Fraction(int(n.lstrip("-"), 2), int(d, 2))
    return -v if neg else v


def f32(x):
    """the binary32 value nearest to the double x, as an exact Fraction ((float)x of the C++)"""
    import struct
    return Fraction(struct.unpack("<f", struct.pack("<f", x))[0])


def gp_body(line):
    """a "GQ nact (cb kind seed)*nact <payload>" line (stream gpq: the callback resizes cells in mid-run) as the GP line of its payload"""
    if not line.startswith("GQ "):
        return line
    t = line.split()
    return "GP " + " ".join(t[2 + 3 * int(t[1]):])


def gq_actions(line):
    """[(callback number, kind, seed)] of a GQ line"""
    t = line.split()
    return [(int(t[2 + 3 * i]), int(t[3 + 3 * i]), int(t[4 + 3 * i])) for i in range(int(t[1]))] if line.startswith("GQ ") else []


def gp_cells(line):
    """the cells [x, y, w, h, orient, polarity, fixed, obstruction] of a GP / GQ case line"""
    t = gp_body(line).split()
    p = 2 + 5 * int(t[1])
    return [[int(x) for x in t[p + 1 + 8 * i: p + 9 + 8 * i]] for i in range(int(t[p]))]


def gp_params(line):
    """the parameter tokens of a GP case line (18, or 21 with the optional rough-legalization knobs), by walking the circuit"""
    t = gp_body(line).split()
    p = 1
    p += 1 + 5 * int(t[p])
    p += 1 + 8 * int(t[p])
    nn = int(t[p])
    p += 1
    for _ in range(nn):
        p += 2 + 3 * int(t[p])
    return t[p:]


def gp_fixed(line):
    """the fixed flag of every cell of a GP / GQ case line"""
    t = gp_body(line).split()
    p = 2 + 5 * int(t[1])
    return [t[p + 1 + 8 * i + 6] != "0" for i in range(int(t[p]))]


def run_driver(driver, cases, timeout=3000):
    """the extracted model on its case lines, in parallel chunks, resilient to a dying process"""
    if not cases:
        return []
    res, _, _ = common.run_both([driver], None, cases, timeout=timeout, chunk=1500)
    return res


def parse_sc(case):
    """SC alo ahi n nbins (lo hi k cells..)* demand*n (m e)*n -> bins [(lo,hi,[cells])], demand list"""
    t = case.split()
    n, nb = int(t[3]), int(t[4])
    p = 5
    bins = []
    for _ in range(nb):
        lo, hi, k = int(t[p]), int(t[p + 1]), int(t[p + 2])
        bins.append((lo, hi, [int(x) for x in t[p + 3:p + 3 + k]]))
        p += 3 + k
    dem = [int(x) for x in t[p:p + n]]
    return n, bins, dem


class Eval:
    """runs case lines through the harness and the model and classifies what it sees"""

    def __init__(self, harness, driver):
        self.harness, self.driver = harness, driver
        self.violations = []       # (kind, case, detail)  concrete input violating the statement of C06
        self.differences = []      # (what, case, detail)  model and code differ / replica differs
        self.stats = {"GP": 0, "GR": 0, "SP": 0, "skipped_outside_domain": 0, "gp_callbacks": 0, "gp_ub_exposures": 0,
                      "gp_lb_exposures": 0, "gp_penalty_update_exposures": 0, "gp_zero_area_circuits": 0, "gp_with_fixed": 0,
                      "half_unit_excursions_positive_area": 0, "half_unit_excursions_zero_area": 0, "gp_no_capacity_runs_judged": 0,
                      "final_ub_outside_closed_bin_interval": 0, "final_ub_cells_in_bins": 0,
                      "export_cells_compared": 0, "export_exact_equal": 0, "export_off_by_one": 0,
                      "grid_limit_lists_compared": 0, "spread_coordinates_compared_exact": 0,
                      "spread_coordinates_compared_tolerance": 0, "spread_equals_unrepaired_model_only": 0,
                      "margin0_runs": 0, "exposed_blend_coordinates_compared": 0,
                      "exposed_blend_worst_deviation_over_tolerance_permille": 0, "coincidence_stream_runs": 0}
        self.dist = {"net_model": {}, "cost_model": {}, "effort": {}, "cells": {}, "ub_exposures": {}, "rough_target_blending": {},
                     "rough_quadratic_penalty": {}, "rough_coarsening_limit": {}, "coincidence_stream_net_model": {}}
        self.nontrivial = set()
        self.coinc = set()         # case lines of the exact-coincidence stream ("gen gpc")

    @staticmethod
    def bucket(d, k):
        d[k] = d.get(k, 0) + 1

    @staticmethod
    def is_nocap(s):
        """the harness marks a circuit without free capacity (total bin capacity <= 0) on the replica field: 'OK <same> NOCAP <cap>'
        (or 'THROW NOCAP <cap> ...')"""
        return len(s) >= 6 and "NOCAP" in s[5].split()[:3]

    def run(self, lines, timeout=3000):
        # the placement runs are slow (ms..s each): spread them over all cores; the other kinds are cheap
        slow = [i for i, l in enumerate(lines) if l.startswith(("GP ", "GQ "))]
        fast = [i for i, l in enumerate(lines) if not l.startswith(("GP ", "GQ "))]
        impl = [None] * len(lines)
        for idxs, chunk in ((slow, 2), (fast, 300)):
            if idxs:
                # round-robin so that the expensive cases of one generator stretch do not end up in one chunk
                order = sorted(idxs, key=lambda i: (i % common.NCPU, i)) if chunk == 2 else idxs
                res, _, _ = common.run_both([self.harness, "run"], None, [lines[i] for i in order], timeout=timeout, chunk=chunk)
                for i, r in zip(order, res):
                    impl[i] = r
        model_cases, back = [], []     # back[i] = (kind, line index, payload)
        parsed = {}
        for idx, (l, r) in enumerate(zip(lines, impl)):
            tag = l[:2]
            self.stats[tag] = self.stats.get(tag, 0) + 1
            if r.startswith("SKIP"):
                self.stats["skipped_outside_domain"] += 1
                # by reason (all three are outside the quantifier: a row narrower than four row-heights; no movable cell of positive
                # area; bin size * standard-cell height < 1 = parameter box). "no capacity" is NOT a reason any more: those runs are judged
                why = ("parameters rejected by the parameter check" if "params rejected" in r else
                       "+".join(k for k, t in (("row narrower than 4 row-heights", "narrow=1"), ("no movable cell of positive area", "posCell=0"),
                                               ("bin size below one unit", "maxSize=0")) if t in r) or r[:60])
                self.bucket(self.stats.setdefault("skipped_by_reason", {}), why)
                continue
            if tag == "SP":
                s = [x.strip() for x in r.split(" | ")]
                if len(s) != 4 or not s[0].startswith("SC "):
                    self.differences.append(("spreadCoord harness run failed", l, r[:300]))
                    continue
                for d, (case, res) in enumerate(((s[0], s[2]), (s[1], s[3]))):
                    back.append(("SPx", idx, (case, floats(res.split()))))
                    model_cases.append(case)
            elif tag == "GR":
                s = [x.strip() for x in r.split(" | ")]
                if len(s) != 3 or not s[0].startswith("GL "):
                    self.differences.append(("DensityGrid::fromIspdCircuit harness run failed", l, r[:300]))
                    continue
                back.append(("GL", idx, (s[0], s[1], int(s[2]))))
                model_cases.append(s[0])
            elif tag in ("GP", "GQ"):
                self.gp(idx, l, r, model_cases, back)
        mres = run_driver(self.driver, model_cases, timeout)
        for (kind, idx, payload), m in zip(back, mres):
            l = lines[idx]
            if kind == "SPx":
                self.cmp_spread(l, payload[0], payload[1], m, exact=True)
            elif kind == "SCr":
                self.cmp_spread(l, payload[0], payload[1], m, exact=False)
            elif kind == "GL":
                self.cmp_grid(l, payload, m)
            elif kind == "EX":
                self.cmp_export(l, payload, m)
        return impl

    # ------------------------------------------------------------ global placement runs
    def gp(self, idx, l, r, model_cases, back):
        s = [x.strip() for x in r.split(" | ")]
        if not s[0].startswith("GP "):
            self.violations.append(("global placement did not complete (crash/abort/timeout)", l, r[:300]))
            return
        status = s[0][3:]
        gq = l.startswith("GQ ")
        cnt = [int(x) for x in s[1].split()] if len(s) >= 2 and all(x.lstrip("-").isdigit() for x in s[1].split()) else []
        fired, ub_after = (cnt[4], cnt[5]) if gq and len(cnt) >= 6 else (0, 0)
        # stream gpq: the callback legitimately resized movable cells in mid-run (never to or from a zero area); said in the violation text
        gqnote = ("" if not gq else " [the callback resized movable cells in mid-run through setCellWidth/setCellHeight, never to or from a zero area: "
                  "%d action(s) fired before the end, (callback number, kind 1 widths 2 heights 3 both 4 same widths again) = %s]"
                  % (fired, [a[:2] for a in gq_actions(l)]))
        if gq:
            self.stats["resize_stream_runs"] = self.stats.get("resize_stream_runs", 0) + 1
        if status == "STOPPED" and len(s) >= 3 and s[2] != "-":
            # the harness stops the run at the first overflowed / non-finite exposed coordinate (a run on NaN may never end)
            self.violations.append(("exposed/returned coordinate overflowed or not finite: " + s[2], l, s[2]))
            return
        if "SIGNAL" in r or "DIED" in r or len(s) < 5:
            self.violations.append(("global placement did not complete: " + r[-120:], l, r[:300]))
            return
        if status != "OK":
            self.violations.append(("Circuit::placeGlobal raised an error on a circuit of the domain: " + status + gqnote, l, status))
            return
        ncb, nub, nlb, npu = cnt[:4]
        self.stats["gp_callbacks"] += ncb
        self.stats["gp_ub_exposures"] += nub
        self.stats["gp_lb_exposures"] += nlb
        self.stats["gp_penalty_update_exposures"] += npu
        frame, exc_pos, exc_zero = [int(x) for x in s[3].split()]
        self.stats["half_unit_excursions_positive_area"] += exc_pos
        self.stats["half_unit_excursions_zero_area"] += exc_zero
        # the harness tolerates exactly the slack PROVED for the composed model (Properties_C06_compose.v): half a unit for an odd placed
        # size, nothing for an even one, per cell and axis; the two counters say how often that half unit was used (positive-area cells:
        # only when a spread coordinate lands on a bin limit, see c06_half_unit_slack_attained_in_range)
        if s[2] != "-":
            what = s[2]
            kind = ("upper-bound placement exposes a movable cell with its centre outside the rows' bounding box"
                    if what.startswith("OUTSIDE") else "exposed/returned coordinate overflowed or not finite")
            nocap = self.is_nocap(s)
            # finding F28: with no free capacity the density grid collapses to the origin and every cell is exposed at (0,0).  Matched
            # only for a circuit without free capacity AND an excursion (as long as known_findings.json lists F28 as `known`)
            if nocap and what.startswith("OUTSIDE") and getattr(self, "ctx", None) is not None and self.ctx.known_finding("F28"):
                self.stats["gp_no_capacity_runs_matched_F28"] = self.stats.get("gp_no_capacity_runs_matched_F28", 0) + 1
            else:
                self.violations.append((kind + ": " + what + gqnote, l, what))
        if frame != 1:
            self.violations.append(("global placement wrote an orientation or moved a fixed cell", l, r[:200]))
        if l in self.coinc:
            self.stats["coincidence_stream_runs"] += 1
            self.bucket(self.dist["coincidence_stream_net_model"], gp_params(l)[2])
        pub = [[int(x) for x in part.split()] for part in s[4].split("/")]
        ret = pub[0]
        par = gp_params(l)
        self.bucket(self.dist["rough_target_blending"], "default 0" if len(par) < 21 or par[18] == "0" else "non-zero")
        if len(par) >= 21:
            self.bucket(self.dist["rough_quadratic_penalty"], "default" if par[19] == "1" else "other")
            self.bucket(self.dist["rough_coarsening_limit"], "default" if par[20] == "1000" else "other")
        if len(pub) == 4:
            self.cmp_exposed(l, par, ret, pub[1], pub[2], pub[3])
        elif len(pub) == 6:     # GQ: placed sizes at return / at the last exposed lower bound / at the last exposed upper bound
            self.cmp_exposed(l, par, ret, pub[1], pub[2], pub[3], pub[4], pub[5])
        if gq:
            cl = gp_cells(l)
            fixed_area = any(c[6] and c[2] > 0 and c[3] > 0 for c in cl)
            self.stats["resize_actions_fired"] = self.stats.get("resize_actions_fired", 0) + fired
            self.stats["resize_upper_bounds_after_a_resize"] = self.stats.get("resize_upper_bounds_after_a_resize", 0) + ub_after
            if fired and ub_after:
                self.stats["resize_runs_with_update_applied"] = self.stats.get("resize_runs_with_update_applied", 0) + 1
                if fixed_area:
                    self.stats["resize_runs_with_update_applied_and_fixed_cell_of_nonzero_area"] = \
                        self.stats.get("resize_runs_with_update_applied_and_fixed_cell_of_nonzero_area", 0) + 1
                if len(pub) == 6 and (pub[3] != pub[4] or pub[3] != pub[5] or
                                      pub[3] != [v for c in cl for v in ((c[3], c[2]) if c[4] in (2, 3, 6, 7) else (c[2], c[3]))]):
                    self.stats["resize_runs_with_sizes_actually_changed"] = self.stats.get("resize_runs_with_sizes_actually_changed", 0) + 1
            for a in gq_actions(l):
                self.bucket(self.dist.setdefault("resize_action_kind", {}), {1: "widths", 2: "heights", 3: "both", 4: "same widths again"}.get(a[1], str(a[1])))
        if self.is_nocap(s):
            # fixed cells / obstructions / the side margin leave no free site in any bin (total capacity <= 0).  The circuit IS in the
            # property's quantifier (a movable cell of positive area, every row >= 4 row-heights wide, "any fixed cells and
            # obstructions"): the public entry point was run and judged above (completed without error, exposed centres, finite
            # coordinates, frame, exposed blend).  Since the repair of finding F28 the grid of such a circuit is the grid of the rows'
            # bounding box with zero capacity (Spread.circuit_grid_area, theorem c06_grid_without_free_space): the private replica and the
            # model ties (bin limits, export, spreading on the final bins) are evaluated below like for every other circuit
            self.stats["gp_no_capacity_runs_judged"] += 1
        if len(s) < 15 or not s[5].startswith("OK"):
            self.differences.append(("replica of GlobalPlacer::place failed while Circuit::placeGlobal succeeded", l, " | ".join(s[5:])[:300]))
            return
        same = int(s[5].split()[1])
        if not same:
            self.differences.append(("replica of GlobalPlacer::place (constructor, run, exportPlacement) exposes other placements than "
                                     "Circuit::placeGlobal", l, ""))
        toks = l.split()
        # distribution
        gl = s[6].split()
        margin = int(gl[1])
        if margin == 0:
            self.stats["margin0_runs"] += 1
        nrows = int(gl[3])
        ncells = int(gl[4 + 5 * nrows])
        cells = [[int(x) for x in gl[5 + 5 * nrows + 7 * i: 12 + 5 * nrows + 7 * i]] for i in range(ncells)]
        movable = [c for c in cells if not c[5]]
        if any(c[2] * c[3] == 0 for c in movable):
            self.stats["gp_zero_area_circuits"] += 1
        if len(movable) < ncells:
            self.stats["gp_with_fixed"] += 1
        self.bucket(self.dist["effort"], par[0])
        self.bucket(self.dist["net_model"], par[2])
        self.bucket(self.dist["cost_model"], par[3])
        self.bucket(self.dist["cells"], "<=5" if ncells <= 5 else "<=20" if ncells <= 20 else "<=60" if ncells <= 60 else ">60")
        self.bucket(self.dist["ub_exposures"], "<=2" if nub <= 2 else "<=10" if nub <= 10 else "<=50" if nub <= 50 else ">50")
        if nub >= 2 and len(movable) >= 2 and (not gq or (fired and ub_after)):
            self.nontrivial.add(l)
        # model cases
        back.append(("GL", idx, (s[6], s[7], None)))
        model_cases.append(s[6])
        back.append(("EX", idx, (s[8], ret)))
        model_cases.append(s[8])
        back.append(("SCr", idx, (s[9], floats(s[11].split()))))
        model_cases.append(s[9])
        back.append(("SCr", idx, (s[10], floats(s[12].split()))))
        model_cases.append(s[10])
        ox, oy, inbin = [int(x) for x in s[14].split()]
        self.stats["final_ub_outside_closed_bin_interval"] += ox + oy
        self.stats["final_ub_cells_in_bins"] += inbin

    # ------------------------------------------------------------ the blend of what was EXPOSED
    def cmp_exposed(self, l, par, ret, elb, eub, sizes, sizes_lb=None, sizes_ub=None):
        """returned placement == blend of the last lower-bound and the last upper-bound placements that the callbacks of
        Circuit::placeGlobal EXPOSED (integers L, B = round(lb - size/2), round(ub - size/2) of the binary32 lb, ub).
        With w = (float)exportBlending: returned R = round(fl((1-w) lb + w ub) - size/2), |L + size/2 - lb| <= 1/2,
        |B + size/2 - ub| <= 1/2, so   |R - ((1-w) L + w B)| <= 1/2 + (|1-w| + |w|)/2 + errb
        where errb = 4u(|1-w||lb| + |w||ub|) + 2^-40 (|.|+1) is the binary32 rounding of blendPlacement (the bound used by
        cmp_export), evaluated with |lb| <= |L + size/2| + 1/2 and |ub| <= |B + size/2| + 1/2.
        Stream gpq (the callback resizes cells in mid-run): every lower-left corner is taken with the placed size OF ITS MOMENT
        (sizes = at return, sizes_lb / sizes_ub = at the last exposed lower / upper bound), i.e. the comparison is made on the centres:
        |(R + sR/2) - ((1-w)(L + sL/2) + w(B + sB/2))| <= the same tolerance; with constant sizes this is the formula above."""
        fixed = gp_fixed(l)
        n = len(fixed)
        sizes_lb = sizes if sizes_lb is None else sizes_lb
        sizes_ub = sizes if sizes_ub is None else sizes_ub
        if len(ret) != 2 * n or len(elb) != 2 * n or len(eub) != 2 * n or len(sizes) != 2 * n or len(sizes_lb) != 2 * n or len(sizes_ub) != 2 * n:
            self.differences.append(("Circuit::placeGlobal returned without exposing both a lower-bound and an upper-bound placement "
                                     "(%d / %d coordinates exposed for %d cells): the exposed-blend comparison is impossible"
                                     % (len(elb), len(eub), n), l, ""))
            return
        w = f32(int(par[16]) / 100.0)
        half = Fraction(1, 2)
        for i in range(n):
            if fixed[i]:
                continue
            for axis in (0, 1):
                k = 2 * i + axis
                R, L, B, hs = ret[k], elb[k], eub[k], Fraction(sizes[k], 2)
                hl, hu = Fraction(sizes_lb[k], 2), Fraction(sizes_ub[k], 2)
                self.stats["exposed_blend_coordinates_compared"] += 1
                ideal = (1 - w) * (L + hl) + w * (B + hu) - hs      # == (1-w) L + w B when the sizes are constant
                errb = (4 * U * (abs(1 - w) * (abs(L + hl) + half) + abs(w) * (abs(B + hu) + half))
                        + Fraction(1, 1 << 40) * (abs(ideal) + hs + 1))
                tol = half + (abs(1 - w) + abs(w)) / 2 + errb
                dev = abs(R - ideal)
                if dev > self.stats["exposed_blend_worst_deviation_over_tolerance_permille"] * tol / 1000:
                    self.stats["exposed_blend_worst_deviation_over_tolerance_permille"] = int(dev * 1000 / tol)
                if dev > tol:
                    self.violations.append((
                        "returned placement is not the blend of the last EXPOSED lower-bound and upper-bound placements: cell %d %s "
                        "returned %d, last exposed lower bound %d, last exposed upper bound %d, export blending w=%s: (1-w)LB+wUB = %.4f, "
                        "deviation %.4f > tolerance %.4f (rough-legalization target blending %s/100)"
                        % (i, "xy"[axis], R, L, B, float(w), float(ideal), float(dev), float(tol), par[18] if len(par) >= 21 else "0"),
                        l, "returned %d exposedLB %d exposedUB %d" % (R, L, B)))
                    return

    # ------------------------------------------------------------ comparisons with the model
    def cmp_spread(self, l, case, got, m, exact):
        parts = m.split(" | ")
        if len(parts) != 2:
            self.differences.append(("spreading model gave no result", l, m[:200]))
            return
        try:
            rep = [binfrac(x) for x in parts[0].split()]
            org = [binfrac(x) for x in parts[1].split()]
        except Exception:
            self.differences.append(("spreading model output unparsable", l, m[:200]))
            return
        n, bins, dem = parse_sc(case)
        if len(got) != n or len(rep) != n or any(g is None for g in got):
            self.differences.append(("spreadCoord returned %d coordinates (some not finite?) for %d cells" % (len(got), n), l, case[:300]))
            return
        tol = [Fraction(0)] * n
        inbin = {}
        for lo, hi, cs in bins:
            for c in cs:
                inbin[c] = (lo, hi)
                if not exact:
                    tol[c] = (4 * len(cs) + 16) * U * (abs(lo) + abs(hi) + 1)
        bad = [c for c in range(n) if abs(got[c] - rep[c]) > tol[c]]
        if exact:
            self.stats["spread_coordinates_compared_exact"] += n
            # the statement of the mechanism on the C++ output: strictly inside a non-degenerate bin
            for c, (lo, hi) in inbin.items():
                if dem[c] > 0 and not ((lo < got[c] < hi) if lo < hi else (lo <= got[c] <= hi)):
                    self.differences.append(("spreadCoord puts a cell of positive demand outside the interval of its bin "
                                             "(cell %d at %s, bin [%d,%d])" % (c, got[c], lo, hi), l, case[:400]))
                    return
            if sum(1 for (lo, hi, cs) in bins if sum(1 for c in cs if dem[c] > 0) >= 2) >= 1:
                self.nontrivial.add(l)
        else:
            self.stats["spread_coordinates_compared_tolerance"] += n
        if bad:
            c = bad[0]
            if all(abs(got[k] - org[k]) <= tol[k] for k in range(n)):
                self.stats["spread_equals_unrepaired_model_only"] += 1
                what = ("spreadCoordX/Y differs from the model of the repaired code and equals the model of the UNREPAIRED code "
                        "(cells in no bin reported at 0.0: finding F15 not fixed in this tree)")
            else:
                what = "spreadCoordX/Y differs from the exact model"
            self.differences.append((what + ": cell %d C++ %s model %s (tolerance %s)" % (c, float(got[c]), float(rep[c]), float(tol[c])), l, case[:400]))

    def cmp_grid(self, l, payload, m):
        case, cpp, cap = payload
        self.stats["grid_limit_lists_compared"] += 1
        mm = m.split(" | ")
        nclipped = int(mm[1]) if len(mm) > 1 and mm[1].strip().lstrip("-").isdigit() else -1
        if mm[0].split() != cpp.split():
            # finding F28 on a tree without the repair: no clipped row is left and the C++ grid is the single bin at the origin, where the
            # model (which follows the repaired code) has the grid of the rows' bounding box.  Matched only for that input class and that
            # C++ answer, and only as long as known_findings.json lists F28 as `known`
            if (nclipped == 0 and cpp.split() == ["2", "0", "0", "2", "0", "0"] and getattr(self, "ctx", None) is not None
                    and self.ctx.known_finding("F28")):
                self.stats["grid_ties_without_free_space_matched_F28"] = self.stats.get("grid_ties_without_free_space_matched_F28", 0) + 1
                return
            self.differences.append(("bin limits of DensityGrid::fromIspdCircuit differ from the model (margin clipping / bounding box / "
                                     "computeSubdivisions): C++ %s model %s" % (cpp[:120], mm[0][:120]), l, case[:400]))
            return
        if nclipped == 0:
            self.stats["grid_ties_without_free_space"] = self.stats.get("grid_ties_without_free_space", 0) + 1
        if cap is not None:
            if (nclipped > 0) != (cap > 0):
                self.differences.append(("total capacity %d but the model keeps %d clipped rows" % (cap, nclipped), l, case[:400]))
            t = cpp.split()
            nx = int(t[0])
            if nx > 2 or int(t[nx + 1]) > 2:
                self.nontrivial.add(l)

    def cmp_export(self, l, payload, m):
        case, ret = payload
        t = case.split()
        w = fr(int(t[1]), int(t[2]))
        n = int(t[3])
        cells = [[int(x) for x in t[4 + 5 * i: 9 + 5 * i]] for i in range(n)]
        vec = floats(t[4 + 5 * n:])
        if len(vec) != 4 * n or any(v is None for v in vec):
            self.violations.append(("final lower/upper bound placement contains a non-finite value", l, case[:300]))
            return
        lbx, ubx, lby, uby = vec[:n], vec[n:2 * n], vec[2 * n:3 * n], vec[3 * n:]
        try:
            mod = [int(x) for x in m.split()]
        except ValueError:
            mod = []
        if len(mod) != 2 * n or len(ret) != 2 * n:
            self.differences.append(("export model gave no result", l, m[:200]))
            return
        for i, c in enumerate(cells):
            fixed, x0, y0, pw, ph = c
            for axis, (lb, ub, size, old) in enumerate(((lbx[i], ubx[i], pw, x0), (lby[i], uby[i], ph, y0))):
                got, want = ret[2 * i + axis], mod[2 * i + axis]
                if fixed:
                    if got != old:
                        self.violations.append(("global placement moved fixed cell %d" % i, l, ""))
                        return
                    continue
                self.stats["export_cells_compared"] += 1
                ideal = (1 - w) * lb + w * ub - Fraction(size, 2)
                errb = 4 * U * (abs(1 - w) * abs(lb) + abs(w) * abs(ub)) + Fraction(1, 1 << 40) * (abs(ideal) + 1)
                if got == want:
                    self.stats["export_exact_equal"] += 1
                elif abs(got - want) == 1:
                    self.stats["export_off_by_one"] += 1
                # |got - ideal| <= 1/2 + errb is the rigorous statement (errb = binary32 rounding of the blend, 4u(|1-w||LB|+|w||UB|));
                # it implies |got - model| <= 1 whenever errb < 1/2, which is additionally checked then
                if (errb < Fraction(1, 2) and abs(got - want) > 1) or abs(got - ideal) > Fraction(1, 2) + errb:
                    self.violations.append(("returned placement is not the blend of the last lower-bound and upper-bound placements: cell %d %s "
                                            "returned %d, blend (1-w)LB+wUB-size/2 = %.4f with w=%s LB=%.4f UB=%.4f size=%d (model %d)"
                                            % (i, "xy"[axis], got, float(ideal), float(w), float(lb), float(ub), size, want), l, case[:300]))
                    return


def vm_crosscheck(harness, driver, seed, count=16):
    """the extracted code against evaluation inside Coq (vm_compute) on a few dyadic spreading cases"""
    import re
    sp = common.harness_gen(harness, ["spread", seed + 77, count])
    impl, _, _ = common.run_both([harness, "run"], None, sp)
    cases = [r.split(" | ")[0] for r in impl if r.startswith("SC ")]

    def q(m, e):
        return "((%d) # %d)%%Q" % (m, 1 << -e) if e < 0 else "((%d) # 1)%%Q" % (m << e)

    def gal(case):
        t = case.split()
        n, bins, dem = parse_sc(case)
        tg = t[len(t) - 2 * n:]
        bs = "; ".join("{| b_lo := (%d)%%Z; b_hi := (%d)%%Z; b_cells := [%s] |}" % (lo, hi, "; ".join("%d%%nat" % c for c in cs))
                       for lo, hi, cs in bins)
        return "map (fun q => (Qnum q, Zpos (Qden q))) (map Qred (spread_coord (%s)%%Z (%s)%%Z [%s] [%s] [%s]))" % (
            t[1], t[2], bs, "; ".join(q(int(tg[2 * i]), int(tg[2 * i + 1])) for i in range(n)), "; ".join("((%d) # 1)%%Q" % d for d in dem))
    res = common.vm_eval("C06", "From Coq Require Import List ZArith QArith. Import ListNotations. Require Import CV.Spread. "
                                "Local Open Scope Z_scope.", [gal(c) for c in cases])
    if res is None:
        return 0, ["vm_compute evaluation of spread_coord failed"]
    bad = []
    for c, r, m in zip(cases, res, run_driver(driver, cases)):
        want = [binfrac(x) for x in m.split(" | ")[0].split()]
        got = [Fraction(int(a), int(b)) for a, b in re.findall(r"\(\s*(-?\d+)\s*,\s*(\d+)\s*\)", r)]
        if got != want:
            bad.append("vm_compute %s vs extracted %s on %s" % (r[:120], m[:120], c[:200]))
    return len(cases), bad


# ---------------------------------------------------------------- binary32 tie (coq/SpreadFloat.v, Flocq)
# fixed "SF" cases: the witnesses of c06_spread_float_refuted / c06_spread_float_above_refuted_small replayed on the C++
SF_WITNESS_BELOW = "SF 3 2 -117183 -117133 2 0 10 0 0 1 3 0 1 2 1 32044 57 0 4 8 0 4 8"
SF_WITNESS_ABOVE = "SF 4 2 0 100000 2 0 10 0 0 1 4 0 1 2 3 1994072 1655332 1892993 1 0 4 8 12 0 4 8 12"


def spec_bits(tok):
    """'S754_finite false 8388611 (-2)' etc. (as printed by Coq) -> IEEE-754 binary32 bit pattern"""
    t = tok.replace("SpecFloat.", "").replace("(", " ").replace(")", " ").split()
    sign = 1 << 31 if len(t) > 1 and t[1] == "true" else 0
    if t[0] == "S754_zero":
        return sign
    if t[0] == "S754_infinity":
        return sign | (0xFF << 23)
    if t[0] == "S754_nan":
        return None
    m, e = int(t[2]), int(t[3])
    if m < (1 << 23):
        return sign | m if e == -149 else None
    return sign | ((e + 150) << 23) | (m - (1 << 23))


def float_tie(ctx, harness, ev, count):
    """spreadCoordX/Y of the compiled library against the Flocq binary32 model evaluated inside Coq by vm_compute,
    bit for bit, on non-dyadic cases.  Returns a dict for the evidence."""
    import re
    lines = [SF_WITNESS_BELOW, SF_WITNESS_ABOVE] + common.harness_gen(harness, ["spreadf", ctx.seed + 4242, count])
    impl, _, _ = common.run_both([harness, "run"], None, lines)
    cases = []                                   # (line, SC case, [bits])
    for l, r in zip(lines, impl):
        s = [x.strip() for x in r.split(" | ")]
        if len(s) != 4 or not s[0].startswith("SC "):
            ev.differences.append(("spreadCoord harness run failed (SF case)", l, r[:300]))
            continue
        for case, res in ((s[0], s[2]), (s[1], s[3])):
            cases.append((l, case, [int(x) for x in res.split()]))

    def gal(case, clamped):
        t = case.split()
        n, bins, dem = parse_sc(case)
        tg = t[len(t) - 2 * n:]
        bs = "; ".join("{| Spread.b_lo := (%d); Spread.b_hi := (%d); Spread.b_cells := [%s] |}"
                       % (lo, hi, "; ".join("%d%%nat" % c for c in cs)) for lo, hi, cs in bins)
        return "map B2SF (spread_coord_f %s (%s) (%s) [%s] [%s] [%s])" % (
            clamped, t[1], t[2], bs, "; ".join("f_of_me (%s) (%s)" % (tg[2 * i], tg[2 * i + 1]) for i in range(n)),
            "; ".join("(%d)" % d for d in dem))
    info = {"cases": len(cases), "coordinates_compared_bit_for_bit": 0, "variant": None,
            "coordinates_outside_their_bin": 0, "witness_below_reproduced": False, "witness_above_reproduced": False,
            "flags": "harness and library built with g++ -std=gnu++17 -O1, x86-64 SSE scalar arithmetic, no -ffast-math, no -mfma "
                     "(no contraction): one C++ float operator = one IEEE-754 binary32 operation, round to nearest even"}
    if not cases:
        return info
    exprs = [gal(c, v) for (_, c, _) in cases for v in ("false", "true")]
    res = common.vm_eval("C06f", "From Coq Require Import List ZArith. From Flocq Require Import Core BinarySingleNaN. "
                                 "Import ListNotations. Require Import CV.Spread CV.SpreadFloat. Local Open Scope Z_scope.", exprs, timeout=900)
    if res is None:
        ev.differences.append(("vm_compute evaluation of the binary32 model (SpreadFloat.spread_coord_f) failed", "-", ""))
        return info
    match = {"false": 0, "true": 0}
    firstbad = {}
    for k, (l, case, bits) in enumerate(cases):
        for j, v in enumerate(("false", "true")):
            toks = re.findall(r"S754_\w+(?:\s+(?:true|false))?(?:\s+\d+\s+\(?-?\d+\)?)?", res[2 * k + j])
            mod = [spec_bits(x) for x in toks]
            if mod == bits:
                match[v] += 1
            elif v not in firstbad:
                c = next((i for i in range(min(len(mod), len(bits))) if mod[i] != bits[i]), -1)
                firstbad[v] = (l, case, "cell %d: C++ bits %s, model bits %s" % (c, bits[c] if c >= 0 else len(bits), mod[c] if c >= 0 else len(mod)))
        info["coordinates_compared_bit_for_bit"] += len(bits)
        # the mechanism on the C++ output: a cell of positive demand inside the closed interval of its bin?
        n, bins, dem = parse_sc(case)
        import struct
        for lo, hi, cs in bins:
            for c in cs:
                if dem[c] > 0:
                    v = struct.unpack("<f", struct.pack("<I", bits[c]))[0]
                    if not (lo <= v <= hi):
                        info["coordinates_outside_their_bin"] += 1
                        if l == SF_WITNESS_BELOW and v < lo:
                            info["witness_below_reproduced"] = True
                        if l == SF_WITNESS_ABOVE and v > hi:
                            info["witness_above_reproduced"] = True
    # the compiled code must be ONE of the two modelled variants on every case: the unrepaired expression (raw) or the
    # expression clamped into [minCoord, maxCoord] (proposed repair); the witnesses tell them apart
    if match["false"] == len(cases):
        info["variant"] = "raw (dem*max + (1-dem)*min unclamped: /repo as it is)"
    elif match["true"] == len(cases):
        info["variant"] = "clamped (coordinate clamped into its bin: the proposed repair is in the tree)"
    else:
        v = "false" if match["false"] >= match["true"] else "true"
        l, case, what = firstbad[v]
        ev.differences.append(("spreadCoordX/Y differs bit for bit from the binary32 model SpreadFloat.spread_coord_f (%d of %d cases equal "
                               "the unclamped model, %d the clamped one): %s" % (match["false"], len(cases), match["true"], what), l, case[:400]))
    return info


def f21_case(ncells=7720):
    """finding F21: a sky130-like circuit in database units (rows 2720 high, cells 460 x 2720, 30 rows 140000 wide, default bin
    size 25: ONE bin): the running sum `dem` of spreadCells exceeds 1 after ~15000 binary32 additions and the last cell of
    the bin is spread ABOVE the bin: upper-bound placement exposed with a centre 5 units above the rows' bounding box"""
    H, W, nrows, roww = 2720, 460, 30, 140000
    rows, cells, nets = [], [], [ncells - 1]
    for i in range(nrows):
        rows += [0, roww, i * H, (i + 1) * H, 0 if i % 2 == 0 else 5]
    for i in range(ncells):
        cells += [(i * 37) % roww, ((i * 11) % nrows) * H, W, H, 0, 0, 0, 0]
    for i in range(ncells - 1):
        nets += [2, i, 0, 0, i + 1, 0, 0, 2]
    par = [1, 0, 0, 0, 6, 20, 400, 2, 1, 2, 1, 1, 1, 1, 1, 250, 99, 6]
    return "GP %d %s %d %s %s %s" % (nrows, " ".join(map(str, rows)), ncells, " ".join(map(str, cells)),
                                     " ".join(map(str, nets)), " ".join(map(str, par)))


def f21_replay(ctx, harness, ev, ftie):
    """runs the F21 circuit through Circuit::placeGlobal (harness only: the statement is evaluated by the harness on every
    exposed placement).  On a tree without the repair the violation is the known finding F21 as long as known_findings.json
    lists it as `known`; once it is listed as fixed, the same outcome is a violation again."""
    case = f21_case()
    impl, _, _ = common.run_both([harness, "run"], None, [case], timeout=900)
    s = [x.strip() for x in impl[0].split(" | ")]
    out = {"cells": 7720, "completed": s[0] == "GP OK", "exposed_outside_rows_bbox": None}
    if s[0] != "GP OK" or len(s) < 5:
        ev.violations.append(("global placement did not complete on the F21 circuit: " + impl[0][-120:], case[:300] + " ...", impl[0][:300]))
        return out
    out["exposed_outside_rows_bbox"] = s[2] if s[2] != "-" else None
    raw = bool(ftie.get("variant")) and ftie["variant"].startswith("raw")
    if s[2] != "-":
        if s[2].startswith("OUTSIDE") and raw and ctx.known_finding("F21"):
            return out
        ev.violations.append(("upper-bound placement exposes a movable cell with its centre outside the rows' bounding box: " + s[2],
                              "f21_case() of checks/c06.py (7720 cells of 460x2720 in 30 rows of 140000x2720)", s[2]))
    elif raw and not ctx.known_finding("F21"):
        ev.differences.append(("spreadCells does not clamp the coordinate into its bin (repair of finding F21 not in this tree) although "
                               "known_findings.json lists F21 as fixed", "-", ""))
    return out


def gen_cases(ctx, harness):
    lines = common.corpus("C06", ("GP ", "GQ ", "GR ", "SP "))
    ncorpus = len(lines)
    if ctx.quick:
        plan = [("gp", ctx.seed, 260, 0), ("gpc", ctx.seed + 31, 120, None), ("gpn", ctx.seed + 57, 60, 0), ("gpf", ctx.seed + 83, 50, 0), ("gpq", ctx.seed + 101, 80, 0), ("grid", ctx.seed, 3000, None), ("spread", ctx.seed, 3000, None)]
    else:
        plan = []
        for k in range(3):
            s = ctx.seed + 1000 * k
            plan += [("gp", s, 1500, 0), ("gp", s + 7, 700, 1), ("gpc", s + 31, 1200, None), ("gpn", s + 57, 500, 0), ("gpn", s + 58, 200, 1), ("gpf", s + 83, 400, 0), ("gpf", s + 84, 150, 1), ("gpq", s + 101, 800, 0), ("gpq", s + 102, 250, 1), ("grid", s, 30000, None), ("spread", s, 30000, None)]
    coinc = set()
    for what, s, n, lvl in plan:
        new = common.harness_gen(harness, [what, s, n] + ([lvl] if lvl is not None else []))
        if what == "gpc":
            coinc.update(new)
        lines += new
    return lines, ncorpus, coinc


def report(ctx, ev, proof_ok, proof, lines):
    """violations first (concrete inputs); model/code differences without a failing input afterwards"""
    seen = set()
    for kind, case, detail in ev.violations:
        key = "".join(ch for ch in kind.split(":")[0] if not ch.isdigit())
        if key in seen:
            continue
        seen.add(key)
        ctx.violation(kind, {"case": case, "format": "see harness/global.cpp header", "detail": detail,
                             "how": "./check C06 --replay <this file>"})
    if not ev.violations:
        seen = set()
        for what, case, detail in ev.differences:
            key = what.split(":")[0][:60]
            if key in seen:
                continue
            seen.add(key)
            ctx.violation("correspondence Spread.v <-> /repo broken: " + what + "; no input violating C06 found",
                          {"broken": "correspondence of coq/Spread.v (theorems of Properties_C06.v)", "case": case, "model_case": detail,
                           "differences": len(ev.differences)}, found_input=False)
        if not proof_ok:
            ctx.violation("proof obligations of Properties_C06.v do not check", {"broken": "Properties_C06.v", "detail": proof}, found_input=False)


def run(ctx):
    proof_ok, proof = common.proof_status_all(ctx, "C06", ["C06_compose", "links"])
    harness = common.build_harness("global")
    driver = common.build_driver("global")
    lines, ncorpus, coinc = gen_cases(ctx, harness)
    ev = Eval(harness, driver); ev.ctx = ctx
    ev.coinc = coinc
    ev.run(lines)
    nvm, vmbad = vm_crosscheck(harness, driver, ctx.seed)
    ftie = float_tie(ctx, harness, ev, 48)
    f21 = f21_replay(ctx, harness, ev, ftie)
    for b in vmbad[:1]:
        ev.differences.append(("extracted OCaml model differs from vm_compute inside Coq", "-", b))
    # the composed binary32 model of one upper-bound exposure (coq/GlobalCompose.v) against real exposures of real runs: spread
    # coordinates bit for bit, exported integers exact, the proved centre bound judged on the C++ output
    from checks import c06_compose
    cres = c06_compose.run_compose(ctx, 30 if ctx.quick else 300, max_exposures=80 if ctx.quick else 800)
    for x in cres["statement_fail"][:2]:
        ev.violations.append(("upper-bound exposure violates the centre bound proved for the composed model: " + str(x[1])[:300], x[0], str(x[1:])[:600]))
    for x in cres["mismatch"][:1]:
        ev.differences.append(("composed model GlobalCompose.ub_exposure differs from the exposure of the real run: " + str(x[1])[:300], x[0], str(x[1:])[:600]))
    report(ctx, ev, proof_ok, proof, lines)
    gp = [l for l in lines if l.startswith("GP ")]
    gqs = [l for l in lines if l.startswith("GQ ")]
    cov = dict(proof)
    cov["composed_model_tie"] = c06_compose.summary(cres)
    cov.update({
        "trusted_base": common.TRUSTED_BASE + [
            "binary32 rounding of blendPlacement, Eigen's conjugate gradient, the rough legalizer's choice of bins and "
            "completion/finiteness are NOT modelled: validated on the runs of this check only",
            "the binary32 model of spreadCells (coq/SpreadFloat.v, Flocq) is tied bit for bit to the compiled code under the build flags "
            "-O1, x86-64 SSE, no -ffast-math, no FMA contraction; its theorems use the standard library's real-number axioms",
            "bins (limits, cell lists) are inputs of the spreading model; that every cell of positive area is in exactly one bin is C16's claim",
            "harness replica of GlobalPlacer::place (5 statements, private access) supplies the final LB/UB vectors; it is compared with "
            "Circuit::placeGlobal on every exposed placement"],
        "evaluations": len(lines), "distinct_nontrivial": len(ev.nontrivial),
        "rule": "distinct case lines; non-trivial = GP: >= 2 upper-bound exposures and >= 2 movable cells; SP: some bin with >= 2 cells of "
                "positive demand; GR: more than one bin in x or y.  Every completed GP run is checked twice for the blend: model export on the "
                "replica's final binary32 LB/UB vectors, and (statistics.exposed_blend_coordinates_compared) returned integer R against the "
                "integers L, B last EXPOSED by the LowerBound / UpperBound(or PenaltyUpdate) callbacks of Circuit::placeGlobal: "
                "|R - ((1-w)L + wB)| <= 1/2 + (|1-w|+|w|)/2 + 4u(|1-w|(|L+size/2|+1/2) + |w|(|B+size/2|+1/2)) + 2^-40(.), w = (float)exportBlending "
                "(1/2 per std::round of R, L, B weighted by the blend; u = 2^-24); roughLegalization.targetBlending (-0.1..0.89, non-zero in ~65% "
                "of the runs), quadraticPenalty (0..1) and coarseningLimit (0.5..500) are varied (distribution.rough_*).  "
                "statistics.coincidence_stream_runs GP runs come from the exact-coincidence stream (30 per net model in the quick tier); an "
                "exposed coordinate of magnitude >= 2^30 (INT_MIN = converted NaN/inf) stops the run and is a violation with the circuit.  "
                "Stream gpq (80 GQ runs in the quick tier, statistics.resize_*): the callback of Circuit::placeGlobal resizes movable cells of positive area at "
                "1-3 callback numbers (60 % of the first actions at callbacks 0-2; kinds: widths +-2..3 / heights to 1-3 row heights or +-1 / both / the same "
                "widths set again; never to or from a zero area, fixed and area-less cells untouched), 80 % of the circuits with a fixed cell of non-zero "
                "area (obstruction or not); judged on the statement with the placed sizes OF THE MOMENT (completion without error, exposed centres, finite "
                "coordinates, frame, exposed blend on the centres); a GQ run is non-trivial only if an action fired AND an upper bound was exposed after it "
                "(the update path GlobalPlacer::updateCellSizes -> HierarchicalDensityPlacement::updateCellDemand was taken)",
        "samples": [gp[0][:400] if gp else "", gqs[0][:400] if gqs else "", lines[len(lines) // 2][:400], lines[-1][:400]],
        "corpus_cases": ncorpus, "vm_compute_crosschecked_cases": nvm, "binary32_tie": ftie, "finding_F21_circuit": f21, "kinds": {k: ev.stats.get(k, 0) for k in ("GP", "GQ", "GR", "SP")},
        "domain": "rows >= 4 row heights wide, >= 1 movable cell of positive area (others SKIPped and counted); circuits without free capacity included "
                  "(stream gpn: one macro over all rows, or one obstruction per row leaving at most a sliver), "
                  "CG tolerance 1e-1..1e-6, approximation/cutoff distances >= 0.1, all 4 net models, all 6 cost models, line/diag/square "
                  "windows, 1-D transport on/off, 0-3 rough steps, bin size 1-25, export blending -0.5..1.5, rough-legalization target blending "
                  "-0.1..0.89, quadratic penalty 0..1, coarsening limit 0.5..500, default side margin 0.9, default penalty target blending; "
                  "zero-area movable cells, fixed cells (also far away / zero size), obstructions, split rows, nets of degree 1-20; "
                  "exact-coincidence stream: even sizes, groups of 3-7 cells connected only to each other with pins at the cell centres (or identical "
                  "cells with identical pin offsets), 2-5 identical cells stacked on one position and tied to one pad pin, nets with 2-5 pins on one "
                  "spot of one cell (both axes / x only / y only), circuits without any fixed pin, all movable cells starting on one position; "
                  "mid-run resizing stream: the circuits of the main stream plus 1-3 fixed cells of non-zero area (up to 4 x 2 row heights, inside or next to the "
                  "rows, 60 % obstructions), cell sizes changed by the callback between steps (so that the total movable area drifts by up to a few row heights per action)",
        "slack": "centre vs rows' bounding box, per cell and per axis: exact for an even placed size, 1/2 for an odd one (std::round of a half-integer "
                 "lower-left): the bound PROVED for the composed binary32 model (c06_ub_exposed_centres_inside_rows_bbox) and attained "
                 "(c06_half_unit_slack_attained_in_range); uses of the half unit are counted below",
        "statistics": ev.stats, "distribution": ev.dist,
        "domain_decisions": {
            "no_capacity (total bin capacity <= 0 after fixed cells, obstructions and the side margin)": "IN the quantifier (a movable cell of positive area, "
                "every row >= 4 row-heights wide, any fixed cells and obstructions): Circuit::placeGlobal is run and judged on the whole statement "
                "(completes without error, exposed centres inside the rows' bounding box, finite coordinates, frame, exposed blend); "
                "statistics.gp_no_capacity_runs_judged; since the repair of finding F28 (grid of the rows' bounding box, zero capacity) the private replica "
                "and the model ties (bin limits, export, spreading) are evaluated there too: statistics.grid_ties_without_free_space",
            "row narrower than 4 row-heights / no movable cell of positive area / bin size below one unit / parameters rejected": "OUTSIDE the quantifier: "
                "skipped and counted by reason in statistics.skipped_by_reason",
            "half-unit tolerance of the centre oracle": "exactly the proved bound: 1/2 for an odd placed size, 0 for an even one, per cell and axis (before the "
                "composed theorem existed the oracle allowed 1/2 in y always and in x for margin 0, and treated any use by a positive-area cell as a "
                "violation: that demanded more than holds -- the in-range witness of c06_half_unit_slack_attained_in_range runs through "
                "Circuit::placeGlobal with 2 such exposures); uses are counted in statistics.half_unit_excursions_positive_area / _zero_area"},
        "model_vs_impl_differences": len(ev.differences), "impl_outputs_violating_statement": len(ev.violations)})
    return ctx.finish(LEVEL, cov, [
        "completion without error, finiteness and the single-precision rounding are validated on the generated runs only (Eigen CG is outside the model)",
        "the spreading theorems take the bins as given (each cell in at most one bin, demands of binned cells non-negative): C16",
        "model follows the tree with the F15 repair (cells in no bin reported at their clamped target)",
        "binary32: the unclamped and the clamped (repair of F21, /repo 7b95a91) interpolation of spreadCells are both modelled; the run must equal one "
        "of them bit for bit on every case; F21 is recorded as fixed, an unclamped tree is reported as a violation",
        "clause 1 (centre inside the rows' bounding box) is proved for the COMPOSED binary32 model of a circuit (grid, any view, any partition into bins of "
        "positive-demand cells, any targets incl. NaN/inf, spreading, export) up to the half unit of std::round for an odd placed size, which is attained; "
        "the view and its cell lists (C16), the solver's output and the stop tests of the run loop are oracles of that theorem",
        "circuits without free capacity (every row covered by obstructions, or only pieces <= 2*margin left) are IN the domain: run, judged and "
        "tied to the model, which follows the repaired code of finding F28 (placement area = bounding box of the rows, every bin capacity 0)",
        "sideMargin is kept at its default (it is not range-checked by the parameter check and not part of the property's quantifier); "
        "the grid theorem needs margin >= 0",
        "legitimate callbacks in mid-run (stream gpq): the theorems are about ONE exposure / one export with the sizes given, so they cover a run whose "
        "sizes change between steps; that the run COMPLETES when a callback resizes cells (update of the demands, no change to or from a zero area) is "
        "validated on the generated runs only"])


def replay(ctx, path):
    r = json.load(open(path))["replay"]
    case = r["case"]
    if case.startswith("f21_case()"):      # finding F21: the circuit is generated, not stored
        case = f21_case()
    harness = common.build_harness("global")
    driver = common.build_driver("global")
    ev = Eval(harness, driver); ev.ctx = ctx
    impl = ev.run([case])
    print("case :", case[:300])
    print("impl :", impl[0][:300])
    for v in ev.violations:
        print("violation :", v[0])
    for d in ev.differences:
        print("difference:", d[0])
    return 1 if (ev.violations or ev.differences) else 0
