"""shared by C02 / C03 / C04 / C05: run Circuit::legalize and Circuit::placeDetailed (recording callback)
from /repo on generated circuits, and evaluate, on EVERY exposed state (each Detailed callback and the
returned placement), the proved checkers legalb / orient_okb (extracted from Coq), the wirelength
sequence, the immobility of non-optimised cells and the frame."""
from tools import common
from checks import legal_common as lc


def split_dp(line):
    """'DP <rows> <cells> <nets> effort custom p*7' -> circuit tokens (rows+cells), all tokens"""
    t = line.split()[1:]
    nr = int(t[0])
    p = 1 + 5 * nr
    nc = int(t[p])
    p += 1 + 8 * nc
    return t[:p], t


def parse_state(s):
    """' ;<placement> ; hpwl [; frame]' pieces"""
    parts = [x.strip() for x in s.split(";")]
    head = parts[0]
    pl = [int(x) for x in parts[1].split()] if len(parts) > 1 and parts[1] else []
    hp = int(parts[2]) if len(parts) > 2 and parts[2].lstrip("-").isdigit() else None
    frame = parts[3] if len(parts) > 3 else None
    return head, pl, hp, frame


_cache = {}


def run_detailed(ctx, count, seed, prop, modes=(0,), variant="plain"):
    key = (count, seed, tuple(modes), variant)
    if key in _cache:
        return _cache[key]
    harness = common.build_harness("detailed", variant)
    driver = common.build_driver()
    lines = common.corpus(prop, ("DP ",))
    for m in modes:
        lines += common.harness_gen(harness, ["rand", seed + m, count // len(modes), m])
    # stress streams (checks/stress_streams.py): circuits TRANSLATED to 2^24 + odd .. +-(2^30 - small) in x and / or y, run WITHOUT shift
    # pass (custom parameter set, shiftMaxNbCells < 2: lemon is never driven there), and designed wide rows with reorderingMaxNbCells 6..8
    from checks import stress_streams as ss
    sbig, swide, sinfo = ss.extra_lines(harness, "DP", seed, count // 8, max(4, count // 200), ["rand", seed + 977, count // 4, 0])
    lines += sbig + swide
    impl, _, _ = common.run_both([harness, "run"], None, lines, chunk=200, timeout=300)
    res = {"runs": len(lines), "stress_streams": sinfo, "states": 0, "nontrivial": 0, "legal_fail": [], "orient_fail": [], "hpwl_fail": [], "fixed_fail": [],
           "throw_fail": [], "frame_fail": [], "crash": [], "hpwl_unparsable": [], "hpwl_end_fail": [], "lines": lines, "impl": impl, "outcomes": {}, "callbacks": 0,
           "moved_runs": 0, "polarity_orient_changed_runs": 0, "hpwl_improved_runs": 0}
    linp, lmap = [], []
    parsed = []
    for i, (l, out) in enumerate(zip(lines, impl)):
        ctoks, _ = split_dp(l)
        segs = out.split(" || ")
        st = {"leg": None, "cbs": [], "end": None}
        for s in segs:
            s = s.strip()
            if s.startswith("LEG"):
                st["leg"] = parse_state(s[3:])
            elif s.startswith("CB"):
                st["cbs"].append(parse_state(s[2:]))
            elif s.startswith("END"):
                st["end"] = parse_state(s[3:])
            elif s:
                st["crash"] = s
        parsed.append(st)
        ncell = lc.ncells_of(ctoks)
        states = []
        if st["leg"] and st["leg"][0] == "OK":
            states.append(("leg", st["leg"][1]))
        states += [("cb%d" % k, c[1]) for k, c in enumerate(st["cbs"])]
        if st["end"] and st["end"][0] == "OK":
            states.append(("end", st["end"][1]))
        for name, pl in states:
            if len(pl) == 3 * ncell:
                linp.append("LC " + " ".join(ctoks) + " " + " ".join(str(v) for v in pl))
                lmap.append((i, name))
    lout, _, _ = common.run_both([driver], None, linp)
    flags = {}
    for k, o in zip(lmap, lout):
        flags[k] = o.split()
    for i, (l, out) in enumerate(zip(lines, impl)):
        st = parsed[i]
        ctoks, _ = split_dp(l)
        cells, _ = lc.cells_of(ctoks)
        if st.get("crash") or st["end"] is None:
            res["crash"].append((l, out[-300:], "placeDetailed did not return or throw (abort/crash): " + str(st.get("crash", out[-100:]))))
            continue
        leg, end = st["leg"], st["end"]
        # the harness prints Circuit::hpwl() in EVERY LEG / CB / END segment: a missing or non-integer value is an error of the
        # harness/parser (broken correspondence), never a reason to skip the wirelength comparison
        for name, sta in ([("leg", leg)] if leg else []) + [("cb%d" % k, c) for k, c in enumerate(st["cbs"])] + [("end", end)]:
            if sta[2] is None:
                res["hpwl_unparsable"].append((l, out[-300:], "the wirelength printed at %s is missing or not an integer" % name))
        kind = end[0] if end[0] == "OK" else end[0][:60]
        res["outcomes"][kind] = res["outcomes"].get(kind, 0) + 1
        res["callbacks"] += len(st["cbs"])
        if end[3] is not None and end[3] != "1":
            res["frame_fail"].append((l, out[-300:], "placeDetailed changed something other than x/y/orientation of movable cells"))
        if leg is None:
            continue
        if leg[0] == "OK" and end[0] != "OK":
            res["throw_fail"].append((l, out[-300:], "detailed placement failed (%s) on a circuit that legalization alone accepts" % end[0]))
        if leg[0] != "OK":
            # legalization itself refuses: detailed placement must refuse too, and leave the placement alone
            continue
        exposed = [("cb%d" % k, c) for k, c in enumerate(st["cbs"])] + ([("end", end)] if end[0] == "OK" else [])
        prev_hp = leg[2]
        rh = None
        nontriv = False
        pol_changed = False
        for name, (_, pl, hp, _) in exposed:
            res["states"] += 1
            f = flags.get((i, name))
            if f is None or f[0] != "1":
                res["legal_fail"].append((l, "%s: %s" % (name, pl), "placement exposed at %s is not legal (proved checker legalb = false)" % name))
            if f is None or f[1] != "1":
                res["orient_fail"].append((l, "%s: %s" % (name, pl), "at %s a cell has an orientation its polarity does not prescribe, or an unpolarised cell changed orientation (orient_okb = false)" % name))
            # cells detailed placement does not optimise: placed height != row height (from the legalized placement: heights do not change)
            for ci, c in enumerate(cells):
                if c[6]:
                    continue
                # polarised cell changed orientation since legalization?
                if c[5] != 0 and pl[3 * ci + 2] != leg[1][3 * ci + 2]:
                    pol_changed = True
            if pl != leg[1]:
                nontriv = True
            if hp is not None and prev_hp is not None and hp > prev_hp:
                res["hpwl_fail"].append((l, "%s: hpwl %d after %d" % (name, hp, prev_hp),
                                         "half-perimeter wirelength increased from %d to %d at %s" % (prev_hp, hp, name), pol_changed, i, name))
            prev_hp = hp if hp is not None else prev_hp
        # multi-row cells / movable macros stay where legalization put them
        rows_h = None
        nr = int(ctoks[0])
        if nr:
            rows_h = int(ctoks[4]) - int(ctoks[3])
        for name, (_, pl, hp, _) in exposed:
            for ci, c in enumerate(cells):
                if c[6]:
                    continue
                turned = leg[1][3 * ci + 2] in (2, 3, 6, 7)
                ph = c[2] if turned else c[3]
                if rows_h is not None and ph != rows_h and pl[3 * ci:3 * ci + 3] != leg[1][3 * ci:3 * ci + 3]:
                    res["fixed_fail"].append((l, "%s cell %d: %s vs legalized %s" % (name, ci, pl[3 * ci:3 * ci + 3], leg[1][3 * ci:3 * ci + 3]),
                                              "a cell detailed placement does not optimise (multi-row cell) moved at %s" % name))
        res["nontrivial"] += nontriv
        res["moved_runs"] += nontriv
        res["polarity_orient_changed_runs"] += pol_changed
        if end[0] == "OK" and end[2] is not None and leg[2] is not None and end[2] < leg[2]:
            res["hpwl_improved_runs"] += 1
        # the property's last clause, judged on its own (NOT through the monotone chain, whose baseline moves up after a rise):
        # the returned wirelength does not exceed the legalized one
        if end[0] == "OK" and end[2] is not None and leg[2] is not None:
            res["end_vs_legalized_checked"] = res.get("end_vs_legalized_checked", 0) + 1
            if end[2] > leg[2]:
                res["hpwl_end_fail"].append((l, "end: hpwl %d, legalized %d" % (end[2], leg[2]),
                                             "the wirelength returned by placeDetailed (%d) exceeds the legalized one (%d)" % (end[2], leg[2]), pol_changed, i, "end"))
    res["parsed"] = parsed
    _cache[key] = res
    return res


def summary(res):
    d = {k: res[k] for k in ("runs", "states", "callbacks", "outcomes", "moved_runs", "polarity_orient_changed_runs", "hpwl_improved_runs")}
    d["end_vs_legalized_checked"] = res.get("end_vs_legalized_checked", 0)
    d["stress_streams"] = res.get("stress_streams", {})
    d["hpwl_values_unparsable"] = len(res["hpwl_unparsable"])
    from checks import dopt_common as do_
    d["net_weights"] = do_.weight_summary([split_dp(l)[1][len(split_dp(l)[0]):] for l in res["lines"]])
    return d
