"""C06, tie of the COMPOSED model coq/GlobalCompose.v (ub_exposure = fromIspdCircuit's grid o spreadCoordX/Y in binary32 o
exportPlacement in binary64) against /repo on the upper-bound exposures of REAL runs of GlobalPlacer.

Harness harness/gcompose.cpp (replica of GlobalPlacer::place with private access): at every UpperBound callback it records the view of
the hierarchical grid (bin limits of the current level, binCells), the targets spreadCoordX/Y received (leg_.cellTargetX_/Y_), the
resulting xPlacementUB_/yPlacementUB_ (raw binary32 bit patterns) and the integers exportPlacement wrote.  For the first K-1 and the
last exposure of every run the Coq side evaluates, by vm_compute (common.vm_eval),
    view_of_circuit / view_shape of the recorded view w.r.t. the MODEL's grid of the circuit, grid_of_circuit, circuit_grid_area,
    map cell_demand, ub_coords (bit patterns), export_placement_f (integers)
and the check compares: spread coordinates BIT FOR BIT, exported integers EXACTLY, grid limits / area / demands exactly.
Independently of the model it evaluates the conclusion of theorem c06_ub_exposed_centres_inside_rows_bbox on the C++ integers
(2 minX R - pw mod 2 <= 2X + pw <= 2 maxX R + pw mod 2, same in y), its hypotheses (window, bins_positive) on the recorded data,
and the loop facts of c06_run_global_exposures (UpperBound callbacks <= maxNbSteps - nbInitialSteps + 1; a PenaltyUpdate callback
exposes the integers of the preceding UpperBound callback).

Library: run_compose(ctx, count=30, seed=None, lines=None, K=2, max_exposures=80, offset=0) -> dict; keys `mismatch` (broken correspondence: list of (case line,
what)), `statement_fail` (the C++ output violates the theorem's conclusion inside its hypotheses: real violation with its input),
counters.  Stand-alone: python3 -m checks.c06_compose [seed] [count] [offset]; python3 -m checks.c06_compose witness (the in-range
circuit of c06_half_unit_slack_attained_in_range through Circuit::placeGlobal and through the tie).
The default streams stay within |coordinates| <= 2^22 (offset 0).  `half_unit_uses_positive_area` counts cells of positive area exposed
exactly 1/2 outside the rows' bounding box: allowed by the theorem (odd placed size), 0 on the default streams, 2 on the witness."""
import re
import struct
import sys
from tools import common

ORI = ["oN", "oS", "oW", "oE", "oFN", "oFS", "oFW", "oFE", "oINVALID", "oUNKNOWN"]
TURN = (2, 3, 6, 7)
IMPORTS = ("From Coq Require Import List ZArith Reals. From Flocq Require Import Core BinarySingleNaN. Import ListNotations. "
           "Require Import CV.Orient CV.FreeSpace CV.Spread CV.SpreadFloat CV.GlobalCompose. Local Open Scope Z_scope.")
MAX_BINS = 1500      # views with more bins (minCellHeight 1 and bin size 1 give 10^5) are skipped and counted
MAX_CELLS = 80


def z(v):
    return "(%d)" % v


def f32_gallina(bits):
    """IEEE-754 binary32 bit pattern -> Gallina term of type f32 (exact)"""
    s, e, m = bits >> 31, (bits >> 23) & 0xFF, bits & 0x7FFFFF
    if e == 0xFF:
        return "B754_nan" if m else "(B754_infinity %s)" % ("true" if s else "false")
    if e == 0 and m == 0:
        return "(B754_zero %s)" % ("true" if s else "false")
    mant, ex = (m, -149) if e == 0 else (m | (1 << 23), e - 150)
    return "(f_of_me (%d) (%d))" % (-mant if s else mant, ex)


def spec_bits(tok):
    """'S754_finite false 8388611 (-2)' (as printed by Coq) -> bit pattern (None for NaN)"""
    t = tok.replace("SpecFloat.", "").replace("(", " ").replace(")", " ").split()
    sign = 1 << 31 if len(t) > 1 and t[1] == "true" else 0
    if t[0] == "S754_zero":
        return sign
    if t[0] == "S754_infinity":
        return sign | (0xFF << 23)
    if t[0] == "S754_nan":
        return None
    m, e = int(t[2]), int(t[3])
    if m < (1 << 23):
        return sign | m if e == -149 else None
    return sign | ((e + 150) << 23) | (m - (1 << 23))


def parse_case(res):
    """result line of gcompose -> dict or None"""
    s = [x.strip() for x in res.split(" | ")]
    if len(s) < 7 or not s[0].startswith("GC OK"):
        return None
    t = [int(x) for x in s[1].split()]
    margin, maxsize, nr = t[0], t[1], t[2]
    rows = [t[3 + 5 * i: 8 + 5 * i] for i in range(nr)]
    p = 3 + 5 * nr
    nc = t[p]
    cells = [t[p + 1 + 7 * i: p + 8 + 7 * i] for i in range(nc)]
    g = [int(x) for x in s[2].split()]
    fx = g[1:1 + g[0]]
    fy = g[2 + g[0]:]
    area = [int(x) for x in s[3].split()]
    nub, npu, pusame, steps, maxsteps, ninit, cap = [int(x) for x in s[4].split()]
    dem = [int(x) for x in s[5].split()]
    pl = [int(x) for x in s[6].split()]
    exps = []
    for rec in s[7:]:
        head, rest = rec.split(" T ")
        tb, rest = rest.split(" U ")
        ub, pos = rest.split(" P ")
        h = [int(x) for x in head.split()[1:]]
        cb, nx = h[0], h[1]
        vx = h[2:2 + nx]
        ny = h[2 + nx]
        vy = h[3 + nx:3 + nx + ny]
        q = 3 + nx + ny
        bins = []
        for i in range(nx - 1):
            col = []
            for j in range(ny - 1):
                k = h[q]
                col.append(h[q + 1:q + 1 + k])
                q += 1 + k
            bins.append(col)
        tb = [int(x) for x in tb.split()]
        ub = [int(x) for x in ub.split()]
        pos = [int(x) for x in pos.split()]
        exps.append({"cb": cb, "vx": vx, "vy": vy, "bins": bins, "tx": tb[:nc], "ty": tb[nc:], "ux": ub[:nc], "uy": ub[nc:],
                     "pos": [(pos[2 * i], pos[2 * i + 1]) for i in range(nc)]})
    return {"margin": margin, "maxsize": maxsize, "rows": rows, "cells": cells, "fx": fx, "fy": fy, "area": area, "nub": nub,
            "npu": npu, "pusame": pusame, "steps": steps, "maxsteps": maxsteps, "ninit": ninit, "cap": cap, "dem": dem,
            "placed": [(pl[2 * i], pl[2 * i + 1]) for i in range(nc)], "exps": exps}


def gal_circuit(c):
    rows = "[" + "; ".join("{| rr := {| minX := %s; maxX := %s; minY := %s; maxY := %s |}; ro := %s |}"
                           % (z(r[0]), z(r[1]), z(r[2]), z(r[3]), ORI[r[4]]) for r in c["rows"]) + "]"
    cells = "[" + "; ".join("(%s, %s, %s, %s, %s, %s, %s)" % (z(x[0]), z(x[1]), z(x[2]), z(x[3]), ORI[x[4]],
                                                               "true" if x[5] else "false", "true" if x[6] else "false")
                            for x in c["cells"]) + "]"
    return rows, cells


def gal_exposure(c, e):
    rows, cells = gal_circuit(c)
    view = "{| v_x := [%s]; v_y := [%s]; v_cells := [%s] |}" % (
        "; ".join(z(v) for v in e["vx"]), "; ".join(z(v) for v in e["vy"]),
        "; ".join("[" + "; ".join("[" + "; ".join("%d%%nat" % k for k in b) + "]" for b in col) + "]" for col in e["bins"]))
    # beta-redexes, not let-ins: with `let u := .. in ..` Coq also normalises the (let-dependent) TYPE of the result, 10x slower
    return ("(fun (rows : list row) (cells : list ccell) (v : view) => (fun (u : list f32 * list f32) => "
            "(view_of_circuit %s %s rows cells v, view_shape v, grid_of_circuit %s %s rows cells, circuit_grid_area %s rows cells, "
            "map cell_demand cells, map (@B2SF 24 128) (fst u), map (@B2SF 24 128) (snd u), export_placement_f cells (fst u) (snd u))) "
            "(ub_coords %s rows cells v [%s] [%s])) %s %s %s"
            % (z(c["margin"]), z(c["maxsize"]), z(c["margin"]), z(c["maxsize"]), z(c["margin"]), z(c["margin"]),
               "; ".join(f32_gallina(b) for b in e["tx"]), "; ".join(f32_gallina(b) for b in e["ty"]), rows, cells, view))


def parse_model(out):
    """normal form printed by Coq -> (view_ok, shape_ok, lx, ly, area, demands, ux bits, uy bits, positions) or None"""
    bools = re.findall(r"\b(true|false)\b", out[:60])
    lists = re.findall(r"\[([^\[\]]*)\]", out)
    ar = re.search(r"minX := \(?(-?\d+)\)?;\s*maxX := \(?(-?\d+)\)?;\s*minY := \(?(-?\d+)\)?;\s*maxY := \(?(-?\d+)\)?", out)
    if len(bools) < 2 or len(lists) != 6 or not ar:
        return None
    ints = lambda s: [int(x) for x in re.findall(r"-?\d+", s)]
    ftok = r"S754_\w+(?:\s+(?:true|false))?(?:\s+\d+\s+\(?-?\d+\)?)?"
    ux = [spec_bits(x) for x in re.findall(ftok, lists[3])]
    uy = [spec_bits(x) for x in re.findall(ftok, lists[4])]
    pos = []
    for m in re.finditer(r"Some \(\s*\(?(-?\d+)\)?,\s*\(?(-?\d+)\)?\s*\)|None", lists[5]):
        pos.append(None if m.group(0) == "None" else (int(m.group(1)), int(m.group(2))))
    return (bools[0] == "true", bools[1] == "true", ints(lists[0]), ints(lists[1]), [int(x) for x in ar.groups()], ints(lists[2]), ux, uy, pos)


def bbox(rows):
    return (min(r[0] for r in rows), max(r[1] for r in rows), min(r[2] for r in rows), max(r[3] for r in rows))


def hypotheses(c, e):
    """the hypotheses of c06_ub_exposed_centres_inside_rows_bbox on the recorded data -> (in window?, why not)"""
    R = bbox(c["rows"])
    if not any(r[0] < r[1] and r[2] < r[3] for r in c["rows"]):
        return False, "no proper row"
    if c["margin"] < 0 or c["maxsize"] < 1:
        return False, "margin < 0 or maxSize < 1"
    if max(abs(v) for v in R) > 1 << 24:
        return False, "rows' bounding box outside the 2^24 window"
    for x in c["cells"]:
        if not x[5] and not (0 <= x[2] < 1 << 31 and 0 <= x[3] < 1 << 31 and x[2] * x[3] < 1 << 31):
            return False, "movable cell outside the int window"
    return True, ""


def shift_line(line, dx, dy):
    """a GP case line with rows and (nearby) cells translated by (dx, dy)"""
    t = line.split()
    v = [int(x) for x in t[1:]]
    p = 1
    for _ in range(v[0]):
        v[p] += dx; v[p + 1] += dx; v[p + 2] += dy; v[p + 3] += dy
        p += 5
    nc = v[p]
    p += 1
    for _ in range(nc):
        if abs(v[p]) < 200000 and abs(v[p + 1]) < 200000:
            v[p] += dx; v[p + 1] += dy
        p += 8
    return t[0] + " " + " ".join(str(x) for x in v)


def run_compose(ctx, count=30, seed=None, lines=None, K=2, max_exposures=80, offset=0):
    """count: runs of stream gp (+ count // 6 >= 2 of stream gpn, no free capacity); K: exposures recorded per run (first K-1 and the
    last); max_exposures: cap on the exposures evaluated inside Coq (about 0.3-1 s each); offset: translate rows and cells by
    (offset, offset) (2^23 shows the half-unit uses of cells of positive area)"""
    seed = (ctx.seed if ctx is not None else 1) if seed is None else seed
    gen = common.build_harness("global")
    har = common.build_harness("gcompose")
    if lines is None:
        ncap = max(2, count // 6)
        lines = common.harness_gen(gen, ["gp", seed + 606, count, 0]) + common.harness_gen(gen, ["gpn", seed + 607, ncap, 0])
        if offset:
            lines = [shift_line(l, offset, offset) for l in lines]
    impl, _, errs = common.run_both([har, "run", str(K)], None, lines)
    res = {"runs": 0, "runs_skipped_or_stopped": 0, "exposures_recorded": 0, "exposures_evaluated_in_coq": 0, "exposures_skipped_large": 0,
           "spread_coordinates_compared_bit_for_bit": 0, "exported_integers_compared": 0, "movable_cells_judged": 0,
           "half_unit_uses_positive_area": 0, "half_unit_uses_zero_area": 0, "outside_window": 0, "nan_or_inf_targets": 0,
           "views_coarser_than_grid": 0, "no_capacity_runs": 0, "penalty_update_callbacks": 0, "max_ub_callbacks": 0,
           "mismatch": [], "statement_fail": [], "K": K}
    todo = []
    for l, r in zip(lines, impl):
        c = parse_case(r)
        if c is None:
            res["runs_skipped_or_stopped"] += 1
            if not (r.startswith("SKIP") or r.startswith("GC STOPPED") or r.startswith("GC OK")):
                res["mismatch"].append((l, "harness gcompose: " + r[:200]))
            continue
        res["runs"] += 1
        res["penalty_update_callbacks"] += c["npu"]
        res["max_ub_callbacks"] = max(res["max_ub_callbacks"], c["nub"])
        # loop facts (c06_run_global_exposures)
        if c["nub"] > max(0, c["maxsteps"] - c["ninit"]) + 1:
            res["statement_fail"].append((l, "GlobalPlacer::run made %d UpperBound callbacks, more than maxNbSteps - nbInitialSteps + 1 = %d"
                                          % (c["nub"], c["maxsteps"] - c["ninit"] + 1)))
        if not c["pusame"]:
            res["mismatch"].append((l, "a PenaltyUpdate callback exposed other integers than the preceding UpperBound callback (model run_loop: same vectors)"))
        ok, why = hypotheses(c, None)
        R = bbox(c["rows"])
        for e in c["exps"]:
            res["exposures_recorded"] += 1
            if not ok:
                res["outside_window"] += 1
                continue
            inbin = [k for col in e["bins"] for b in col for k in b]
            if any(c["dem"][k] <= 0 for k in inbin):
                res["mismatch"].append((l, "callback %d: a cell without demand is in a bin (hypothesis bins_positive = C16's invariant fails)" % e["cb"]))
                continue
            for b in e["tx"] + e["ty"]:
                if (b >> 23) & 0xFF == 0xFF:
                    res["nan_or_inf_targets"] += 1
            # the theorem's conclusion on the C++ integers, independent of the model
            for i, x in enumerate(c["cells"]):
                if x[5]:
                    continue
                pw, ph = c["placed"][i]
                X, Y = e["pos"][i]
                res["movable_cells_judged"] += 1
                okx = 2 * R[0] - pw % 2 <= 2 * X + pw <= 2 * R[1] + pw % 2
                oky = 2 * R[2] - ph % 2 <= 2 * Y + ph <= 2 * R[3] + ph % 2
                if not (okx and oky):
                    res["statement_fail"].append((l, "upper bound exposed at callback %d: movable cell %d (placed %d x %d, area %d) at (%d, %d): twice its "
                                                  "centre (%d, %d) is outside [2 min, 2 max] of the rows' bounding box %s by more than the half unit of an "
                                                  "odd size (theorem c06_ub_exposed_centres_inside_rows_bbox, all hypotheses hold)"
                                                  % (e["cb"], i, pw, ph, x[2] * x[3], X, Y, 2 * X + pw, 2 * Y + ph, R)))
                elif not (2 * R[0] <= 2 * X + pw <= 2 * R[1] and 2 * R[2] <= 2 * Y + ph <= 2 * R[3]):
                    res["half_unit_uses_positive_area" if x[2] * x[3] > 0 else "half_unit_uses_zero_area"] += 1
            nb = (len(e["vx"]) - 1) * (len(e["vy"]) - 1)
            if nb > MAX_BINS or len(c["cells"]) > MAX_CELLS or len(todo) >= max_exposures:
                res["exposures_skipped_large"] += 1
                continue
            if len(e["vx"]) < len(c["fx"]) or len(e["vy"]) < len(c["fy"]):
                res["views_coarser_than_grid"] += 1
            todo.append((l, c, e))
        if c["cap"] <= 0:
            res["no_capacity_runs"] += 1
    if todo:
        out = common.vm_eval("C06c", IMPORTS, [gal_exposure(c, e) for (_, c, e) in todo], timeout=1500)
        if out is None:
            res["mismatch"].append(("-", "vm_compute evaluation of GlobalCompose.ub_coords / export_placement_f failed (coqc error or timeout)"))
            out = []
        for (l, c, e), o in zip(todo, out):
            m = parse_model(o)
            tag = "callback %d: " % e["cb"]
            if m is None:
                res["mismatch"].append((l, tag + "cannot parse the model's normal form: " + o[:200]))
                continue
            vok, sok, lx, ly, area, dem, ux, uy, pos = m
            res["exposures_evaluated_in_coq"] += 1
            if lx != c["fx"] or ly != c["fy"]:
                res["mismatch"].append((l, tag + "bin limits of DensityGrid::fromIspdCircuit differ from Spread.grid_of_circuit: C++ %s %s model %s %s" % (c["fx"], c["fy"], lx, ly)))
            if area != c["area"]:
                res["mismatch"].append((l, tag + "placement area differs: C++ %s model %s" % (c["area"], area)))
            if dem != c["dem"]:
                res["mismatch"].append((l, tag + "cell demands differ: C++ %s model %s" % (c["dem"], dem)))
            if not vok or not sok:
                res["mismatch"].append((l, tag + "the recorded view is not a view of the model's grid (view_of_circuit %s, view_shape %s): x %s y %s"
                                        % (vok, sok, e["vx"], e["vy"])))
            res["spread_coordinates_compared_bit_for_bit"] += len(ux) + len(uy)
            if ux != e["ux"] or uy != e["uy"]:
                k = next((i for i in range(min(len(ux), len(e["ux"]))) if ux[i] != e["ux"][i]), None)
                d = "x" if k is not None else "y"
                if k is None:
                    k = next((i for i in range(min(len(uy), len(e["uy"]))) if uy[i] != e["uy"][i]), -1)
                res["mismatch"].append((l, tag + "spreadCoord%s differs bit for bit from ub_coords: cell %d C++ bits %s model bits %s"
                                        % (d.upper(), k, (e["ux"] if d == "x" else e["uy"])[k] if k >= 0 else "?", (ux if d == "x" else uy)[k] if k >= 0 else "?")))
            res["exported_integers_compared"] += 2 * len(pos)
            if pos != e["pos"]:
                k = next((i for i in range(min(len(pos), len(e["pos"]))) if pos[i] != e["pos"][i]), -1)
                res["mismatch"].append((l, tag + "exported integers differ from export_placement_f: cell %d C++ %s model %s"
                                        % (k, e["pos"][k] if k >= 0 else len(e["pos"]), pos[k] if k >= 0 else len(pos))))
    for rc, err in errs[:1]:
        res["mismatch"].append(("-", "harness gcompose died: rc %s %s" % (rc, err[-200:])))
    res["sample_case"] = lines[0][:300] if lines else ""
    return res


def inrange_witness_line():
    """the circuit of theorem c06_half_unit_slack_attained_in_range as a GP case line (|coordinates| <= 2^22): one row
    [0,45] x [2^22-9, 2^22], 45 movable cells 1 x 9 tied to one fixed pad, default parameters: at every UpperBound callback one cell
    of POSITIVE area is exposed with its centre 1/2 above the rows' bounding box (harness global: excPos = number of callbacks)"""
    hi, h, n = 1 << 22, 9, 45
    lo = hi - h
    cells = ["%d %d 1 %d 0 0 0 0" % (k, lo, h) for k in range(n)] + ["20 %d 0 0 0 0 1 0" % (lo + 4)]
    nets = ["2 %d 0 %d %d 0 0 2" % (k, k % h, n) for k in range(n)]
    return "GP 1 0 45 %d %d 0 %d %s %d %s 1 0 1 0 6 20 400 2 1 2 1 2 1 0 1 50 99 40" % (lo, hi, n + 1, " ".join(cells), n, " ".join(nets))


def summary(res):
    return {k: v for k, v in res.items() if k not in ("mismatch", "statement_fail")} | {
        "mismatches": len(res["mismatch"]), "statement_failures": len(res["statement_fail"])}


if __name__ == "__main__":
    import time
    if len(sys.argv) > 1 and sys.argv[1] == "witness":
        import subprocess
        out = subprocess.run([common.build_harness("global"), "run"], input=inrange_witness_line() + "\n", capture_output=True, text=True).stdout
        print(" | ".join(out.split(" | ")[:4])[:300])
        r = run_compose(None, lines=[inrange_witness_line()], K=3)
        print(summary(r))
        sys.exit(0)
    sd = int(sys.argv[1]) if len(sys.argv) > 1 else 1
    cnt = int(sys.argv[2]) if len(sys.argv) > 2 else 30
    off = int(sys.argv[3]) if len(sys.argv) > 3 else 0
    t0 = time.time()
    r = run_compose(None, count=cnt, seed=sd, offset=off)
    print(summary(r))
    for x in r["mismatch"][:5]:
        print("MISMATCH", x[1][:600], "\n   case:", x[0][:200])
    for x in r["statement_fail"][:5]:
        print("STATEMENT", x[1][:600], "\n   case:", x[0][:200])
    print("%.1f s" % (time.time() - t0))
