"""C14 -- one-dimensional transportation is optimal and its rounding is memory-safe.
Proof: coq/Properties_C14.v (plan validity, termination, assignment shape/unsplit, no out-of-bounds access for the
repaired code, F11 witness for the unchanged one, certificate soundness, bounded optimality).
Tie: EXACT diff of Transportation1d::balanceDemand/solve()/assign() (compiled from /repo's working tree) against the
extracted model on exhaustive small-bounds + random instances; the same cases under ASan (bounds/pointer groups,
no signed-overflow group) for the memory clause.  Search: the statement itself is evaluated on the C++ output
(independent Python oracle for validity / assignment, independent min-cost-flow optimum in the harness, the PROVED
certificate checker check_plan on the C++ plan)."""
import json
import os
import subprocess
from multiprocessing import Pool

from tools import common

LEVEL = "proof"
CP_LIMIT = 600          # the proved checker is evaluated on the C++ plan when n*m <= CP_LIMIT
FMT = ("T1 bal n m u_1..u_n v_1..v_m s_1..s_n d_1..d_m (bal=1: balanceDemand() first); result "
       "'D demands | S i j a;... | A assignment | O independent optimum' (see harness/transp1d.cpp)")


def parse_case(line):
    t = line.split()
    bal, n, m = int(t[1]), int(t[2]), int(t[3])
    x = [int(y) for y in t[4:]]
    return bal, n, m, x[:n], x[n:n + m], x[n + m:2 * n + m], x[2 * n + m:2 * n + 2 * m]


def parse_out(out):
    """-> dict with D (list|None), S (list of triples|None), A (list|None), O (int|None), raw parts"""
    parts = [p.strip() for p in out.split(" | ")]
    r = {"D": None, "S": None, "A": None, "O": None, "parts": parts}
    for p in parts:
        if p == "D" or p.startswith("D "):
            r["D"] = [int(y) for y in p[1:].split()]
        elif p == "S" or p.startswith("S "):
            body = p[1:].strip()
            r["S"] = [tuple(int(y) for y in tr.split()) for tr in body.split(";")] if body else []
        elif p == "A" or p.startswith("A "):
            r["A"] = [int(y) for y in p[1:].split()]
        elif p.startswith("O "):
            r["O"] = None if p[2:].strip() == "-" else int(p[2:])
    return r


def statement_verdict(case, o):
    """the statement of C14 evaluated on the implementation's output; returns None or a reason (string)"""
    bal, n, m, u, v, s, d = case
    if any(x < 0 for x in s) or any(x < 0 for x in d):
        return None                                   # outside the quantifier (check() must throw: compared with the model)
    if o["D"] is None or len(o["D"]) != m:
        return "balanceDemand did not return the demands"
    d2 = o["D"]
    ts, td = sum(s), sum(d)
    if bal:
        if any(b < a for a, b in zip(d, d2)):
            return "balanceDemand lowered a demand"
        if sum(d2) != max(ts, td):
            return "balanceDemand: total demand %d, expected %d" % (sum(d2), max(ts, td))
    elif d2 != d:
        return "demands changed without balanceDemand"
    if ts > sum(d2):
        return None                                   # supply > demand: outside the quantifier (check() throws)
    if n < 1 or m < 1:
        return None
    sol, a = o["S"], o["A"]
    if sol is None:
        return "solve() returned no plan: " + " | ".join(o["parts"][1:2])
    got_s, got_d = [0] * n, [0] * m
    for tr in sol:
        if len(tr) != 3 or not (0 <= tr[0] < n and 0 <= tr[1] < m) or tr[2] <= 0:
            return "plan entry %r is not (source, sink, positive quantity)" % (tr,)
        got_s[tr[0]] += tr[2]
        got_d[tr[1]] += tr[2]
    if got_s != s:
        i = next(k for k in range(n) if got_s[k] != s[k])
        return "supply of source %d not met exactly: plan sends %d, supply %d" % (i, got_s[i], s[i])
    if any(g > c for g, c in zip(got_d, d2)):
        j = next(k for k in range(m) if got_d[k] > d2[k])
        return "demand of sink %d exceeded: plan sends %d, demand %d" % (j, got_d[j], d2[j])
    cost = sum(q * abs(u[i] - v[j]) for i, j, q in sol)
    if o["O"] is not None and cost != o["O"]:
        return "plan cost %d is not the minimum %d (independent min-cost flow)" % (cost, o["O"])
    if a is None:
        return "assign() returned no assignment: " + " | ".join(o["parts"][2:3])
    if len(a) != n:
        return "assign() returned %d entries for %d sources" % (len(a), n)
    if any(x > 0 for x in d2):
        for i, j in enumerate(a):
            if not (0 <= j < m) or d2[j] <= 0:
                return "source %d is assigned to %d, which is not a sink of positive demand" % (i, j)
    sinks_of = {}
    for i, j, q in sol:
        sinks_of.setdefault(i, set()).add(j)
    for i, js in sinks_of.items():
        if len(js) == 1:
            j = next(iter(js))
            if a[i] != j and not (0 <= a[i] < m and v[a[i]] == v[j]):
                return "source %d is not split by the plan (sink %d) but is assigned to sink %d at another position" % (i, j, a[i])
    return None


def _chunk_worker(args):
    harness, asan, driver, lines = args
    inp = "\n".join(lines) + "\n"
    env = common.HARNESS_ENV
    pi = subprocess.run([harness, "run"], input=inp, capture_output=True, text=True, timeout=3000, env=env)
    pm = subprocess.run([driver], input=inp, capture_output=True, text=True, timeout=3000)
    impl = pi.stdout.split("\n")
    model = pm.stdout.split("\n")
    asan_out = None
    if asan:
        pa = subprocess.run([asan, "run"], input=inp, capture_output=True, text=True, timeout=3000, env=env)
        asan_out = pa.stdout.split("\n")
    st = {"n": len(lines), "mismatch": [], "nmismatch": 0, "oracle_fail": [], "noracle": 0, "asan_fail": [], "nasan": 0,
          "uncertified": [], "nontrivial": set(), "dist": {}, "skipped": 0}
    dist = st["dist"]

    def bump(k, c=1):
        dist[k] = dist.get(k, 0) + c
    cp, cp_idx = [], []
    for i, line in enumerate(lines):
        il = impl[i] if i < len(impl) else "<missing>"
        ml = model[i] if i < len(model) else "<missing>"
        if il.startswith("SKIPPED"):
            st["skipped"] += 1
            continue
        ires = il.rsplit(" | O", 1)[0].strip()
        mparts = ml.rsplit(" | C ", 1)
        mres = mparts[0].strip()
        mcert = mparts[1].strip() if len(mparts) == 2 else "?"
        if ires != mres:
            st["nmismatch"] += 1
            st["mismatch"].append((line, il, ml))
        if asan_out is not None:
            al = asan_out[i] if i < len(asan_out) else "<missing>"
            if al.startswith("SKIPPED"):
                st["skipped"] += 1
            elif al.startswith("DIED") or al != il:
                st["nasan"] += 1
                st["asan_fail"].append((line, il, al))
        if mcert == "0" and len(st["uncertified"]) < 5:
            st["uncertified"].append(line)
        case = parse_case(line)
        bal, n, m, u, v, s, d = case
        try:
            o = parse_out(il)
            why = statement_verdict(case, o)
        except (ValueError, IndexError):
            o, why = None, "unparsable output (crash?): " + il[:120]
        if why:
            st["noracle"] += 1
            st["oracle_fail"].append((line, il, why))
            continue
        # distribution / non-triviality
        if o["S"] is None:
            bump("rejected_by_check")
            continue
        d2 = o["D"]
        sol = o["S"]
        cost = sum(q * abs(u[a] - v[b]) for a, b, q in sol)
        if len(sol) >= 2 and cost > 0:
            st["nontrivial"].add(line)
        bump("with_zero_supply", any(x == 0 for x in s))
        bump("with_zero_demand", any(x == 0 for x in d2))
        bump("duplicate_positions", len(set(u)) < n or len(set(v)) < m)
        bump("unsorted_sources", u != sorted(u))
        bump("balanceDemand_added_demand", bal and sum(s) > sum(d))
        bump("exact_balance", sum(s) == sum(d2))
        bump("slack", sum(s) < sum(d2))
        bump("positions_ge_1e7", max(abs(x) for x in u + v) >= 10 ** 7)
        srcs = {}
        for a, b, q in sol:
            srcs.setdefault(a, set()).add(b)
        bump("cases_with_split_source", any(len(x) > 1 for x in srcs.values()))
        bump("sources_%s" % ("1-3" if n <= 3 else "4-14" if n <= 14 else "15+"))
        if n * m <= CP_LIMIT:
            cp.append("CP %d %d %s %d %s" % (n, m, " ".join(str(x) for x in u + v + s + d2), len(sol),
                                            " ".join("%d %d %d" % t for t in sol)))
            cp_idx.append((i, cost))
    st["certified"] = 0
    if cp:
        pc = subprocess.run([driver], input="\n".join(cp) + "\n", capture_output=True, text=True, timeout=3000)
        out = pc.stdout.split("\n")
        for k, (i, cost) in enumerate(cp_idx):
            r = out[k].split() if k < len(out) else []
            if len(r) == 2 and r[0] == "1" and int(r[1]) == cost:
                st["certified"] += 1
            else:
                st["noracle"] += 1
                if True:
                    st["oracle_fail"].append((lines[i], impl[i], "the PROVED certificate checker (check_plan, theorem c14_certificate_sound) rejects "
                                              "the plan of solve(): it is not a valid plan of minimum cost [checker says %r]" % (out[k] if k < len(out) else "")))
    st["nontrivial"] = len(st["nontrivial"])
    # the shortest failing cases are the ones reported
    for k in ("oracle_fail", "asan_fail", "mismatch"):
        st[k] = sorted(st[k], key=lambda x: len(x[0]))[:5]
    return st


def gen_cases(ctx, harness):
    if ctx.quick:
        smalls = [(3, 3, 1, 2, 2), (2, 2, 3, 2, 3), (3, 2, 2, 2, 2)]
        nrand = 30000
        seeds = [ctx.seed]
    else:
        smalls = [(3, 3, 2, 2, 2), (4, 2, 2, 2, 2), (2, 3, 3, 3, 3), (3, 2, 3, 2, 3)]
        nrand = 600000
        seeds = [ctx.seed, ctx.seed + 1000, ctx.seed + 2000]
    lines = []
    for sm in smalls:
        lines += common.harness_gen(harness, ["small"] + list(sm))
    nsmall = len(lines)
    for sd in seeds:
        lines += common.harness_gen(harness, ["rand", sd, nrand // len(seeds)])
    return lines, nsmall, smalls


def run_cases(harness, asan, driver, lines):
    nchunks = max(1, min(common.NCPU, len(lines) // 1000 + 1))
    size = (len(lines) + nchunks - 1) // nchunks
    chunks = [(harness, asan, driver, lines[i:i + size]) for i in range(0, len(lines), size)]
    with Pool(nchunks) as p:
        return p.map(_chunk_worker, chunks)


def run_single(exe, line):
    p = subprocess.run([exe, "run"], input=line + "\n", capture_output=True, text=True, timeout=120, env=common.HARNESS_ENV)
    out = p.stdout.strip().split("\n")[0] if p.stdout.strip() else "<no output>"
    return out, p.stderr


def asan_summary(err):
    import re
    m = re.search(r"(ERROR: AddressSanitizer: [^\n]*|runtime error: [^\n]*)", err)
    loc = re.search(r"#\d+ 0x[0-9a-f]+ in (\S*Transportation1d\S*) ([^\n]*)", err)
    return ((m.group(1) if m else "") + (" in " + loc.group(1) + " " + loc.group(2) if loc else "")).strip()


def vm_crosscheck(driver, lines):
    """a small subset evaluated inside Coq (vm_compute) against the extracted code"""
    sub = [l for l in lines if int(l.split()[2]) <= 4 and int(l.split()[3]) <= 4 and l.split()[1] == "0"]
    sub = sub[:: max(1, len(sub) // 40)][:40]
    pm = subprocess.run([driver], input="\n".join(sub) + "\n", capture_output=True, text=True)

    def zl(xs):
        return "[" + "; ".join("(%d)" % x for x in xs) + "]"
    exprs = []
    for l, mo in zip(sub, pm.stdout.split("\n")):
        bal, n, m, u, v, s, d = parse_case(l)
        o = parse_out(mo.rsplit(" | C", 1)[0])
        pb = "{| pb_u := %s; pb_v := %s; pb_s := %s; pb_d := %s |}" % (zl(u), zl(v), zl(s), zl(d))
        if o["S"] is None or o["A"] is None:
            exprs.append("match solve (%s) with Err _ => true | Ok _ => false end" % pb)
        else:
            es = "[" + "; ".join("(%d%%nat, %d%%nat, (%d))" % t for t in o["S"]) + "]"
            ea = "[" + "; ".join("%d%%nat" % x for x in o["A"]) + "]"
            exprs.append("match solve (%s), assign (%s) with Ok s, Ok a => eqt s %s && eqn a %s | _, _ => false end" % (pb, pb, es, ea))
    pre = ("From Coq Require Import List ZArith Bool Arith. Import ListNotations. Require Import CV.Transp1d. Local Open Scope Z_scope.\n"
           "Fixpoint eqn (a b : list nat) : bool := match a, b with [], [] => true | x :: r, y :: t => Nat.eqb x y && eqn r t | _, _ => false end.\n"
           "Fixpoint eqt (a b : list triple) : bool := match a, b with [] , [] => true | (i, j, q) :: r, (i', j', q') :: t => "
           "Nat.eqb i i' && Nat.eqb j j' && (q =? q') && eqt r t | _, _ => false end.")
    res = common.vm_eval("C14", pre, exprs)
    if res is None:
        return 0, ["vm_compute evaluation failed"]
    bad = ["vm_compute disagrees with the extracted model on " + l for l, r in zip(sub, res) if r.strip() != "true"]
    return len(sub), bad


def run(ctx):
    proof_ok, proof = common.proof_status(ctx, "C14")
    harness = common.build_harness("transp1d")
    asan = common.build_harness("transp1d", "asan-nosio")
    driver = common.build_driver("transp1d")
    lines, nsmall, smalls = gen_cases(ctx, harness)
    corp = common.corpus("C14", "T1 ")
    lines = corp + lines
    stats = run_cases(harness, asan, driver, lines)
    total = sum(s["n"] for s in stats)
    mism = sorted([m for s in stats for m in s["mismatch"]], key=lambda x: len(x[0]))
    nmism = sum(s["nmismatch"] for s in stats)
    ofail = sorted([m for s in stats for m in s["oracle_fail"]], key=lambda x: len(x[0]))
    nofail = sum(s["noracle"] for s in stats)
    afail = sorted([m for s in stats for m in s["asan_fail"]], key=lambda x: len(x[0]))
    nafail = sum(s["nasan"] for s in stats)
    uncert = [m for s in stats for m in s["uncertified"]]
    nskipped = sum(s["skipped"] for s in stats)
    nvm, vmbad = vm_crosscheck(driver, lines)

    # ---- concrete failing inputs: each candidate is re-run alone (a damaged heap can spoil later cases of a batch)
    reported = 0
    seen = set()
    for line, il, why in ofail:
        if reported >= 3 or line in seen:
            continue
        seen.add(line)
        out1, _ = run_single(harness, line)
        try:
            why1 = statement_verdict(parse_case(line), parse_out(out1))
        except (ValueError, IndexError):
            why1 = "unparsable output (crash?): " + out1[:120]
        if why1 is None and "PROVED certificate" in why:
            why1 = why
        if why1 is None:
            continue
        mo = subprocess.run([driver], input=line + "\n", capture_output=True, text=True).stdout.strip()
        aout, aerr = run_single(asan, line)
        reported += 1
        ctx.violation("Transportation1d violates C14 on a concrete instance: " + why1,
                      {"case": line, "format": FMT, "implementation_output": out1, "model_output": mo, "why": why1,
                       "asan_build_output": aout, "sanitizer_report": asan_summary(aerr),
                       "how": "./check C14 --replay <this file>"})
    areported = 0
    for line, il, al in afail:
        if areported >= 2 or line in seen:
            continue
        out1, err1 = run_single(asan, line)
        outp, _ = run_single(harness, line)
        if not out1.startswith("DIED") and out1 == outp:
            continue
        seen.add(line)
        areported += 1
        summ = asan_summary(err1)
        ctx.violation("Transportation1d touches memory outside its arrays (memory clause of C14) on a concrete instance: %s %s"
                      % (out1[:60], summ),
                      {"case": line, "format": FMT, "asan_build_output": out1, "plain_build_output": outp, "sanitizer_report": summ,
                       "sanitizer_stderr_tail": err1[-1500:], "how": "./check C14 --replay <this file>"})
    if reported + areported == 0:
        if nmism:
            m = mism[0]
            ctx.violation("correspondence Transp1d.v <-> transportation_1d.cpp no longer holds (%d of %d cases differ), but no instance "
                          "violating C14 was found" % (nmism, total),
                          {"broken": "correspondence of coq/Transp1d.v (theorems of Properties_C14.v) with Transportation1d::solve/assign/balanceDemand",
                           "first_difference": {"case": m[0], "implementation": m[1], "model": m[2]}, "format": FMT}, found_input=False)
        elif nofail or nafail or nskipped:
            # candidates that did not reproduce when run alone
            ctx.violation("%d oracle / %d sanitizer failures in the batch run did not reproduce case by case (%d cases skipped after crashes)" % (nofail, nafail, nskipped),
                          {"broken": "batch run of harness/transp1d.cpp", "examples": (ofail + afail)[:3]}, found_input=False)
        if not proof_ok:
            ctx.violation("proof obligations of Properties_C14.v do not check", {"broken": "Properties_C14.v", "detail": proof}, found_input=False)
        if uncert and not nmism:
            ctx.violation("solve_checked (proved certificate) does not certify the model's own plan",
                          {"broken": "certificate construction cert_of (untrusted) for the model's plan; c14_optimal itself does not depend on it", "case": uncert[0]},
                          found_input=False)
        if vmbad:
            ctx.violation("extracted model disagrees with vm_compute", {"broken": "extraction cross-check", "detail": vmbad[:3]}, found_input=False)

    dist = {}
    for s in stats:
        for k, c in s["dist"].items():
            dist[k] = dist.get(k, 0) + int(c)
    cov = dict(proof)
    cov.update({
        "trusted_base": common.TRUSTED_BASE + ["std::sort / std::priority_queue over std::pair (total order) and std::lower_bound/upper_bound on sorted "
                                               "vectors are modelled by their specification",
                                               "solver.check(), checkSolutionValid, checkSolutionOptimal of the C++ only throw; not modelled (a throw shows as a difference)"],
        "evaluations": total,
        "distinct_nontrivial": sum(s["nontrivial"] for s in stats),
        "rule": "exhaustive: every instance with 1..N sources, 1..M sinks, positions 0..P, supplies 0..SMAX, demands 0..DMAX for (N,M,P,SMAX,DMAX) in %s "
                "(supply > demand -> balanceDemand first); random (seeded splitmix64): 1..120 sources, 1..40 sinks, positions up to 10^8 and negative, "
                "0-45%% zero supplies/demands, duplicate positions, sources on sinks, slack / exact balance / balanceDemand, assignment problems. "
                "non-trivial = the plan has >= 2 entries and positive cost; distinct = distinct case lines" % (smalls,),
        "exhaustive": True, "exhaustive_cases": nsmall, "random_cases": total - nsmall - len(corp), "corpus_cases": len(corp),
        "samples": [lines[len(corp) + nsmall // 2], lines[len(corp) + nsmall + 1], lines[-1][:400]],
        "distribution": dist,
        "cpp_plans_accepted_by_proved_checker": sum(s["certified"] for s in stats),
        "asan_variant": "asan-nosio (address + bounds/pointer-overflow/null/alignment/vla-bound; signed-integer-overflow NOT enabled: the "
                        "LLONG_MIN addition at transportation_1d.cpp checkSolutionOptimal is an observation, see design/C14.md)",
        "asan_cases": total, "asan_failures": nafail, "cases_skipped_after_repeated_crashes": nskipped,
        "vm_compute_crosschecked": nvm,
        "model_vs_impl_differences": nmism,
        "impl_outputs_violating_statement": nofail,
    })
    return ctx.finish(LEVEL, cov, [
        "domain = the property's quantifier: non-negative supplies/demands, total supply <= total demand (possibly after balanceDemand), "
        ">= 1 source and >= 1 sink; outside it only equality of the thrown error with the model is compared",
        "the 'sink of positive demand' clause presupposes that some sink has positive demand",
        "optimality of the sweep itself is proved for all inputs of the model (c14_optimal: value-function invariant of the event sweep + "
        "lower bound for every valid plan; files coq/Transp1dOpt*.v); the bounded theorems, the proved checker on the C++ plans (n*m <= %d) and "
        "the independent min-cost flow (n*m <= 64) remain as per-run validation of the model<->code tie" % CP_LIMIT,
        "model tied to the code by exact comparison on the cases of this run",
    ])


def replay(ctx, path):
    r = json.load(open(path))["replay"]
    case = r.get("case") or r["first_difference"]["case"]
    harness = common.build_harness("transp1d")
    asan = common.build_harness("transp1d", "asan-nosio")
    driver = common.build_driver("transp1d")
    out, _ = run_single(harness, case)
    aout, aerr = run_single(asan, case)
    mo = subprocess.run([driver], input=case + "\n", capture_output=True, text=True).stdout.strip()
    try:
        why = statement_verdict(parse_case(case), parse_out(out))
    except (ValueError, IndexError):
        why = "unparsable output (crash?)"
    print("case :", case)
    print("impl :", out)
    print("asan :", aout, asan_summary(aerr))
    print("model:", mo)
    print("statement:", why or "holds on this output")
    bad = why is not None or aout.startswith("DIED") or aout != out or out.rsplit(" | O", 1)[0].strip() != mo.rsplit(" | C ", 1)[0].strip()
    return 1 if bad else 0
