"""C14 -- one-dimensional transportation is optimal and its rounding is memory-safe.
Proof: coq/Properties_C14.v (plan validity, termination, assignment shape/unsplit, no out-of-bounds access for the
repaired code in computeAssignment / convertAssignmentBack, F11 witness for the unchanged one, certificate soundness, optimality for all
inputs without size bound (c14_optimal) + bounded cross-checks).
Tie: EXACT diff of Transportation1d::balanceDemand/solve()/assign() (compiled from /repo's working tree) against the
extracted model on exhaustive small-bounds + random instances (incl. the stream `big`: amounts up to 2^40, totals past 2^31 and
2^32 -- the model is over Z, so an accumulator narrower than long long shows); the same cases under ASan (bounds/pointer groups,
no signed-overflow group) for the memory clause.  Search: the statement itself is evaluated on the C++ output
(independent Python oracle for validity / assignment, independent min-cost-flow optimum in the harness, the PROVED
certificate checker check_plan on the C++ plan)."""
import json
import os
import subprocess
from multiprocessing import Pool

from tools import common

LEVEL = "proof"
CP_LIMIT = 600          # the proved checker is evaluated on the C++ plan when n*m <= CP_LIMIT
FMT = ("T1 bal n m u_1..u_n v_1..v_m s_1..s_n d_1..d_m (bal=1: balanceDemand() first); result "
       "'D demands | S i j a;... | A assignment | O independent optimum'.  TS n m k u.. v.. (bal s.. d..)*k: k problems on the same "
       "positions handled one after the other in one process, results joined by ' || '.  TO n m k u.. v.. s.. d.. op_1..op_k: the calls "
       "op_i (0 solve, 1 assign, 2 balanceDemand, 3 solve then assign) on ONE object; per call 'op # demands before # result of the ONE "
       "object # result of fresh objects on the object's data' (see harness/transp1d.cpp)")


def parse_case(line):
    t = line.split()
    bal, n, m = int(t[1]), int(t[2]), int(t[3])
    x = [int(y) for y in t[4:]]
    return bal, n, m, x[:n], x[n:n + m], x[n + m:2 * n + m], x[2 * n + m:2 * n + 2 * m]


def parse_out(out):
    """-> dict with D (list|None), S (list of triples|None), A (list|None), O (int|None), raw parts"""
    parts = [p.strip() for p in out.split(" | ")]
    r = {"D": None, "S": None, "A": None, "O": None, "parts": parts}
    for p in parts:
        if p == "D" or p.startswith("D "):
            r["D"] = [int(y) for y in p[1:].split()]
        elif p == "S" or p.startswith("S "):
            body = p[1:].strip()
            r["S"] = [tuple(int(y) for y in tr.split()) for tr in body.split(";")] if body else []
        elif p == "A" or p.startswith("A "):
            r["A"] = [int(y) for y in p[1:].split()]
        elif p.startswith("O "):
            r["O"] = None if p[2:].strip() == "-" else int(p[2:])
    return r


def statement_verdict(case, o):
    """the statement of C14 evaluated on the implementation's output; returns None or a reason (string)"""
    bal, n, m, u, v, s, d = case
    if any(x < 0 for x in s) or any(x < 0 for x in d):
        return None                                   # outside the quantifier (check() must throw: compared with the model)
    if not bal and sum(s) > sum(d):
        return None                                   # supply > demand and no balanceDemand(): outside the quantifier (compared with the model)
    if o["D"] is None or len(o["D"]) != m:
        return "balanceDemand did not return the demands: " + o["parts"][0][:80]
    d2 = o["D"]
    ts, td = sum(s), sum(d)
    if bal:
        if any(b < a for a, b in zip(d, d2)):
            return "balanceDemand lowered a demand"
        if sum(d2) != max(ts, td):
            return "balanceDemand: total demand %d, expected %d" % (sum(d2), max(ts, td))
    elif d2 != d:
        return "demands changed without balanceDemand"
    if ts > sum(d2):
        return None                                   # supply > demand: outside the quantifier (check() throws)
    if n < 1 or m < 1:
        return None
    sol, a = o["S"], o["A"]
    if sol is None:
        return "solve() returned no plan: " + " | ".join(o["parts"][1:2])
    got_s, got_d = [0] * n, [0] * m
    for tr in sol:
        if len(tr) != 3 or not (0 <= tr[0] < n and 0 <= tr[1] < m) or tr[2] <= 0:
            return "plan entry %r is not (source, sink, positive quantity)" % (tr,)
        got_s[tr[0]] += tr[2]
        got_d[tr[1]] += tr[2]
    if got_s != s:
        i = next(k for k in range(n) if got_s[k] != s[k])
        return "supply of source %d not met exactly: plan sends %d, supply %d" % (i, got_s[i], s[i])
    if any(g > c for g, c in zip(got_d, d2)):
        j = next(k for k in range(m) if got_d[k] > d2[k])
        return "demand of sink %d exceeded: plan sends %d, demand %d" % (j, got_d[j], d2[j])
    cost = sum(q * abs(u[i] - v[j]) for i, j, q in sol)
    if o["O"] is not None and cost != o["O"]:
        return "plan cost %d is not the minimum %d (independent min-cost flow)" % (cost, o["O"])
    if a is None:
        return "assign() returned no assignment: " + " | ".join(o["parts"][2:3])
    if len(a) != n:
        return "assign() returned %d entries for %d sources" % (len(a), n)
    if any(x > 0 for x in d2):
        for i, j in enumerate(a):
            if not (0 <= j < m) or d2[j] <= 0:
                return "source %d is assigned to %d, which is not a sink of positive demand" % (i, j)
    sinks_of = {}
    for i, j, q in sol:
        sinks_of.setdefault(i, set()).add(j)
    for i, js in sinks_of.items():
        if len(js) == 1:
            j = next(iter(js))
            if a[i] != j and not (0 <= a[i] < m and v[a[i]] == v[j]):
                return "source %d is not split by the plan (sink %d) but is assigned to sink %d at another position" % (i, j, a[i])
    return None


def t1_line(bal, n, m, u, v, s, d):
    return "T1 %d %d %d %s" % (bal, n, m, " ".join(str(x) for x in list(u) + list(v) + list(s) + list(d)))


OPNAME = {0: "solve()", 1: "assign()", 2: "balanceDemand()", 3: "solve() then assign()"}


def units_of(line, il):
    """one case line + the implementation's result line -> list of (T1 problem line, T1-style implementation output, label).
    T1: itself.  TS (problems on shared positions, one after the other): one unit per problem.  TO (calls on ONE object): per call
    one unit with the parts returned by the ONE object and one unit with the fresh objects' results; the problem of a unit is the
    object's data before the call (bal=1 for balanceDemand()), as reported by the harness.  None when the output has not that shape."""
    t = line.split()
    if t[0] == "T1":
        return [(line, il, "")]
    n, m, k = int(t[1]), int(t[2]), int(t[3])
    x = [int(y) for y in t[4:]]
    u, v = x[:n], x[n:n + m]
    if t[0] == "TS":
        outs = il.split(" || ")
        if len(outs) != k:
            return None
        r = []
        for q in range(k):
            o = n + m + q * (1 + n + m)
            r.append((t1_line(x[o], n, m, u, v, x[o + 1:o + 1 + n], x[o + 1 + n:o + 1 + n + m]), outs[q],
                      "problem %d of %d solved one after the other on the same positions" % (q + 1, k)))
        return r
    # TO
    s = x[n + m:2 * n + m]
    ops = x[2 * n + 2 * m:]
    steps = il.split(" || ")
    if len(steps) != k:
        return None
    r = []
    for q, st_ in enumerate(steps):
        f = [y.strip() for y in st_.split(" # ")]
        if len(f) != 4 or f[0] != str(ops[q]):
            return None
        try:
            before = [int(y) for y in f[1].split()]
        except ValueError:
            return None
        if len(before) != m:
            return None
        pl = t1_line(1 if ops[q] == 2 else 0, n, m, u, v, s, before)
        hist = " ".join(OPNAME[o] for o in ops[:q])
        r.append((pl, f[2], "call %d, %s, on the ONE object (calls before it: %s)" % (q + 1, OPNAME[ops[q]], hist or "none")))
        if f[3] != f[2]:
            r.append((pl, f[3], "fresh objects built from the data of the ONE object after call %d (%s)" % (q + 1, OPNAME[ops[q]])))
    return r


def verdict_line(line, out):
    """the statement evaluated on every problem / call of one case line; None or the first reason"""
    us = units_of(line, out)
    if us is None:
        return ("a call did not return within the CPU limit / the process died: " if out.startswith("DIED") else "unparsable output (crash?): ") + out[:120]
    for pl, o, lb in us:
        try:
            why = statement_verdict(parse_case(pl), parse_out(o))
        except (ValueError, IndexError):
            why = "unparsable output (crash?): " + o[:120]
        if why:
            return why + ((" [" + lb + "]") if lb else "")
    return None


def model_of(driver, line, out):
    us = units_of(line, out) or []
    if not us:
        return ""
    mo = subprocess.run([driver], input="\n".join(x[0] for x in us) + "\n", capture_output=True, text=True).stdout.strip().split("\n")
    return " || ".join(mo)


def _chunk_worker(args):
    harness, asan, driver, full_lines = args
    inp = "\n".join(full_lines) + "\n"
    env = common.HARNESS_ENV
    pi = subprocess.run([harness, "run"], input=inp, capture_output=True, text=True, timeout=3000, env=env)
    impl_full = pi.stdout.split("\n")
    asan_full = None
    if asan:
        pa = subprocess.run([asan, "run"], input=inp, capture_output=True, text=True, timeout=3000, env=env)
        asan_full = pa.stdout.split("\n")
    # units: the T1 problems the model is asked, each with the implementation's answer to it
    lines, impl, origin, label, shapeless = [], [], [], [], []
    for i, fl in enumerate(full_lines):
        il = impl_full[i] if i < len(impl_full) else "<missing>"
        us = [(fl, il, "")] if il.startswith("SKIPPED") else units_of(fl, il)
        if us is None:
            shapeless.append((fl, il, "a call did not return within the CPU limit / the process died: " + il[:100] if il.startswith("DIED")
                              else "unparsable output (crash?): " + il[:120]))
            continue
        for pl, o, lb in us:
            lines.append(pl)
            impl.append(o)
            origin.append(i)
            label.append(lb)
    pm = subprocess.run([driver], input="\n".join(lines) + "\n", capture_output=True, text=True, timeout=3000)
    model = pm.stdout.split("\n")
    st = {"n": len(full_lines), "units": len(lines), "mismatch": [], "nmismatch": 0, "oracle_fail": [], "noracle": 0, "asan_fail": [], "nasan": 0,
          "uncertified": [], "nontrivial": set(), "dist": {}, "skipped": 0}
    dist = st["dist"]

    def bump(k, c=1):
        dist[k] = dist.get(k, 0) + c
    cp, cp_idx = [], []
    for fl, il, why in shapeless:
        st["noracle"] += 1
        st["oracle_fail"].append((fl, il, why))
    if asan_full is not None:
        for i, fl in enumerate(full_lines):
            il = impl_full[i] if i < len(impl_full) else "<missing>"
            al = asan_full[i] if i < len(asan_full) else "<missing>"
            if al.startswith("SKIPPED") or il.startswith("SKIPPED"):
                st["skipped"] += al.startswith("SKIPPED")
            elif al.startswith("DIED") or al != il:
                st["nasan"] += 1
                st["asan_fail"].append((fl, il, al))
    for fl in full_lines:
        bump("case_lines_" + fl[:2])
    for i, line in enumerate(lines):
        fl, ifull, lb = full_lines[origin[i]], impl_full[origin[i]], label[i]
        lb = (" [" + lb + "]") if lb else ""
        il = impl[i] if i < len(impl) else "<missing>"
        ml = model[i] if i < len(model) else "<missing>"
        if il.startswith("SKIPPED"):
            st["skipped"] += 1
            continue
        ires = il.rsplit(" | O", 1)[0].strip()
        mparts = ml.rsplit(" | C ", 1)
        mres = mparts[0].strip()
        mcert = mparts[1].strip() if len(mparts) == 2 else "?"
        if ires != mres:
            st["nmismatch"] += 1
            st["mismatch"].append((fl, ifull, "problem %s%s: implementation %s; model %s" % (line, lb, il, ml)))
        if mcert == "0" and len(st["uncertified"]) < 5:
            st["uncertified"].append(line)
        case = parse_case(line)
        bal, n, m, u, v, s, d = case
        try:
            o = parse_out(il)
            why = statement_verdict(case, o)
        except (ValueError, IndexError):
            o, why = None, "unparsable output (crash?): " + il[:120]
        if why:
            st["noracle"] += 1
            st["oracle_fail"].append((fl, ifull, why + lb))
            continue
        # distribution / non-triviality
        if o["S"] is None:
            bump("rejected_by_check")
            continue
        d2 = o["D"]
        sol = o["S"]
        cost = sum(q * abs(u[a] - v[b]) for a, b, q in sol)
        if len(sol) >= 2 and cost > 0:
            st["nontrivial"].add(fl)
        bump("with_zero_supply", any(x == 0 for x in s))
        bump("with_zero_demand", any(x == 0 for x in d2))
        bump("duplicate_positions", len(set(u)) < n or len(set(v)) < m)
        bump("unsorted_sources", u != sorted(u))
        bump("balanceDemand_added_demand", bal and sum(s) > sum(d))
        bump("exact_balance", sum(s) == sum(d2))
        bump("slack", sum(s) < sum(d2))
        bump("positions_ge_1e7", max(abs(x) for x in u + v) >= 10 ** 7)
        tmax = max(sum(s), sum(d2))
        bump("total_supply_or_demand_ge_2^31", tmax >= 2 ** 31)
        bump("total_supply_or_demand_ge_2^32", tmax >= 2 ** 32)
        bump("total_supply_ge_2^31", sum(s) >= 2 ** 31)
        bump("totals_ge_2^31_with_every_entry_lt_2^31", tmax >= 2 ** 31 and max(s + d2) < 2 ** 31)
        bump("an_entry_ge_2^36", max(s + d2) >= 2 ** 36)
        bump("balanceDemand_added_ge_2^31", bool(bal) and sum(s) - sum(d) >= 2 ** 31)
        bump("large_totals_with_independent_optimum", tmax >= 2 ** 31 and o["O"] is not None)
        srcs = {}
        for a, b, q in sol:
            srcs.setdefault(a, set()).add(b)
        bump("cases_with_split_source", any(len(x) > 1 for x in srcs.values()))
        bump("sources_%s" % ("1-3" if n <= 3 else "4-14" if n <= 14 else "15+"))
        if n * m <= CP_LIMIT and cost >= 2 ** 61:
            bump("plans_not_sent_to_the_proved_checker_cost_ge_2^61_beyond_the_driver_glue_63_bit_ints")
        if n * m <= CP_LIMIT and cost < 2 ** 61:       # (the OCaml driver prints the checker's cost through a 63-bit int)
            cp.append("CP %d %d %s %d %s" % (n, m, " ".join(str(x) for x in u + v + s + d2), len(sol),
                                            " ".join("%d %d %d" % t for t in sol)))
            cp_idx.append((i, cost))
            bump("plans_of_ONE_object_calls_or_shared_position_sequences_sent_to_the_proved_checker", bool(lb))
    st["certified"] = 0
    if cp:
        pc = subprocess.run([driver], input="\n".join(cp) + "\n", capture_output=True, text=True, timeout=3000)
        out = pc.stdout.split("\n")
        for k, (i, cost) in enumerate(cp_idx):
            r = out[k].split() if k < len(out) else []
            if len(r) == 2 and r[0] == "1" and int(r[1]) == cost:
                st["certified"] += 1
            else:
                st["noracle"] += 1
                if True:
                    st["oracle_fail"].append((full_lines[origin[i]], impl_full[origin[i]], (" [" + label[i] + "] " if label[i] else "") + "the PROVED certificate checker (check_plan, theorem c14_certificate_sound) rejects "
                                              "the plan of solve(): it is not a valid plan of minimum cost [checker says %r]" % (out[k] if k < len(out) else "")))
    st["nontrivial"] = len(st["nontrivial"])
    # the shortest failing cases are the ones reported
    for k in ("oracle_fail", "asan_fail", "mismatch"):
        # (per kind of case line: a failure that depends on what the process did before shows on T1 lines too, but only the
        #  self-contained TS / TO lines reproduce it when run alone)
        st[k] = [y for tag in ("T1", "TS", "TO") for y in sorted([x for x in st[k] if x[0].startswith(tag)], key=lambda x: len(x[0]))[:5]]
    return st


def gen_cases(ctx, harness):
    if ctx.quick:
        smalls = [(3, 3, 1, 2, 2), (2, 2, 3, 2, 3), (3, 2, 2, 2, 2)]
        nrand = 30000
        seeds = [ctx.seed]
    else:
        smalls = [(3, 3, 2, 2, 2), (4, 2, 2, 2, 2), (2, 3, 3, 3, 3), (3, 2, 3, 2, 3)]
        nrand = 600000
        seeds = [ctx.seed, ctx.seed + 1000, ctx.seed + 2000]
    lines = []
    for sm in smalls:
        lines += common.harness_gen(harness, ["small"] + list(sm))
    nsmall = len(lines)
    for sd in seeds:
        lines += common.harness_gen(harness, ["rand", sd, nrand // len(seeds)])
    # state surviving between calls / objects: problems on shared positions one after the other (TS), calls on ONE object (TO)
    full = 0 if ctx.quick else 1
    hist = common.harness_gen(harness, ["seqsmall", full]) + common.harness_gen(harness, ["objsmall", full])
    nhist = (4000, 4000) if ctx.quick else (120000, 120000)
    for sd in seeds:
        hist += common.harness_gen(harness, ["seq", sd + 31, nhist[0] // len(seeds)])
        hist += common.harness_gen(harness, ["obj", sd + 57, nhist[1] // len(seeds)])
    # LARGE amounts: totals pass 2^31 and 2^32 (an accumulator narrower than long long shows as a refused feasible problem / a wrong balanceDemand)
    big = []
    nbig = 8000 if ctx.quick else 150000
    for sd in seeds:
        big += common.harness_gen(harness, ["big", sd + 83, nbig // len(seeds)])
    return lines, nsmall, smalls, hist, big


def run_cases(harness, asan, driver, lines):
    nchunks = max(1, min(common.NCPU, len(lines) // 1000 + 1))
    # blocks of 256 consecutive case lines dealt round-robin: the heavier streams are spread over all workers
    blocks = [lines[i:i + 256] for i in range(0, len(lines), 256)]
    chunks = [(harness, asan, driver, [l for b in blocks[k::nchunks] for l in b]) for k in range(nchunks)]
    with Pool(nchunks) as p:
        return p.map(_chunk_worker, chunks)


def run_single(exe, line):
    p = subprocess.run([exe, "run"], input=line + "\n", capture_output=True, text=True, timeout=120, env=common.HARNESS_ENV)
    out = p.stdout.strip().split("\n")[0] if p.stdout.strip() else "<no output>"
    return out, p.stderr


def asan_summary(err):
    import re
    m = re.search(r"(ERROR: AddressSanitizer: [^\n]*|runtime error: [^\n]*)", err)
    loc = re.search(r"#\d+ 0x[0-9a-f]+ in (\S*Transportation1d\S*) ([^\n]*)", err)
    return ((m.group(1) if m else "") + (" in " + loc.group(1) + " " + loc.group(2) if loc else "")).strip()


def vm_crosscheck(driver, lines):
    """a small subset evaluated inside Coq (vm_compute) against the extracted code"""
    sub = [l for l in lines if l.startswith("T1 ") and int(l.split()[2]) <= 4 and int(l.split()[3]) <= 4 and l.split()[1] == "0"]
    sub = sub[:: max(1, len(sub) // 40)][:40]
    pm = subprocess.run([driver], input="\n".join(sub) + "\n", capture_output=True, text=True)

    def zl(xs):
        return "[" + "; ".join("(%d)" % x for x in xs) + "]"
    exprs = []
    for l, mo in zip(sub, pm.stdout.split("\n")):
        bal, n, m, u, v, s, d = parse_case(l)
        o = parse_out(mo.rsplit(" | C", 1)[0])
        pb = "{| pb_u := %s; pb_v := %s; pb_s := %s; pb_d := %s |}" % (zl(u), zl(v), zl(s), zl(d))
        if o["S"] is None or o["A"] is None:
            exprs.append("match solve (%s) with Err _ => true | Ok _ => false end" % pb)
        else:
            es = "[" + "; ".join("(%d%%nat, %d%%nat, (%d))" % t for t in o["S"]) + "]"
            ea = "[" + "; ".join("%d%%nat" % x for x in o["A"]) + "]"
            exprs.append("match solve (%s), assign (%s) with Ok s, Ok a => eqt s %s && eqn a %s | _, _ => false end" % (pb, pb, es, ea))
    pre = ("From Coq Require Import List ZArith Bool Arith. Import ListNotations. Require Import CV.Transp1d. Local Open Scope Z_scope.\n"
           "Fixpoint eqn (a b : list nat) : bool := match a, b with [], [] => true | x :: r, y :: t => Nat.eqb x y && eqn r t | _, _ => false end.\n"
           "Fixpoint eqt (a b : list triple) : bool := match a, b with [] , [] => true | (i, j, q) :: r, (i', j', q') :: t => "
           "Nat.eqb i i' && Nat.eqb j j' && (q =? q') && eqt r t | _, _ => false end.")
    res = common.vm_eval("C14", pre, exprs)
    if res is None:
        return 0, ["vm_compute evaluation failed"]
    bad = ["vm_compute disagrees with the extracted model on " + l for l, r in zip(sub, res) if r.strip() != "true"]
    return len(sub), bad


def run(ctx):
    proof_ok, proof = common.proof_status_all(ctx, "C14", ["gaps2_C14"])
    harness = common.build_harness("transp1d")
    asan = common.build_harness("transp1d", "asan-nosio")
    driver = common.build_driver("transp1d")
    lines, nsmall, smalls, hist, big = gen_cases(ctx, harness)
    nhist = len(hist)
    nbig = len(big)
    corp = common.corpus("C14", "T1 ")
    # the self-contained history cases first: when a defect makes the workers die / hang, the budget of crashes is spent on
    # cases that reproduce when run alone
    lines = hist + big + corp + lines
    stats = run_cases(harness, asan, driver, lines)
    total = sum(s["n"] for s in stats)
    mism = sorted([m for s in stats for m in s["mismatch"]], key=lambda x: len(x[0]))
    nmism = sum(s["nmismatch"] for s in stats)
    ofail = sorted([m for s in stats for m in s["oracle_fail"]], key=lambda x: len(x[0]))
    nofail = sum(s["noracle"] for s in stats)
    afail = sorted([m for s in stats for m in s["asan_fail"]], key=lambda x: len(x[0]))
    nafail = sum(s["nasan"] for s in stats)
    uncert = [m for s in stats for m in s["uncertified"]]
    nskipped = sum(s["skipped"] for s in stats)
    nvm, vmbad = vm_crosscheck(driver, lines)

    # ---- concrete failing inputs: each candidate is re-run alone (a damaged heap can spoil later cases of a batch)
    reported = 0
    seen = set()
    import time
    t_rerun = time.time()
    for line, il, why in ofail:
        if reported >= 3 or line in seen or time.time() - t_rerun > 150:      # (re-running hanging candidates is slow)
            continue
        seen.add(line)
        out1, _ = run_single(harness, line)
        why1 = verdict_line(line, out1)
        if why1 is None and "PROVED certificate" in why and out1 == il:
            why1 = why
        if why1 is None:
            continue
        mo = model_of(driver, line, out1)
        aout, aerr = run_single(asan, line)
        reported += 1
        ctx.violation("Transportation1d violates C14 on a concrete instance: " + why1,
                      {"case": line, "format": FMT, "implementation_output": out1, "model_output": mo, "why": why1,
                       "asan_build_output": aout, "sanitizer_report": asan_summary(aerr),
                       "how": "./check C14 --replay <this file>"})
    areported = 0
    for line, il, al in afail:
        if areported >= 2 or line in seen or time.time() - t_rerun > 240:
            continue
        out1, err1 = run_single(asan, line)
        outp, _ = run_single(harness, line)
        if out1 == outp and (not out1.startswith("DIED") or out1.startswith("DIED timeout")):
            continue        # (a call that returns in neither build is reported above, as a violation of the main clause)
        seen.add(line)
        areported += 1
        summ = asan_summary(err1)
        ctx.violation("Transportation1d touches memory outside its arrays (memory clause of C14) on a concrete instance: %s %s"
                      % (out1[:60], summ),
                      {"case": line, "format": FMT, "asan_build_output": out1, "plain_build_output": outp, "sanitizer_report": summ,
                       "sanitizer_stderr_tail": err1[-1500:], "how": "./check C14 --replay <this file>"})
    if reported + areported == 0:
        if nmism:
            m = mism[0]
            ctx.violation("correspondence Transp1d.v <-> transportation_1d.cpp no longer holds (%d of %d cases differ), but no instance "
                          "violating C14 was found" % (nmism, total),
                          {"broken": "correspondence of coq/Transp1d.v (theorems of Properties_C14.v) with Transportation1d::solve/assign/balanceDemand",
                           "first_difference": {"case": m[0], "implementation": m[1], "model": m[2]}, "format": FMT}, found_input=False)
        elif nofail or nafail or nskipped:
            # candidates that did not reproduce when run alone
            ctx.violation("%d oracle / %d sanitizer failures in the batch run did not reproduce case by case (%d cases skipped after crashes)" % (nofail, nafail, nskipped),
                          {"broken": "batch run of harness/transp1d.cpp", "examples": (ofail + afail)[:3]}, found_input=False)
        if not proof_ok:
            ctx.violation("proof obligations of Properties_C14.v do not check", {"broken": "Properties_C14.v", "detail": proof}, found_input=False)
        if uncert and not nmism:
            ctx.violation("solve_checked (proved certificate) does not certify the model's own plan",
                          {"broken": "certificate construction cert_of (untrusted) for the model's plan; c14_optimal itself does not depend on it", "case": uncert[0]},
                          found_input=False)
        if vmbad:
            ctx.violation("extracted model disagrees with vm_compute", {"broken": "extraction cross-check", "detail": vmbad[:3]}, found_input=False)

    dist = {}
    for s in stats:
        for k, c in s["dist"].items():
            dist[k] = dist.get(k, 0) + int(c)
    cov = dict(proof)
    cov.update({
        "trusted_base": common.TRUSTED_BASE + ["std::sort / std::priority_queue over std::pair (total order) and std::lower_bound/upper_bound on sorted "
                                               "vectors are modelled by their specification",
                                               "solver.check(), checkSolutionValid, checkSolutionOptimal of the C++ only throw; not modelled (a throw shows as a difference)"],
        "evaluations": total,
        "distinct_nontrivial": sum(s["nontrivial"] for s in stats),
        "rule": "exhaustive: every instance with 1..N sources, 1..M sinks, positions 0..P, supplies 0..SMAX, demands 0..DMAX for (N,M,P,SMAX,DMAX) in %s "
                "(supply > demand -> balanceDemand first); random (seeded splitmix64): 1..120 sources, 1..40 sinks, positions up to 10^8 and negative, "
                "0-45%% zero supplies/demands, duplicate positions, sources on sinks, slack / exact balance / balanceDemand, assignment problems. "
                "STATE BETWEEN CALLS / OBJECTS (%d case lines): TS = 2..4 problems (then the same in reverse order) on the SAME source and sink "
                "position vectors, differing in which demands / supplies are zero (half of them only in that), solved one after the other in "
                "one process and thread, each compared with the model and the statement like a T1 case; exhaustively all ordered pairs of "
                "zero-demand patterns A, B, A on all positions in {0..2} for 1..2 sources x 2..3 sinks (quick: without 2x3); TO = 2..6 calls "
                "(solve / assign / balanceDemand / solve+assign; fixed patterns such as refused solve, balanceDemand, solve, assign and random "
                "ones) on ONE object, about half with supply > demand at first so that the first call is refused, zero demands 0-60%%: every "
                "call's result is compared with the model on the object's data before the call, with fresh objects on the same data, and "
                "with the statement; a call (TS and TO cases) that does not return within 6 s is a violation; exhaustively 1..2 sources, 1..3 sinks, "
                "positions 0..1, supplies/demands 0..2 under 3 call patterns (quick: without 2x3). "
                "LARGE AMOUNTS (%d case lines, 3/4 T1 and 1/4 TO): 1..6 x 1..6 sources x sinks (15%%: up to 12 x 10), positions as above (range 1..12, "
                "20..2000 or 10^8, negative, ties, sources on sinks), supplies / demands of magnitude 2^31-1, 2^31, 2^32-1, 2^32, 2^33, 2^36, 2^40 "
                "(uniform below it, at it, a few large among small ones, all entries in [2^29, 2^31) so that every entry fits an int and the "
                "totals do not, upper half, mixed with entries <= 2^20), 0-45%% zeros, a fifth with the total supply exactly at 2^31-1, 2^31, "
                "2^31+1, 2^32-1, 2^32, 2^32+1, 2^32+5, 3*2^31, 2^33; slack / exact balance / deficit through balanceDemand (missing amount "
                "below the number of sinks, up to the magnitude, or >= 2^31) / supply > demand without balanceDemand (refused: compared with "
                "the model) / balanceDemand with nothing missing; compared exactly with the model over Z and with the statement (independent "
                "min-cost flow with 128-bit cost accumulation when n*m <= 64, proved checker when n*m <= %d). "
                "non-trivial = the plan has >= 2 entries and positive cost; distinct = distinct case lines" % (smalls, nhist, nbig, CP_LIMIT),
        "exhaustive": True, "exhaustive_cases": nsmall, "random_cases": total - nsmall - len(corp) - nhist - nbig, "state_between_calls_case_lines": nhist,
        "large_amount_case_lines": nbig,
        "problems_sent_to_the_model": sum(s["units"] for s in stats), "corpus_cases": len(corp),
        "samples": [lines[nhist + nbig + len(corp) + nsmall // 2], lines[nhist + nbig + len(corp) + nsmall + 1], lines[-1][:400],
                    hist[len(hist) // 5], hist[len(hist) // 2][:300], hist[-1][:400], hist[-2][:400], big[0][:400], big[len(big) // 2][:400], big[-1][:400]],
        "distribution": dist,
        "cpp_plans_accepted_by_proved_checker": sum(s["certified"] for s in stats),
        "asan_variant": "asan-nosio (address + bounds/pointer-overflow/null/alignment/vla-bound; signed-integer-overflow NOT enabled: the "
                        "LLONG_MIN addition at transportation_1d.cpp checkSolutionOptimal is an observation, see design/C14.md)",
        "asan_cases": total, "asan_failures": nafail, "cases_skipped_after_repeated_crashes": nskipped,
        "vm_compute_crosschecked": nvm,
        "model_vs_impl_differences": nmism,
        "impl_outputs_violating_statement": nofail,
    })
    return ctx.finish(LEVEL, cov, [
        "domain = the property's quantifier: non-negative supplies/demands, total supply <= total demand (possibly after balanceDemand), "
        ">= 1 source and >= 1 sink; outside it only equality of the thrown error with the model is compared",
        "the 'sink of positive demand' clause presupposes that some sink has positive demand (false on all-zero-demand instances for model and C++ alike; the oracle skips it there)",
        "memory clause: c14_no_oob covers computeAssignment / convertAssignmentBack only; the sorter constructor, convert, run / push, flushPositions are observed under ASan (no _GLIBCXX_ASSERTIONS: over-reads inside reserved capacity are invisible); balanceDemand has no theorem",
        "optimality of the sweep itself is proved for all inputs of the model (c14_optimal: value-function invariant of the event sweep + "
        "lower bound for every valid plan; files coq/Transp1dOpt*.v); the bounded theorems, the proved checker on the C++ plans (n*m <= %d) and "
        "the independent min-cost flow (n*m <= 64, amounts <= 2^50, optimum <= 2^62) remain as per-run validation of the model<->code tie" % CP_LIMIT,
        "model tied to the code by exact comparison on the cases of this run",
    ])


def replay(ctx, path):
    r = json.load(open(path))["replay"]
    case = r.get("case") or r["first_difference"]["case"]
    harness = common.build_harness("transp1d")
    asan = common.build_harness("transp1d", "asan-nosio")
    driver = common.build_driver("transp1d")
    out, _ = run_single(harness, case)
    aout, aerr = run_single(asan, case)
    mo = model_of(driver, case, out)
    why = verdict_line(case, out)
    print("case :", case)
    print("impl :", out)
    print("asan :", aout, asan_summary(aerr))
    print("model:", mo)
    print("statement:", why or "holds on this output")
    us = units_of(case, out) or []
    differs = [(pl, o, m_) for (pl, o, lb), m_ in zip(us, mo.split(" || ")) if o.rsplit(" | O", 1)[0].strip() != m_.rsplit(" | C ", 1)[0].strip()]
    print("model differs on:", differs[:2])
    bad = why is not None or aout.startswith("DIED") or aout != out or bool(differs) or not us
    return 1 if bad else 0
