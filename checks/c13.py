"""C13 -- transportation solver returns a feasible minimum-cost plan.
Proof: coq/Properties_C13.v (LP certificate checker proved sound via LpCert.lp_cert_sound, feasibility
invariants of the line-by-line model Ssp.v, toAssignment argmax, increaseCapacity postcondition, bounded
optimality of the raw algorithm).
Tie (RELATIONAL, because CostElt::operator< compares costs only and std::priority_queue's choice among
equal costs is libstdc++'s): TransportationProblem (constructor, increaseCapacity, solve, toAssignment)
compiled from /repo against the extracted model on exhaustive tiny domains + random streams: same
outcome kind, equal total cost, equal capacities after increaseCapacity, toAssignment(C++ plan) equal to
the model's to_assignment of the same plan; the C++ plan itself goes through the PROVED checkers
(feasibleb, check_plan = dual certificate, argmaxb) and through an independent oracle (lemon
NetworkSimplex minimum cost).  Equality of the allocation matrices is only a statistic.
Integer costs near the top of CostType = int (stream `bigcost`): costs <= INT_MAX/2 are treated like every other case (C07 proves
that no int of the run overflows there); with a cost in (INT_MAX/2, INT_MAX-1] `sendingCost_[i] + cost` (transportation.cpp:453)
can wrap, and a hang / infeasible / non-optimal result on such a case is finding F26 (known_findings.json), matched only there."""
import json
import re

from tools import common

LEVEL = "proof"

# (sinks, sources, max capacity, max demand, max cost).  ENUM_QUICK = seven of the nine domains of theorem c13_optimal_bounded;
# ENUM_THOROUGH adds the other two, (3,3,2,1,2) and (4,2,2,3,1), plus (3,3,2,2,2) and (4,3,1,1,1), which are NOT in the bounded theorem
# (they are covered by the unbounded theorems only; here they are tie domains)
ENUM_QUICK = [(2, 3, 3, 3, 2), (3, 2, 2, 2, 2), (3, 3, 2, 2, 1), (2, 2, 3, 3, 3), (1, 3, 9, 3, 2), (3, 1, 3, 9, 2), (2, 4, 3, 2, 1)]
ENUM_THOROUGH = ENUM_QUICK + [(3, 3, 2, 1, 2), (4, 2, 2, 3, 1), (3, 3, 2, 2, 2), (4, 3, 1, 1, 1)]
FMT = ("TP incr nsnk nsrc caps.. dems.. costs[snk][src]..  (TF: float costs num/den, see harness/transp.cpp); "
       "result: OK cost | caps after increaseCapacity | allocations row-major [snk][src] | toAssignment")
HALF = 1073741823        # INT_MAX / 2: the largest integer cost for which c07_ssp_run_no_overflow proves that no int of run() overflows
SKIP_LIMIT = 20          # more SKIPPED cases than this (harness: after 20 HANGs in one process) = the run did not evaluate its cases


def over_half(line):
    """integer-cost case with some cost above INT_MAX/2: the input class of finding F26"""
    if not line.startswith("TP "):
        return False
    tag, incr, nsnk, nsrc, caps, dems, rest = parse_case(line)
    return bool(rest) and max(rest) > HALF


def f26(ctx, st, line, kind):
    """a failure of the statement on a case of F26's input class; True = listed as known (counted, not a violation)"""
    st["f26"][kind] = st["f26"].get(kind, 0) + 1
    if len(st["f26_samples"]) < 3:
        st["f26_samples"].append(line[:400])
    return ctx.known_finding("F26")


def _run(cmd, lines):
    """run_both cuts the list into contiguous chunks: deal the lines round-robin first so that the expensive
    streams (many sources) are spread over all workers; results come back in the original order"""
    n = len(lines)
    k = max(1, min(common.NCPU, n // 200 + 1))
    perm = sorted(range(n), key=lambda i: (i % k, i))
    out, _, _ = common.run_both(cmd, None, [lines[i] for i in perm], chunk=200)
    res = [None] * n
    for i, o in zip(perm, out):
        res[i] = o
    return res


def parse_case(line):
    v = line.split()
    incr, nsnk, nsrc = int(v[1]), int(v[2]), int(v[3])
    nums = [int(x) for x in v[4:]]
    caps, dems = nums[:nsnk], nums[nsnk:nsnk + nsrc]
    rest = nums[nsnk + nsrc:]
    return v[0], incr, nsnk, nsrc, caps, dems, rest


def parse_ok(res):
    """'OK cost | caps | alloc | assign [| scaled] [# oracle]' -> dict or None"""
    if not res.startswith("OK "):
        return None
    body, _, orc = res.partition("#")
    f = [x.strip() for x in body[3:].split("|")]
    try:
        d = {"cost": int(f[0]), "caps": [int(x) for x in f[1].split()], "alloc": [int(x) for x in f[2].split()],
             "assign": [int(x) for x in f[3].split()], "oracle": orc.strip() or None}
        if len(f) > 4:
            d["extra"] = f[4]
        return d
    except (ValueError, IndexError):
        return None


def incr_exact(caps0, dems, caps1, incr):
    """what increaseCapacity does exactly (theorem c13_increase_capacity_post), evaluated on the C++ capacities"""
    if not incr:
        return caps1 == caps0
    missing = sum(dems) - sum(caps0)
    if missing <= 0:
        return caps1 == caps0
    n = len(caps0)
    q, r = divmod(missing, n)
    return len(caps1) == n and all(caps1[j] - caps0[j] == q + (1 if j < r else 0) for j in range(n)) and sum(caps1) == sum(dems)


def evaluate(ctx, lines, harness, driver, st):
    """runs C++ and model on the case lines; fills st; returns nothing"""
    # cases above INT_MAX/2 run in processes of their own with a short CPU limit (about one in eight does not return: F26), so that
    # their hangs do not use up the hang budget (5 s x 3, 0.5 s x 17, then SKIPPED) of the processes that run C13's proper domain
    ov = [over_half(l) for l in lines]
    impl = [None] * len(lines)
    for flag, cmd in ((False, [harness, "run"]), (True, [harness, "run", "short"])):
        idx = [k for k in range(len(lines)) if ov[k] == flag]
        if idx:
            for k, o in zip(idx, _run(cmd, [lines[k] for k in idx])):
                impl[k] = o
    mlines, cases = [], []
    for l, r in zip(lines, impl):
        tag, incr, nsnk, nsrc, caps, dems, rest = parse_case(l)
        o = parse_ok(r)
        costs = None
        if tag == "TP":
            costs = rest
        elif o is not None and "extra" in o:
            costs = [int(x) for x in o["extra"].split()]          # the C++'s own scaled integer costs
        elif o is None:
            costs = [0] * (nsnk * nsrc)                           # no plan: only the outcome kind is compared
        cases.append((tag, incr, nsnk, nsrc, caps, dems, costs, o))
        if costs is None or len(costs) != nsnk * nsrc:
            mlines.append("")
        else:
            mlines.append("TP %d %d %d %s" % (incr, nsnk, nsrc, " ".join(map(str, caps + dems + costs))))
    model = _run([driver], mlines)
    cks, ckidx = [], []
    for k, (tag, incr, nsnk, nsrc, caps, dems, costs, o) in enumerate(cases):
        if o is not None and costs is not None and len(o["alloc"]) == nsnk * nsrc and len(o["assign"]) == nsrc and len(o["caps"]) == nsnk:
            cks.append("CK %d %d %s" % (nsnk, nsrc, " ".join(map(str, o["caps"] + dems + costs + o["alloc"] + o["assign"]))))
            ckidx.append(k)
    ckres = dict(zip(ckidx, _run([driver], cks)))
    for k, (l, r, m) in enumerate(zip(lines, impl, model)):
        tag, incr, nsnk, nsrc, caps, dems, costs, o = cases[k]
        st["n"] += 1
        st["kinds"][tag + (":incr" if incr else "")] = st["kinds"].get(tag + (":incr" if incr else ""), 0) + 1
        indom = all(c > 0 for c in caps) and all(d > 0 for d in dems) and nsnk >= 1 and nsrc >= 1 and (incr or sum(dems) <= sum(caps))
        rk = r.split()[0] if r.split() else "<none>"
        mk = m.split()[0] if m.split() else "<none>"
        st["outcomes"][rk] = st["outcomes"].get(rk, 0) + 1
        if not indom:
            # outside C13 (non-positive data: the constructor must refuse; demand > capacity is never generated)
            st["outside"] += 1
            if (rk == "THROW") != (mk == "THROW"):
                st["mism"].append((l, r[:300], m[:300], "outcome kind differs on a problem check() should refuse"))
            continue
        # ---------------- the statement of C13 on the C++ output
        if rk == "SKIPPED":
            st["skipped"] += 1
            continue
        if ov[k]:
            st["over_half"] += 1
            st["over_half_outcomes"][rk] = st["over_half_outcomes"].get(rk, 0) + 1
        if o is None:
            if ov[k] and rk == "HANG" and f26(ctx, st, l, "does not return"):
                continue
            st["ofail"].append((l, r[:300], "no plan returned for a problem with positive data and demand <= capacity: " + r[:80]))
            continue
        ck = ckres.get(k, "")
        mm = re.match(r"^([01]) ([01]) ([01]) (-?\d+) \|(.*)$", ck)
        if not mm:
            st["ofail"].append((l, r[:300], "result of the wrong shape (allocations %d, assignment %d, capacities %d)" % (len(o["alloc"]), len(o["assign"]), len(o["caps"]))))
            continue
        feas, cert, amax, ckcost, masg = mm.group(1) == "1", mm.group(2) == "1", mm.group(3) == "1", int(mm.group(4)), mm.group(5).split()
        orc = o["oracle"]
        why = None
        if sum(o["caps"]) < sum(dems) or len(o["caps"]) != nsnk or any(c1 < c0 for c0, c1 in zip(caps, o["caps"])):
            why = "capacity normalisation failed: capacities %s -> %s for total demand %d" % (caps, o["caps"], sum(dems))
        elif not feas:
            why = "plan infeasible (proved checker feasibleb rejects: a source not fully allocated, a sink above capacity or a negative allocation)"
        elif ckcost != o["cost"]:
            st["mism"].append((l, r[:300], ck, "cost bookkeeping of harness and model differ")); continue
        elif orc not in (None, "-", "?") and int(orc) < o["cost"]:
            why = "plan not of minimum cost: cost %d, optimum %s (independent min-cost-flow oracle%s)" % (
                o["cost"], orc, "" if cert else "; the proved certificate checker rejects it too")
        elif not amax:
            why = "toAssignment does not give each source a sink that receives most of it (proved checker argmaxb)"
        kind = "infeasible plan" if why and why.startswith("plan infeasible") else "plan not of minimum cost" if why and why.startswith("plan not of minimum") else None
        if why and kind and ov[k] and f26(ctx, st, l, kind):
            continue
        if why:
            st["ofail"].append((l, r[:300], why))
            continue
        if ov[k]:
            st["over_half_optimal"] += 1
        elif tag == "TP" and costs and max(costs) >= HALF - 1000000:
            st["near_half"] += 1
        if not incr_exact(caps, dems, o["caps"], incr):
            # C13 only needs capacity >= demand afterwards; the exact shares are the model's (c13_increase_capacity_post)
            st["mism"].append((l, r[:300], m[:300], "increaseCapacity does not add floor/ceil shares of the missing capacity: %s -> %s for total demand %d"
                               % (caps, o["caps"], sum(dems)))); continue
        if not cert:
            # feasible, the oracle does not find it suboptimal, but no certificate was found: the untrusted
            # potential computation failed -> machinery problem, not a counterexample
            st["mism"].append((l, r[:300], ck, "check_plan finds no dual certificate for a plan the min-cost-flow oracle calls optimal"))
            continue
        if orc not in (None, "-", "?") and int(orc) != o["cost"]:
            st["mism"].append((l, r[:300], orc, "oracle reports a larger optimum than a certified feasible plan")); continue
        st["certified"] += 1
        if [str(a) for a in o["assign"]] != masg:
            st["mism"].append((l, r[:300], ck, "toAssignment differs from the model's to_assignment of the same plan")); continue
        # ---------------- relational tie with the model's run
        mo = parse_ok(m.rsplit("|", 1)[0]) if m.startswith("OK ") else None
        if mo is None:
            st["mism"].append((l, r[:300], m[:300], "model does not return a plan where the C++ does")); continue
        if m.rsplit("|", 1)[1].strip() != "1":
            st["mism"].append((l, r[:300], m[:300], "solve_checked = None: the proved checker does not certify the model's own plan")); continue
        if mo["cost"] != o["cost"]:
            st["mism"].append((l, r[:300], m[:300], "total cost differs (C++ %d, model %d)" % (o["cost"], mo["cost"]))); continue
        if mo["caps"] != o["caps"]:
            st["mism"].append((l, r[:300], m[:300], "capacities after increaseCapacity differ")); continue
        if mo["alloc"] == o["alloc"]:
            st["same_matrix"] += 1
        if mo["assign"] == o["assign"]:
            st["same_assign"] += 1
        # non-trivial: capacities bind (the optimum is above the cost of sending every source to its cheapest sink)
        lb = sum(d * min(costs[j * nsrc + i] for j in range(nsnk)) for i, d in enumerate(dems))
        if o["cost"] > lb:
            st["nontriv"].add(l)
        if any(sum(1 for j in range(nsnk) if o["alloc"][j * nsrc + i] > 0) > 1 for i in range(nsrc)):
            st["split"] += 1
        if sum(o["caps"]) == sum(dems):
            st["balanced"] += 1
        st["max_nsrc"] = max(st["max_nsrc"], nsrc)
        big = max(o["alloc"])
        st["max_quantity"] = max(st["max_quantity"], big, max(o["caps"]))
        st["share_ge_2p31"] += big >= 2 ** 31
        st["share_ge_2p32"] += big >= 2 ** 32
        st["share_eq_2p31"] += (2 ** 31) in o["alloc"]
        # a source whose largest share is >= 2^31 and that also sends a positive smaller share elsewhere
        if any(max(col) >= 2 ** 31 and sum(1 for x in col if x > 0) > 1 for col in (o["alloc"][i::nsrc] for i in range(nsrc))):
            st["split_source_with_share_ge_2p31"] += 1
        st["nsnk_hist"][nsnk] = st["nsnk_hist"].get(nsnk, 0) + 1
    return impl, model


def vm_crosscheck(driver, lines):
    """a fixed subset evaluated inside Coq (vm_compute) and compared with the extracted code"""
    sub = [l for l in lines if l.startswith("TP ") and len(l) < 400][::max(1, len(lines) // 80)][:80]

    def gal(l):
        _, incr, nsnk, nsrc, caps, dems, costs = parse_case(l)
        lst = lambda xs: "[" + "; ".join("(%d)" % x for x in xs) + "]"
        rows = "[" + "; ".join(lst(costs[j * nsrc:(j + 1) * nsrc]) for j in range(nsnk)) + "]"
        pb = "(mkPb %s %s %s)" % (lst(caps), lst(dems), rows)
        if incr:
            pb = "(increase_capacity %s)" % pb
        return "match ssp %s with Ok x => (1, concat x) | Fail _ => (0, []) end" % pb
    res = common.vm_eval("C13", "From Coq Require Import List ZArith. Import ListNotations. Require Import CV.LpCert CV.Ssp. Local Open Scope Z_scope.",
                         [gal(l) for l in sub])
    if res is None:
        return 0, ["vm_compute evaluation failed"]
    out = _run([driver], sub)
    bad = []
    for l, r, m in zip(sub, res, out):
        rr = [int(x) for x in re.findall(r"-?\d+", r)]
        mo = parse_ok(m.rsplit("|", 1)[0]) if m.startswith("OK ") else None
        want = [1] + mo["alloc"] if mo else [0]
        if rr != want:
            bad.append("vm_compute %r vs extracted %r on %s" % (r[:200], m[:200], l[:200]))
    return len(sub), bad


def gen_cases(ctx, harness):
    lines = common.corpus("C13", ("TP ", "TF "))
    ncorpus = len(lines)
    doms = ENUM_QUICK if ctx.quick else ENUM_THOROUGH
    nenum = 0
    for d in doms:
        g = common.harness_gen(harness, ["enum"] + list(d))
        nenum += len(g)
        lines += g
    seeds = [ctx.seed] if ctx.quick else [ctx.seed, ctx.seed + 1000, ctx.seed + 2000]
    nrand, nbig, nflt, nhuge = (16000, 48, 4000, 4000) if ctx.quick else (300000, 900, 60000, 90000)
    nbigcost = 1600 if ctx.quick else 36000
    for s in seeds:
        lines += common.harness_gen(harness, ["rand", s, nrand // len(seeds)])
        lines += common.harness_gen(harness, ["flt", s, nflt // len(seeds)])
        lines += common.harness_gen(harness, ["big", s, nbig // len(seeds)])
        lines += common.harness_gen(harness, ["huge", s, nhuge // len(seeds)])
        lines += common.harness_gen(harness, ["bigcost", s, nbigcost // len(seeds)])
    # a few problems check() must refuse (outside C13; only the outcome kind is compared)
    lines += ["TP 0 2 2 3 0 1 1 0 1 1 0", "TP 0 2 2 3 3 1 -1 0 1 1 0", "TP 1 1 1 0 5 7", "TF 1 2 1 4 4 0 1 3 5"]
    return lines, ncorpus, nenum, doms


def new_stats():
    return {"n": 0, "skipped": 0, "kinds": {}, "outcomes": {}, "outside": 0, "mism": [], "ofail": [], "certified": 0, "same_matrix": 0,
            "same_assign": 0, "nontriv": set(), "split": 0, "balanced": 0, "max_nsrc": 0, "nsnk_hist": {},
            "f26": {}, "f26_samples": [], "over_half": 0, "over_half_outcomes": {}, "over_half_optimal": 0, "near_half": 0,
            "max_quantity": 0, "share_ge_2p31": 0, "share_ge_2p32": 0, "share_eq_2p31": 0, "split_source_with_share_ge_2p31": 0}


def run(ctx):
    proof_ok, proof = common.proof_status(ctx, "C13")
    harness = common.build_harness("transp")
    driver = common.build_driver("transp")
    lines, ncorpus, nenum, doms = gen_cases(ctx, harness)
    st = new_stats()
    evaluate(ctx, lines, harness, driver, st)
    nvm, vmbad = vm_crosscheck(driver, lines[ncorpus + nenum:])

    for l, r, why in st["ofail"][:3]:
        ctx.violation("TransportationProblem violates C13 on a concrete problem: " + why,
                      {"case": l if len(l) < 20000 else l[:20000] + " ...", "format": FMT, "implementation_output": r, "why": why,
                       "how": "./check C13 --replay <this file>"})
    if not st["ofail"]:
        if st["mism"]:
            l, r, m, why = st["mism"][0]
            ctx.violation("correspondence Ssp.v <-> transportation.cpp no longer holds (%d of %d cases: %s), but no problem violating C13 was found"
                          % (len(st["mism"]), st["n"], why),
                          {"broken": "relational correspondence of coq/Ssp.v (theorems of Properties_C13.v) with TransportationProblem",
                           "first_difference": {"case": l[:20000], "implementation": r, "model_or_checker": m, "why": why}}, found_input=False)
        if not proof_ok:
            ctx.violation("proof obligations of Properties_C13.v do not check", {"broken": "Properties_C13.v", "detail": proof}, found_input=False)
        if vmbad:
            ctx.violation("extracted model disagrees with vm_compute", {"broken": "extraction cross-check", "detail": vmbad[:3]}, found_input=False)
    if st["skipped"] > SKIP_LIMIT:
        # the harness stops running cases in a process after 20 of them did not return: those cases were NOT evaluated
        ctx.violation("%d of %d cases were skipped after repeated hangs of the solver (limit %d): the correspondence run is incomplete"
                      % (st["skipped"], st["n"], SKIP_LIMIT),
                      {"broken": "relational correspondence of coq/Ssp.v with TransportationProblem (cases not evaluated)",
                       "skipped": st["skipped"], "implementation_outcomes": st["outcomes"]}, found_input=False)

    cov = dict(proof)
    cov.update({
        "trusted_base": common.TRUSTED_BASE + ["lemon::NetworkSimplex is used only as a second, unproved oracle for the optimum"],
        "evaluations": st["n"], "distinct_nontrivial": len(st["nontriv"]),
        "rule": "exhaustive: every problem with (sinks, sources, max capacity, max demand, max cost) in %s, capacities/demands >= 1, costs >= 0, "
                "total demand <= total capacity; random (seeded splitmix64): 1..16 sinks, 1..60 sources (big stream: 100..1500), demands up to 10^6 "
                "(max demand / min capacity <= 250), costs uniform / mostly zero / Manhattan grid / per-sink offsets / two-valued up to 10^6, exactly "
                "balanced, with slack, and through increaseCapacity() with short capacities; large-quantity stream (DemandType is 64-bit): "
                "(a) small problems (1..10 sinks, 1..24 sources, demands 1..500 units, max demand / min capacity <= 250) scaled by a granule G in "
                "{2^31, 2^32, 2^31-1, 2^31+1, 2^32+10, 2^33+5, 3*2^30, 2^29.., random 2^24..2^33} so that quantities reach 2^41 and every share is a "
                "multiple of G, (b) 1..3 independent blocks of one source spilling over 1..4 private sinks with main shares at 2^31, 2^31+-1, "
                "2^32, 2^32+-1, 2^32+10, 2^33+5, 3*2^31, 3*2^32+5, 2^34-1 or (1..64)*2^31 with low words 0 / ffffffff / 80000000 / random, remainders "
                "0/3/20/whole small sinks of 5, 7, 20, 35, 1000, 2^31-1, 2^31 (e.g. 2^32+30 split 2^32+10 / 20; a share of exactly 2^31), sinks shuffled; "
                "costs <= 1000 there so that every total is < 2^62; bigcost stream (integer-cost constructor, 1..6 sinks, 1..10 sources, demands <= 20): "
                "even lines have every cost <= INT_MAX/2 = 1073741823 (all within 3 of it / 40 %% small + rest within 10 or 10^6 of it / uniform / "
                "per-sink offsets 0, INT_MAX/4, INT_MAX/2-2 + noise / two-valued with INT_MAX/2 / 30 %% zeros + rest INT_MAX/2-3..INT_MAX/2) and are "
                "judged like every other case; odd lines have the same shapes below INT_MAX-1 = 2147483646 with at least one cost above "
                "INT_MAX/2 (INT_MAX itself is updateTree's sentinel, outside [0, INT_MAX)): the C++ result is judged by the statement oracle and a "
                "hang / infeasible / non-optimal result there is finding F26; float stream: costs num/den as float distances, the "
                "C++'s own scaled integer costs() are read back and given to the model. non-trivial = capacities bind: the optimum exceeds the cost "
                "of sending every source to its cheapest sink; distinct = distinct case lines" % (doms,),
        "exhaustive": True, "exhaustive_cases": nenum, "corpus_cases": ncorpus,
        "samples": [lines[ncorpus], lines[ncorpus + nenum + 1][:400], lines[-5][:400]],
        "distribution": {"streams": st["kinds"], "implementation_outcomes": st["outcomes"], "outside_domain_refusals": st["outside"],
                         "sinks_histogram": st["nsnk_hist"], "max_sources": st["max_nsrc"], "plans_with_split_sources": st["split"],
                         "max_quantity_in_a_plan": st["max_quantity"], "plans_with_a_share_ge_2^31": st["share_ge_2p31"],
                         "plans_with_a_share_ge_2^32": st["share_ge_2p32"], "plans_with_a_share_of_exactly_2^31": st["share_eq_2p31"],
                         "plans_with_a_split_source_whose_main_share_is_ge_2^31": st["split_source_with_share_ge_2p31"],
                         "exactly_balanced": st["balanced"]},
        "impl_plans_certified_optimal_by_proved_checker": st["certified"],
        "impl_matrix_identical_to_model (statistic)": st["same_matrix"],
        "impl_assignment_identical_to_model (statistic)": st["same_assign"],
        "model_vs_impl_differences": len(st["mism"]),
        "impl_outputs_violating_statement": len(st["ofail"]),
        "cases_skipped_after_repeated_hangs": st["skipped"],
        "cases_skipped_limit": SKIP_LIMIT,
        "evaluation_incomplete": st["skipped"] > 0,
        "integer_costs_within_10^6_below_INT_MAX/2_handled_like_the_model": st["near_half"],
        "integer_costs_above_INT_MAX/2": {"cases": st["over_half"], "implementation_outcomes": st["over_half_outcomes"],
                                          "optimal_and_tied_to_the_model": st["over_half_optimal"], "matched_to_F26": st["f26"],
                                          "samples_matched_to_F26": st["f26_samples"]},
        "vm_compute_crosschecked_cases": nvm,
        "clauses": {"feasible + minimal cost": "raw algorithm = the ideal-Z model with its one tie-breaking rule, all inputs of the domain (integer costs in "
                                               "[0, INT_MAX); the C++ is overflow-free for costs <= INT_MAX/2 and float costs by C07, refuted above: F26), "
                                               "no size bound: every returned plan is feasible and of minimum "
                                               "cost (c13_ssp_optimal) and a plan IS returned: every loop ends within the budgets of Ssp.v, no assertion, no empty "
                                               "top() (c13_ssp_returns; updateTree's budget big_fuel proved sufficient, the earlier cubic budget refuted by "
                                               "c13_tree_fuel_insufficient, whose exponential family is in the corpus); checker proved sound "
                                               "(c13_checked_solver_sound); bounded theorem kept; "
                                               "every case of the run validated (model plan and C++ plan certified)",
                    "assignment": "c13_to_assignment_argmax proved for all plans; exact tie on the C++ plan",
                    "increaseCapacity": "c13_increase_capacity_post proved; exact tie"},
    })
    return ctx.finish(LEVEL, cov, [
        "model Ssp.v is hand-written; tied to transportation.cpp relationally (equal cost, certified C++ plan) on the cases of this run",
        "termination of updateTree is proved with a pseudo-polynomial round budget (big_fuel, the one Ssp.v uses); its worst case is exponential in "
        "the number of sinks, in the model and in the C++ (family of c13_tree_fuel_insufficient, K <= 12 in the corpus): running time is not part of C13",
        "machine-integer overflow (CostType = int) is outside this model (ideal Z): the unbounded theorems are about the model for costs in "
        "[0, INT_MAX); that no int of the C++ run overflows is proved in C07 for costs <= INT_MAX/2 = 1073741823 (c07_ssp_run_no_overflow, sharp: "
        "c07_ssp_run_half_sharp) and for the float constructor's scaled costs (c07_float_problem_cost_dom, c07_ssp_run_no_overflow_scaled); above "
        "INT_MAX/2 the integer-cost constructor is refuted by finding F26 (bigcost stream)",
        "costsFromIntegers (float scaling) is not modelled here: the model receives the C++'s scaled costs, so 'minimum cost' of a float problem "
        "is with respect to those scaled integers (scaling: C07); DensityLegalizer::reoptimize is not called: the flt stream emulates its call "
        "sequence (float constructor, increaseCapacity, solve, toAssignment)",
        "the C++ plan differs from the model's plan on about 10 % of the cases (priority-queue ties): there the C++'s optimality rests on the "
        "proved certificate checker run on that plan (check_plan) and on the lemon optimum, not on the theorems about ssp",
        "problems with total demand > total capacity are outside C13 and are not generated"])


def replay(ctx, path):
    r = json.load(open(path))["replay"]
    case = r.get("case") or r.get("first_difference", {}).get("case")
    harness = common.build_harness("transp")
    driver = common.build_driver("transp")
    st = new_stats()
    impl, model = evaluate(ctx, [case], harness, driver, st)
    print("case :", case[:2000])
    print("impl :", impl[0][:2000])
    print("model:", model[0][:2000])
    print("statement violated:", [w for _, _, w in st["ofail"]])
    print("matched to known finding F26 (integer cost above INT_MAX/2):", st["f26"])
    print("correspondence    :", [w for _, _, _, w in st["mism"]])
    return 1 if (st["ofail"] or st["mism"]) else 0
